"""Static-analysis checkers for the curtsies properties (see /verif/DESIGN.md).

Nothing in this package imports or runs curtsies: every verdict is computed from the
source text of <repo>/curtsies/*.py as it is on disk when the check runs.
"""
