"""Reference model of the operating-system state the curtsies context managers change (independent of curtsies).

tty attributes per descriptor (termios), file status flags per descriptor (fcntl), the descriptor table (os.pipe /
os.close), the SIGINT handler and the signal wake-up descriptor (signal), main / non-main thread (threading), the
readiness and data of descriptors (select / os.read, scripted).  `install` replaces the stdlib modules the package's
modules import by stubs over one `OS` instance; the C12 / C08 rules interpret the package's own code against it.

Crash points: `crash_at = k` makes the k-th OS call (counted from `arm()`) raise KeyboardInterrupt INSTEAD of taking
effect - an exception arriving while a request is blocked in, or about to make, that call.
"""
import termios as _termios

from .absint import FoldedRaise
from .consteval import ExcName, Record
from .objinterp import NativeFunc
from .report import AnalysisError

O_NONBLOCK = 2048
SIGINT = 2
ECHO, ICANON = _termios.ECHO, _termios.ICANON
VMIN, VTIME = _termios.VMIN, _termios.VTIME


class WouldBlock(AnalysisError):
    """The modelled code waits for something that can never arrive."""


class OS:
    def __init__(self, tty_attrs=None, flags=2, main_thread=True, platform="linux", handler="default_int_handler"):
        cc = [bytes([i + 1]) for i in range(32)]
        self.tty = {0: tty_attrs or [0x6d02, 5, 0xbf, 0x8a3b, 15, 15, cc]}
        self.flags = {0: flags, 1: 1, 2: 1}
        self.fds = {0, 1, 2}
        self.default_handler = NativeFunc(lambda a, k: None, "signal.default_int_handler")
        # the handler in place before entering: Python's default handler (a function) or SIG_DFL / SIG_IGN (IntEnum values 0 / 1)
        self.handler = {"default_int_handler": self.default_handler, "SIG_DFL": 0, "SIG_IGN": 1}[handler]
        self.wakeup_fd = -1
        self.blocking = {}
        self.main_thread = main_thread
        self.platform = platform
        self.ready = []          # scripted select results: lists of ready descriptors, or an exception name
        self.data = {}           # fd -> list of bytes objects os.read returns (or an exception name)
        self.clock = 1000.0
        self.calls = 0
        self.crash_at = None
        self.crash_with = "KeyboardInterrupt"
        self.trace = []
        self.written = []
        self.select_calls = []
        self.read_args = []
        self.flags_at_read = []
        self.on_select = None
        self.discarded = []      # input a TCSAFLUSH threw away
        self.pipes = {}          # write end -> read end
        self.tick = 0.25         # the clock advances by this much at every time.time() call
        self.stack = []          # the interpreter's call stack (set by install)

    # ---- snapshot of everything leaving a context must restore -------------------------------------
    def snapshot(self):
        return {"tty attributes": {fd: _deep(a) for fd, a in self.tty.items()},
                "file status flags": {fd: v for fd, v in self.flags.items() if fd in (0, 1, 2)},
                "open descriptors": sorted(self.fds),
                "SIGINT handler": self.handler,
                "signal wake-up descriptor": self.wakeup_fd}

    def arm(self, crash_at=None, crash_with="KeyboardInterrupt"):
        self.calls = 0
        self.crash_at = crash_at
        self.crash_with = crash_with

    def _call(self, name):
        self.trace.append(name)
        if any(q.endswith(".__exit__") for q in self.stack):
            return       # restoring code itself is not a crash point: the property is about exceptions raised inside the body
        self.calls += 1
        if self.crash_at is not None and self.calls == self.crash_at:
            self.crash_at = None
            raise FoldedRaise(ExcName(self.crash_with), "arrives at %s" % name)

    @staticmethod
    def fd_of(x):
        if isinstance(x, int):
            return x
        if isinstance(x, Record) and "fileno" in x.fields:
            return x.fields["fileno"].fn([], {})
        raise AnalysisError("OS model: not a descriptor or stream: %r" % (x,))

    def _open(self, fd, what):
        if fd not in self.fds:
            raise FoldedRaise(ExcName("OSError", errno=9), "%s on closed descriptor %d" % (what, fd))

    # ---- termios / tty ----------------------------------------------------------------------------
    def tcgetattr(self, a, k):
        self._call("termios.tcgetattr")
        fd = self.fd_of(a[0])
        if fd not in self.tty:
            raise FoldedRaise(ExcName("error", errno=25), "not a tty")
        return _deep(self.tty[fd])

    def _flush_input(self, fd, when):
        # TCSAFLUSH: "after all output has been transmitted; all input that has been received but not read is discarded"
        if when == _termios.TCSAFLUSH and self.data.get(fd):
            self.discarded.extend(self.data[fd])
            self.data[fd] = []

    def tcsetattr(self, a, k):
        self._call("termios.tcsetattr")
        fd = self.fd_of(a[0])
        attrs = a[2]
        self._flush_input(fd, a[1])
        if not (isinstance(attrs, list) and len(attrs) == 7 and isinstance(attrs[6], list)):
            raise FoldedRaise("TypeError", "tcsetattr attributes")
        self.tty[fd] = _deep(attrs)
        return None

    def _setmode(self, name, a, k=None):
        self._call(name)
        fd = self.fd_of(a[0])
        self._flush_input(fd, a[1] if len(a) > 1 else (k or {}).get("when", _termios.TCSAFLUSH))
        old = _deep(self.tty[fd])
        new = _deep(old)
        new[3] &= ~(ECHO | ICANON)
        if name == "tty.setraw":
            new[0] = 0
            new[1] &= ~1
        new[6][VMIN], new[6][VTIME] = 1, 0
        self.tty[fd] = new
        return old

    # ---- fcntl ----------------------------------------------------------------------------------------
    def fcntl(self, a, k):
        self._call("fcntl.fcntl")
        fd = self.fd_of(a[0])
        self._open(fd, "fcntl")
        if a[1] == 3:      # F_GETFL
            return self.flags.get(fd, 0)
        if a[1] == 4:      # F_SETFL
            self.flags[fd] = a[2]
            return 0
        raise AnalysisError("OS model: fcntl command %r" % (a[1],))

    # ---- os -------------------------------------------------------------------------------------------
    def pipe(self, a, k):
        self._call("os.pipe")
        out = []
        for _ in range(2):
            fd = 3
            while fd in self.fds:
                fd += 1
            self.fds.add(fd)
            self.flags[fd] = 0
            out.append(fd)
        self.pipes[out[1]] = out[0]
        return tuple(out)

    def close(self, a, k):
        self._call("os.close")
        fd = a[0]
        self._open(fd, "close")
        self.fds.discard(fd)
        if self.wakeup_fd == fd:
            pass
        return None

    def set_blocking(self, a, k):
        self._call("os.set_blocking")
        self._open(a[0], "set_blocking")
        self.flags[a[0]] = (self.flags.get(a[0], 0) & ~O_NONBLOCK) | (0 if a[1] else O_NONBLOCK)
        return None

    def get_blocking(self, a, k):
        return not (self.flags.get(a[0], 0) & O_NONBLOCK)

    def read(self, a, k):
        self._call("os.read")
        fd = a[0]
        self._open(fd, "read")
        self.read_args.append((a[0], a[1]))
        self.flags_at_read.append(self.flags.get(fd, 0))
        q = self.data.get(fd, [])
        if not q:
            if self.flags.get(fd, 0) & O_NONBLOCK:
                raise FoldedRaise(ExcName("BlockingIOError", errno=11), "os.read")
            raise AnalysisError("OS model: a blocking read on descriptor %d with no data scripted (it would block forever)" % fd)
        v = q.pop(0)
        if isinstance(v, str):
            raise FoldedRaise(ExcName(v), "os.read")
        if len(v) > a[1]:
            q.insert(0, v[a[1]:])
        return v[:a[1]]

    def write(self, a, k):
        self._call("os.write")
        self._open(a[0], "write")
        self.written.append((a[0], a[1]))
        if a[0] in self.pipes:
            self.data.setdefault(self.pipes[a[0]], []).append(a[1])
        return len(a[1])

    # ---- signal -----------------------------------------------------------------------------------------
    def getsignal(self, a, k):
        self._call("signal.getsignal")
        return self.handler

    def signal(self, a, k):
        self._call("signal.signal")
        if not self.main_thread:
            raise FoldedRaise("ValueError", "signal only works in main thread")
        if a[0] != SIGINT:
            raise AnalysisError("OS model: signal number %r" % (a[0],))
        old, self.handler = self.handler, a[1]
        return old

    def set_wakeup_fd(self, a, k):
        self._call("signal.set_wakeup_fd")
        if not self.main_thread:
            raise FoldedRaise("ValueError", "set_wakeup_fd only works in main thread")
        if a[0] != -1:
            self._open(a[0], "set_wakeup_fd")
        old, self.wakeup_fd = self.wakeup_fd, a[0]
        return old

    # ---- select / time ----------------------------------------------------------------------------------
    def select(self, a, k):
        self._call("select.select")
        self.select_calls.append((list(a[0]), a[3] if len(a) > 3 else None))
        if self.on_select is not None:
            hook, self.on_select = self.on_select, None
            hook()                       # something another thread does while this request is blocked in select
        if self.ready:
            v = self.ready.pop(0)
            if isinstance(v, str):
                raise FoldedRaise(ExcName(v, errno=4), "select.select")
            return ([fd for fd in a[0] if fd in v], [], [])
        # descriptors with data pending are ready, in the order they were asked about
        rs = [fd for fd in a[0] if self.data.get(fd)]
        if rs:
            return (rs, [], [])
        timeout = a[3] if len(a) > 3 else None
        if timeout is None:
            raise WouldBlock("select with no timeout on descriptors %s, none of which will ever become ready, blocks forever" % (list(a[0]),))
        self.clock += timeout            # the wait times out
        return ([], [], [])

    def time(self, a, k):
        self.clock += self.tick
        return self.clock


def _deep(a):
    return [list(x) if isinstance(x, list) else x for x in a]


def install(it, osm, modules=("input", "termhelpers", "window")):
    """Replace the stdlib modules imported by the package's modules with stubs over `osm`."""
    N = NativeFunc
    osm.stack = it.folder.stack
    consts = {k: getattr(_termios, k) for k in dir(_termios) if k.isupper() and isinstance(getattr(_termios, k), int)}
    termios = Record(tcgetattr=N(osm.tcgetattr, "termios.tcgetattr"), tcsetattr=N(osm.tcsetattr, "termios.tcsetattr"), **consts)
    tty = Record(setcbreak=N(lambda a, k: osm._setmode("tty.setcbreak", a, k), "tty.setcbreak"),
                 setraw=N(lambda a, k: osm._setmode("tty.setraw", a, k), "tty.setraw"),
                 IFLAG=0, OFLAG=1, CFLAG=2, LFLAG=3, ISPEED=4, OSPEED=5, CC=6)
    fcntl = Record(fcntl=N(osm.fcntl, "fcntl.fcntl"), F_GETFL=3, F_SETFL=4)
    os_ = Record(pipe=N(osm.pipe, "os.pipe"), close=N(osm.close, "os.close"), set_blocking=N(osm.set_blocking, "os.set_blocking"),
                 get_blocking=N(osm.get_blocking, "os.get_blocking"), read=N(osm.read, "os.read"), write=N(osm.write, "os.write"),
                 O_NONBLOCK=O_NONBLOCK)
    sig = Record(getsignal=N(osm.getsignal, "signal.getsignal"), signal=N(osm.signal, "signal.signal"),
                 set_wakeup_fd=N(osm.set_wakeup_fd, "signal.set_wakeup_fd"), SIGINT=SIGINT, SIG_DFL=0, SIG_IGN=1,
                 default_int_handler=osm.default_handler)
    main, other = Record(name="MainThread"), Record(name="Thread-1")
    threading = Record(current_thread=N(lambda a, k: main if osm.main_thread else other), main_thread=N(lambda a, k: main))
    select = Record(select=N(osm.select, "select.select"))
    # time.monotonic() has its own epoch: mixing it with time.time() in one subtraction shows as a wildly wrong interval
    time = Record(time=N(osm.time, "time.time"), monotonic=N(lambda a, k: osm.time(a, k) - 987654.0, "time.monotonic"))
    for m in modules:
        ov = it.folder.overrides.setdefault(m, {})
        ov.update({"termios": termios, "tty": tty, "fcntl": fcntl, "os": os_, "signal": sig, "threading": threading,
                   "select": select, "time": time})
        if m == "input":
            enc = N(lambda a, k: getattr(osm, "encoding", "utf-8"))      # what the locale reports: may change during a process
            ov["sys"] = Record(platform=osm.platform, maxsize=2 ** 63 - 1, getdefaultencoding=enc)
            ov["locale"] = Record(getpreferredencoding=enc)
