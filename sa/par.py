"""Fork-based parallel map for the finite-domain enumerations (the sandbox has 16 cores)."""
import multiprocessing
import os

_CTX = {}


def _run(args):
    fn, chunk = args
    return [_CTX["fn"](x) for x in chunk]


def pmap(fn, items, nproc=None, min_chunk=64):
    items = list(items)
    nproc = nproc or int(os.environ.get("VERIF_NPROC", 0)) or min(12, os.cpu_count() or 1)
    if nproc <= 1 or len(items) < 2 * min_chunk:
        return [fn(x) for x in items]
    _CTX["fn"] = fn
    size = max(min_chunk, (len(items) + nproc * 4 - 1) // (nproc * 4))
    chunks = [items[i:i + size] for i in range(0, len(items), size)]
    ctx = multiprocessing.get_context("fork")
    with ctx.Pool(nproc) as pool:
        parts = pool.map(_run, [(None, c) for c in chunks])
    return [y for p in parts for y in p]
