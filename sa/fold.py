"""Factory for the folder used by every rule: the object-aware folder (multi-statement package functions are inlined,
closures/generators supported), so that tables built by helper functions or comprehensions still fold."""
from .objinterp import OFolder, ObjInterp


def new_folder(src, fuel=10 ** 10):
    it = ObjInterp(src, fuel=fuel)
    return it.folder


def new_interp(src, fuel=10 ** 10, check_views=False):
    """check_views: every FmtStr a rule obtains from a call is also read through its own views (.s, len(), str()); a result whose
    memoised views disagree with its runs comes back as ('incoherent', why) instead of ('ok', value)."""
    it = ObjInterp(src, fuel=fuel)
    it.check_views = check_views
    return it
