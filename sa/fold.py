"""Factory for the folder used by every rule: the object-aware folder (multi-statement package functions are inlined,
closures/generators supported), so that tables built by helper functions or comprehensions still fold."""
from .objinterp import OFolder, ObjInterp


def new_folder(src, fuel=10 ** 10):
    it = ObjInterp(src, fuel=fuel)
    return it.folder


def new_interp(src, fuel=10 ** 10):
    return ObjInterp(src, fuel=fuel)
