"""E3 - decision lists and templates: abstract interpretation in the constant-propagation domain.

`BlockEval` pushes ONE element of a finite domain (an attribute key/value, an SGR code, a config key name ...) through
a function body: `if` chains whose tests fold to constants, assignments (containers are mutated in place, as Python
does, so aliasing is modelled), loops over constant iterables (with break/continue/else), bounded `while`, try/except
with an exception-class lattice, nested function definitions (closures), generators (yield collects), and
return/raise.  A test that does not fold is an *unknown atom*: both branches are explored (the state is deep-copied)
and the atom is recorded in the outcome's assumptions.  Anything outside this subset makes the outcome `opaque`
(fail-closed), never a guess.

No code of curtsies is executed by the Python interpreter; expressions are folded by sa.consteval.Folder (or its
object-aware subclass in sa.objinterp).
"""
import ast
import copy
import threading

from .consteval import Folder, SymStr, TOP, Unknown, _BINOPS
from .report import AnalysisError


class Outcome:
    __slots__ = ("term", "value", "env", "assumptions", "effects", "opaque")

    def __init__(self, term, value, env, assumptions, effects, opaque=None):
        self.term = term                  # 'fall' | 'return' | 'raise' | 'continue' | 'break'
        self.value = value                # folded return value / exception class name / None
        self.env = env
        self.assumptions = assumptions    # [(test_text, bool)]
        self.effects = effects            # [(kind, text)] calls that are not folded
        self.opaque = opaque              # reason when the subset was left

    def __repr__(self):
        return "<%s %r assume=%s%s>" % (self.term, self.value, self.assumptions, " OPAQUE:%s" % self.opaque if self.opaque else "")


class YieldChannel(list):
    """The list a generator body appends its yielded values to, turned into a hand-off point: the body (running in its own
    thread) stops after every yield until the consumer asks for the next value.  Only one of the two threads ever runs, so the
    evaluator's shared state needs no locking.  Used on request only (ObjInterp.lazy); ordinary evaluation collects eagerly."""

    def __init__(self):
        list.__init__(self)
        self.cv = threading.Condition()
        self.want = 0            # how many values the consumer has asked for so far
        self.done = False
        self.result = None

    def __deepcopy__(self, memo):
        return self

    def wait_until_wanted(self):
        with self.cv:
            while self.want <= len(self):
                if not self.cv.wait(timeout=120):
                    raise AnalysisError("lazy generator: the consumer never came back")

    def append(self, v):
        list.append(self, v)
        with self.cv:
            self.cv.notify_all()
        self.wait_until_wanted()

    def next(self):
        """('value', v) | ('stop', result of the call)"""
        with self.cv:
            self.want += 1
            self.cv.notify_all()
            while len(self) < self.want and not self.done:
                if not self.cv.wait(timeout=120):
                    raise AnalysisError("lazy generator: no answer from the generator body")
            if len(self) >= self.want:
                return ("value", self[self.want - 1])
            return ("stop", self.result)


_TLS = threading.local()


class FoldedRaise(Exception):
    """The modelled code raised (explicitly or implicitly) the exception class `name`."""

    def __init__(self, name, where=""):
        Exception.__init__(self, "%s raised in %s" % (name, where))
        self.name = name


class LocalFunc:
    """A function defined inside a function being interpreted (closure over the defining environment)."""

    def __init__(self, node, env):
        self.node, self.env = node, env

    def __deepcopy__(self, memo):
        return self


def _is_generator(fnode):
    stack = list(fnode.body)
    while stack:
        n = stack.pop()
        if isinstance(n, (ast.Yield, ast.YieldFrom)):
            return True
        if isinstance(n, (ast.FunctionDef, ast.AsyncFunctionDef, ast.Lambda, ast.ClassDef)):
            continue
        stack.extend(ast.iter_child_nodes(n))
    return False


class BlockEval:
    WHILE_BOUND = 20000

    def __init__(self, folder, max_states=256, atom_oracle=None, call_hook=None):
        self.folder = folder
        self.max_states = max_states
        self.atom_oracle = atom_oracle    # fn(test_node, env) -> bool | None : decide named atoms
        self.call_hook = call_hook        # legacy: fn(call_node, env) -> value | raises Unknown

    # a state is (env, assumptions, effects)
    def run(self, stmts, env):
        outs = []
        falls = self._block(stmts, [(dict(env), [], [])], outs)
        for e, a, f in falls:
            outs.append(Outcome("fall", None, e, a, f))
        return outs

    def _block(self, stmts, states, outs):
        """Run stmts from each state; finished paths go to outs; returns states that fall through."""
        cur = states
        for st in stmts:
            nxt = []
            for s in cur:
                nxt.extend(self._stmt(st, s, outs))
                if len(nxt) + len(outs) > self.max_states:
                    raise AnalysisError("decision-list evaluation explodes (> %d states)" % self.max_states)
            cur = nxt
            if not cur:
                break
        return cur

    def _fold(self, node, env):
        if self.call_hook is not None:
            return _fold_with_hook(self.folder, node, env, self.call_hook)
        return self.folder.expr(node, env)

    # ---- forking -----------------------------------------------------------------------
    def _eff(self, eff, kind, text):
        """Record a statement that could not be interpreted (its effect is unknown)."""
        log = self.__dict__.setdefault("effect_log", [])
        if len(log) < 10000:
            log.append((kind, text))
        return eff + [(kind, text)]

    def _fork(self, state):
        env, assume, eff = state
        self.forks = getattr(self, "forks", 0) + 1
        memo = {}
        modconst = getattr(self.folder, "mods", {})
        shared = set()
        for m in modconst.values():
            for v in m.values():
                shared.add(id(v))
        new = {}
        for k, v in env.items():
            if id(v) in shared or isinstance(v, (str, bytes, int, float, bool, type(None), tuple)) and not isinstance(v, tuple):
                new[k] = v
            else:
                try:
                    new[k] = copy.deepcopy(v, memo)
                except Exception:
                    new[k] = v
        return (new, list(assume), list(eff))

    def _test(self, test, state):
        """[(bool, state')] for the possible values of a test in a state."""
        env, assume, eff = state
        if self.atom_oracle is not None:
            r = self.atom_oracle(test, env)
            if r is not None:
                return [(bool(r), state)]
        # short-circuit aware folding of and/or/not so that a known-false left operand hides an unknown right one
        if isinstance(test, ast.BoolOp):
            is_and = isinstance(test.op, ast.And)
            results = []
            pending = [(state, 0)]
            while pending:
                st, i = pending.pop()
                if i == len(test.values):
                    results.append((is_and, st))
                    continue
                for val, st2 in self._test(test.values[i], st):
                    if val != is_and:
                        results.append((val, st2))
                    else:
                        pending.append((st2, i + 1))
            return results
        if isinstance(test, ast.UnaryOp) and isinstance(test.op, ast.Not):
            return [(not v, s) for v, s in self._test(test.operand, state)]
        try:
            v = self._fold(test, env)
            return [(self.folder.v_truth(v), state)]
        except Unknown:
            pass
        txt = ast.unparse(test)
        for t, v in assume:
            if t == txt:
                return [(v, state)]
        other = self._fork(state)
        return [(True, (env, assume + [(txt, True)], eff)), (False, (other[0], other[1] + [(txt, False)], other[2]))]

    # ---- statements ----------------------------------------------------------------------
    def _raise_out(self, outs, e, state, what):
        env, assume, eff = state
        outs.append(Outcome("raise", getattr(e, "name", type(e).__name__), env, assume, eff + [("implicit-raise", what)]))

    def _stmt(self, st, state, outs):
        env, assume, eff = state
        try:
            return self._stmt_inner(st, state, outs)
        except (Unknown,) as e:
            outs.append(Outcome("fall", None, env, assume, eff, "%s: %s" % (type(st).__name__, e)))
            return []
        except AnalysisError:
            raise
        except RecursionError:
            raise AnalysisError("recursion limit while evaluating %s" % ast.unparse(st)[:80])
        except FoldedRaise as e:
            self._raise_out(outs, e, state, ast.unparse(st)[:80])
            return []

    def _stmt_inner(self, st, state, outs):
        env, assume, eff = state
        if isinstance(st, ast.If):
            res = []
            try:
                branches = self._test(st.test, state)
            except (Unknown, AnalysisError, FoldedRaise):
                raise
            except Exception as e:
                self._raise_out(outs, e, state, ast.unparse(st.test))
                return []
            for val, s2 in branches:
                res.extend(self._block(st.body if val else st.orelse, [s2], outs))
            return res
        if isinstance(st, ast.Return):
            val = None
            opaque = None
            if st.value is not None:
                try:
                    val = self._fold(st.value, env)
                except Unknown as e:
                    val, opaque = TOP, "return value `%s`: %s" % (ast.unparse(st.value)[:60], e)
                except (AnalysisError, FoldedRaise):
                    raise
                except Exception as e:
                    self._raise_out(outs, e, state, ast.unparse(st.value))
                    return []
            outs.append(Outcome("return", val, env, assume, eff, opaque))
            return []
        if isinstance(st, ast.Raise):
            name = None
            if st.exc is not None:
                e = st.exc.func if isinstance(st.exc, ast.Call) else st.exc
                name = ast.unparse(e)
                if isinstance(st.exc, ast.Name) and st.exc.id in env and isinstance(env[st.exc.id], str):
                    name = env[st.exc.id]
                elif not (isinstance(e, ast.Name) and e.id in __import__("builtins").__dict__ and e.id not in env):
                    # `raise helper(...)` / `raise exc_object`: what is raised is the VALUE of the expression
                    try:
                        v = self._fold(st.exc, env)
                        if isinstance(v, BaseException):
                            name = type(v).__name__
                        elif isinstance(v, type) and issubclass(v, BaseException):
                            name = v.__name__
                        elif isinstance(v, str) and v:
                            name = v
                        elif hasattr(v, "cls") and hasattr(v, "fields"):
                            name = v.cls
                    except Exception:
                        pass
                if isinstance(st.exc, ast.Call) and isinstance(e, ast.Name) and e.id in __import__("builtins").__dict__ and e.id not in env:
                    # `raise ValueError(<message expression>)`: building the message is evaluated too - when THAT raises (a format
                    # string choking on the data, a missing key) the other exception is what leaves the function
                    for a in list(st.exc.args) + [k.value for k in st.exc.keywords]:
                        try:
                            self._fold(a, env)
                        except FoldedRaise as fr:
                            name = fr.name
                            break
                        except Exception:
                            pass
            else:
                name = env.get("__exc__")
            outs.append(Outcome("raise", name, env, assume, eff))
            return []
        if isinstance(st, ast.Continue):
            outs.append(Outcome("continue", None, env, assume, eff))
            return []
        if isinstance(st, ast.Break):
            outs.append(Outcome("break", None, env, assume, eff))
            return []
        if isinstance(st, ast.Pass) or (isinstance(st, ast.Expr) and isinstance(st.value, ast.Constant)):
            return [state]
        if isinstance(st, ast.Assert):
            if isinstance(st.test, ast.Constant) and not st.test.value:
                outs.append(Outcome("raise", "AssertionError", env, assume, eff))
                return []
            res = []
            for val, s2 in self._test(st.test, state):
                if val:
                    res.append(s2)
                else:
                    outs.append(Outcome("raise", "AssertionError", s2[0], s2[1], s2[2]))
            return res
        if isinstance(st, (ast.Assign, ast.AnnAssign)):
            if getattr(st, "value", None) is None:
                return [state]
            try:
                v = self._fold(st.value, env)
            except Unknown:
                v = TOP
            except (AnalysisError, FoldedRaise):
                raise
            except Exception as e:
                self._raise_out(outs, e, state, ast.unparse(st.value))
                return []
            targets = st.targets if isinstance(st, ast.Assign) else [st.target]
            for t in targets:
                try:
                    self.folder.assign(t, v, env)
                except Unknown as e:
                    for n in ast.walk(t):
                        if isinstance(n, ast.Name):
                            env[n.id] = TOP
                    eff = self._eff(eff, "opaque-store", ast.unparse(st)[:80])
                except (AnalysisError, FoldedRaise):
                    raise
                except Exception as e:
                    self._raise_out(outs, e, state, ast.unparse(st)[:80])
                    return []
            return [(env, assume, eff)]
        if isinstance(st, ast.AugAssign):
            load = _as_load(st.target)
            try:
                cur = self._fold(load, env)
                rhs = self._fold(st.value, env)
                if isinstance(cur, list) and isinstance(st.op, ast.Add):
                    cur.extend(self.folder.v_iter(rhs))         # in place, like list.__iadd__
                    return [state]
                if isinstance(cur, list) and isinstance(st.op, ast.Mult):
                    cur[:] = cur * rhs
                    return [state]
                if isinstance(cur, (dict, set)) and isinstance(st.op, ast.BitOr):
                    cur.update(rhs)
                    return [state]
                new = self.folder.v_iop(st.op, cur, rhs) if hasattr(self.folder, "v_iop") else self.folder.v_binop(st.op, cur, rhs)
                self.folder.assign(st.target, new, env)
            except Unknown:
                for n in ast.walk(st.target):
                    if isinstance(n, ast.Name):
                        env[n.id] = TOP
                eff = self._eff(eff, "opaque-store", ast.unparse(st)[:80])
            except (AnalysisError, FoldedRaise):
                raise
            except Exception as e:
                self._raise_out(outs, e, state, ast.unparse(st)[:80])
                return []
            return [(env, assume, eff)]
        if isinstance(st, ast.Delete):
            for t in st.targets:
                try:
                    if isinstance(t, ast.Subscript):
                        base = self._fold(t.value, env)
                        idx = self.folder._index(t, env) if hasattr(self.folder, "_index") else self._fold(t.slice, env)
                        if isinstance(base, (dict, list)):
                            del base[idx]
                            continue
                        if hasattr(self.folder, "del_item"):
                            self.folder.del_item(base, idx)
                            continue
                    elif isinstance(t, ast.Name):
                        env.pop(t.id, None)
                        continue
                    raise Unknown("delete target")
                except Unknown:
                    for n in ast.walk(t):
                        if isinstance(n, ast.Name):
                            env[n.id] = TOP
                except (AnalysisError, FoldedRaise):
                    raise
                except Exception as e:
                    self._raise_out(outs, e, state, ast.unparse(st)[:80])
                    return []
            return [state]
        if isinstance(st, ast.Expr) and isinstance(st.value, (ast.Yield, ast.YieldFrom)):
            y = st.value
            try:
                v = self._fold(y.value, env) if y.value is not None else None
            except Unknown:
                v = TOP
            acc = env.setdefault("__yield__", [])
            if isinstance(y, ast.YieldFrom):
                acc.extend(self.folder.v_iter(v))
            else:
                acc.append(v)
            return [state]
        if isinstance(st, ast.Expr):
            try:
                self._fold(st.value, env)
                return [state]
            except Unknown:
                return [(env, assume, self._eff(eff, "call", ast.unparse(st.value)[:100]))]
            except (AnalysisError, FoldedRaise):
                raise
            except Exception as e:
                self._raise_out(outs, e, state, ast.unparse(st.value)[:80])
                return []
        if isinstance(st, ast.For):
            try:
                it = self.folder.v_iter(self._fold(st.iter, env))
            except Unknown as e:
                outs.append(Outcome("fall", None, env, assume, eff, "loop over a non-constant iterable `%s`: %s" % (ast.unparse(st.iter)[:60], e)))
                return []
            cur = [state]
            broke = []
            for x in it:
                nxt = []
                for s in cur:
                    try:
                        self.folder.assign(st.target, x, s[0])
                    except Unknown:
                        raise AnalysisError("loop target")
                    inner_outs = []
                    fall = self._block(st.body, [s], inner_outs)
                    for o in inner_outs:
                        if o.term == "continue":
                            fall.append((o.env, o.assumptions, o.effects))
                        elif o.term == "break":
                            broke.append((o.env, o.assumptions, o.effects))
                        else:
                            outs.append(o)
                    nxt.extend(fall)
                cur = nxt
                if not cur:
                    break
            if st.orelse and cur:
                cur = self._block(st.orelse, cur, outs)
            return cur + broke
        if isinstance(st, ast.While):
            cur = [state]
            done = []
            n = 0
            while cur:
                n += 1
                if n > self.WHILE_BOUND:
                    raise AnalysisError("while loop exceeds %d iterations in the evaluator" % self.WHILE_BOUND)
                nxt = []
                for s in cur:
                    br = self._test(st.test, s)
                    if len(br) > 1:
                        outs.append(Outcome("fall", None, s[0], s[1], s[2], "while condition `%s` is not decidable" % ast.unparse(st.test)[:60]))
                        continue
                    val, s2 = br[0]
                    if not val:
                        done.extend(self._block(st.orelse, [s2], outs) if st.orelse else [s2])
                        continue
                    inner_outs = []
                    fall = self._block(st.body, [s2], inner_outs)
                    for o in inner_outs:
                        if o.term == "continue":
                            fall.append((o.env, o.assumptions, o.effects))
                        elif o.term == "break":
                            done.append((o.env, o.assumptions, o.effects))
                        else:
                            outs.append(o)
                    nxt.extend(fall)
                cur = nxt
            return done
        if isinstance(st, ast.With):
            keys = []
            for item in st.items:
                try:
                    cm = self._fold(item.context_expr, env)
                    entered = self.folder.enter_context(cm) if hasattr(self.folder, "enter_context") else TOP
                    if hasattr(self.folder, "exit_context"):
                        key = "__cm_%d_%d" % (id(st), len(keys))
                        env[key] = cm
                        keys.append(key)
                except Unknown:
                    entered = TOP
                    eff = self._eff(eff, "with", ast.unparse(item.context_expr)[:80])
                if item.optional_vars is not None:
                    try:
                        self.folder.assign(item.optional_vars, entered, env)
                    except Unknown:
                        pass
            if not keys:
                return self._block(st.body, [(env, assume, eff)], outs)
            inner = []
            fall = self._block(st.body, [(env, assume, eff)], inner)
            res = []
            for e2, a2, f2 in fall:
                try:
                    for key in reversed(keys):
                        self.folder.exit_context(e2.pop(key))
                    res.append((e2, a2, f2))
                except FoldedRaise as ex:
                    outs.append(Outcome("raise", ex.name, e2, a2, f2))
                except Unknown as ex:
                    outs.append(Outcome("raise", None, e2, a2, f2, opaque="context exit: %s" % ex))
            for o in inner:
                try:
                    for key in reversed(keys):
                        if key in o.env:
                            self.folder.exit_context(o.env.pop(key), o.value if o.term == "raise" else None)
                    outs.append(o)
                except FoldedRaise as ex:
                    outs.append(Outcome("raise", ex.name, o.env, o.assumptions, o.effects))
                except Unknown as ex:
                    outs.append(Outcome("raise", None, o.env, o.assumptions, o.effects, opaque="context exit: %s" % ex))
            return res
        if isinstance(st, ast.Try):
            inner = []
            fall = self._block(st.body, [state], inner)
            res = self._block(st.orelse, fall, inner) if st.orelse else list(fall)
            pending = []
            for o in inner:
                if o.term == "raise":
                    h = _matching_handler(st.handlers, o.value)
                    if h is not None:
                        henv = o.env
                        henv["__exc__"] = o.value
                        if h.name:
                            henv[h.name] = o.value
                        hout = []
                        res.extend(self._block(h.body, [(henv, o.assumptions, o.effects)], hout))
                        pending.extend(hout)
                        continue
                pending.append(o)
            if st.finalbody:
                res = self._block(st.finalbody, res, outs)
                for o in pending:
                    fo = []
                    ff = self._block(st.finalbody, [(o.env, o.assumptions, o.effects)], fo)
                    outs.extend(fo)
                    if ff:
                        outs.append(o)
            else:
                outs.extend(pending)
            return res
        if isinstance(st, (ast.FunctionDef,)):
            env[st.name] = LocalFunc(st, env)
            return [state]
        if isinstance(st, (ast.Import, ast.ImportFrom)):
            from .consteval import Opaque, _COPY, _shallow_copy
            for a in st.names:
                nm = (a.asname or a.name).split(".")[0]
                if isinstance(st, ast.Import) and a.name == "copy":
                    env[nm] = _COPY
                elif isinstance(st, ast.ImportFrom) and st.module == "copy" and a.name == "copy" and not st.level:
                    env[nm] = _shallow_copy
                elif nm not in env:
                    env[nm] = Opaque("module %s" % a.name)
            return [state]
        if isinstance(st, (ast.ClassDef, ast.Global, ast.Nonlocal)):
            return [state]
        outs.append(Outcome("fall", None, env, assume, eff, "statement %s outside the decision-list subset" % type(st).__name__))
        return []

    def run_function(self, fnode, env):
        gen = _is_generator(fnode)
        if gen:
            ch = getattr(_TLS, "channel", None)
            if ch is not None:
                # the generator requested through ObjInterp.lazy: nothing of its body runs before the first next()
                _TLS.channel = None
                env["__yield__"] = ch
                ch.wait_until_wanted()
            else:
                env["__yield__"] = []
        outs = []
        falls = self._block(list(fnode.body), [(env, [], [])], outs)
        for env2, assume, eff in falls:
            outs.append(Outcome("return", None, env2, assume, eff))
        if gen:
            for o in outs:
                if o.term == "return":
                    o.value = list(o.env.get("__yield__", []))
        return outs


_EXC_PARENTS = {
    "UnicodeDecodeError": ("UnicodeError", "ValueError", "Exception", "BaseException"),
    "UnicodeEncodeError": ("UnicodeError", "ValueError", "Exception", "BaseException"),
    "KeyError": ("LookupError", "Exception", "BaseException"),
    "IndexError": ("LookupError", "Exception", "BaseException"),
    "ValueError": ("Exception", "BaseException"),
    "TypeError": ("Exception", "BaseException"),
    "AttributeError": ("Exception", "BaseException"),
    "AssertionError": ("Exception", "BaseException"),
    "NotImplementedError": ("RuntimeError", "Exception", "BaseException"),
    "ZeroDivisionError": ("ArithmeticError", "Exception", "BaseException"),
    "OSError": ("Exception", "BaseException"),
    "StopIteration": ("Exception", "BaseException"),
    "BlockingIOError": ("OSError", "Exception", "BaseException"),
    "InterruptedError": ("OSError", "Exception", "BaseException"),
}


def exception_matches(handler_type, raised):
    if handler_type is None:
        return True
    if isinstance(handler_type, ast.Tuple):
        names = [ast.unparse(e) for e in handler_type.elts]
    else:
        names = [ast.unparse(handler_type)]
    if raised is None:
        return False
    raised = str(raised).split(".")[-1]
    for n in names:
        n = n.split(".")[-1]
        if n == raised or n in _EXC_PARENTS.get(raised, ("Exception", "BaseException")):
            return True
    return False


def _matching_handler(handlers, raised):
    for h in handlers:
        if exception_matches(h.type, raised):
            return h
    return None


def _default_value(folder, node, env):
    """A default is evaluated ONCE, when the def statement runs: a mutable default ([] / {}) is one object shared by every call."""
    if isinstance(node, ast.Constant):
        return node.value
    cache = folder.__dict__.setdefault("_default_values", {})
    if id(node) not in cache:
        cache[id(node)] = (node, folder.expr(node, env))
    return cache[id(node)][1]


def bind_arguments(folder, fnode, args, kw, env):
    ps = fnode.args
    names = [p.arg for p in ps.posonlyargs + ps.args]
    defaults = dict(zip(names[::-1], ps.defaults[::-1]))
    kw = dict(kw)
    for i, nm in enumerate(names):
        if i < len(args):
            if nm in kw:
                raise FoldedRaise("TypeError", "multiple values for argument %s" % nm)
            env[nm] = args[i]
        elif nm in kw:
            env[nm] = kw.pop(nm)
        elif nm in defaults:
            env[nm] = _default_value(folder, defaults[nm], env)
        else:
            raise FoldedRaise("TypeError", "missing argument %s" % nm)
    rest = args[len(names):]
    if ps.vararg:
        env[ps.vararg.arg] = tuple(rest)
    elif rest:
        raise FoldedRaise("TypeError", "too many positional arguments")
    for p, d in zip(ps.kwonlyargs, ps.kw_defaults):
        if p.arg in kw:
            env[p.arg] = kw.pop(p.arg)
        elif d is not None:
            env[p.arg] = _default_value(folder, d, env)
        else:
            raise FoldedRaise("TypeError", "missing keyword-only argument")
    if ps.kwarg:
        env[ps.kwarg.arg] = dict(kw)
    elif kw:
        raise FoldedRaise("TypeError", "unexpected keyword %s" % sorted(kw))


def _fold_with_hook(folder, node, env, hook):
    """Fold an expression letting `hook` decide calls the folder cannot (legacy interface)."""
    orig = folder.expr

    def expr(n, e):
        if isinstance(n, ast.Call):
            try:
                return hook(n, e)
            except Unknown:
                pass
        return orig(n, e)
    if getattr(folder, "_hooked", None) is hook:
        return folder.expr(node, env)
    folder.expr = expr
    folder._hooked = hook
    try:
        return expr(node, env)
    finally:
        folder.expr = orig
        folder._hooked = None


def _as_load(t):
    t2 = copy.deepcopy(t)
    for n in ast.walk(t2):
        if hasattr(n, "ctx"):
            n.ctx = ast.Load()
    return t2
