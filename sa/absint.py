"""E3 - decision lists and templates: abstract interpretation in the constant-propagation domain.

`BlockEval` pushes ONE element of a finite domain (an attribute key/value, an SGR code, a config key name, a
valuation of named atoms) through a function body that is a decision list over compile-time tables: `if` chains whose
tests fold to constants, assignments of foldable values to locals, appends/updates of local containers, and
return/raise/continue/break.  A test that does not fold is an *unknown atom*: both branches are explored and the
atom is recorded in the outcome's assumptions, so the caller can report "the decision depends on something other than
the table entry".  Anything outside this subset makes the outcome `opaque` (fail-closed), never a guess.

No code of curtsies is executed by the Python interpreter; expressions are folded by sa.consteval.Folder.
"""
import ast

from .consteval import Folder, SymStr, TOP, Unknown
from .report import AnalysisError


_COW_CACHE = {}


class Outcome:
    __slots__ = ("term", "value", "env", "assumptions", "effects", "opaque")

    def __init__(self, term, value, env, assumptions, effects, opaque=None):
        self.term = term                  # 'fall' | 'return' | 'raise' | 'continue' | 'break'
        self.value = value                # folded return value / exception class name / None
        self.env = env
        self.assumptions = assumptions    # [(test_text, bool)]
        self.effects = effects            # [(kind, text)] calls that are not folded
        self.opaque = opaque              # reason when the subset was left

    def __repr__(self):
        return "<%s %r assume=%s%s>" % (self.term, self.value, self.assumptions, " OPAQUE:%s" % self.opaque if self.opaque else "")


class BlockEval:
    def __init__(self, folder, max_states=256, atom_oracle=None, call_hook=None):
        self.folder = folder
        self.max_states = max_states
        self.atom_oracle = atom_oracle    # fn(test_node, env) -> bool | None : decide named atoms
        self.call_hook = call_hook        # fn(call_node, env) -> value | raises Unknown

    # a state is (env, assumptions, effects)
    def run(self, stmts, env):
        outs = []
        self._block(stmts, [(dict(env), [], [])], outs)
        return outs

    def _block(self, stmts, states, outs):
        """Run stmts from each state; finished paths go to outs; returns states that fall through."""
        cur = states
        for st in stmts:
            nxt = []
            for s in cur:
                nxt.extend(self._stmt(st, s, outs))
                if len(nxt) + len(outs) > self.max_states:
                    raise AnalysisError("decision-list evaluation explodes (> %d states)" % self.max_states)
            cur = nxt
            if not cur:
                break
        return cur

    def _fold(self, node, env):
        if self.call_hook is not None:
            return _fold_with_hook(self.folder, node, env, self.call_hook)
        return self.folder.expr(node, env)

    def _test(self, test, state):
        """[(bool, state')] for the possible values of a test in a state."""
        env, assume, eff = state
        if self.atom_oracle is not None:
            r = self.atom_oracle(test, env)
            if r is not None:
                return [(bool(r), state)]
        # short-circuit aware folding of and/or/not so that a known-false left operand hides an unknown right one
        if isinstance(test, ast.BoolOp):
            is_and = isinstance(test.op, ast.And)
            results = []
            pending = [(state, 0)]
            while pending:
                st, i = pending.pop()
                if i == len(test.values):
                    results.append((is_and, st))
                    continue
                for val, st2 in self._test(test.values[i], st):
                    if val != is_and:
                        results.append((val, st2))
                    else:
                        pending.append((st2, i + 1))
            return results
        if isinstance(test, ast.UnaryOp) and isinstance(test.op, ast.Not):
            return [(not v, s) for v, s in self._test(test.operand, state)]
        try:
            v = self._fold(test, env)
            if isinstance(v, SymStr) or v is TOP:
                raise Unknown("truth value of symbolic text")
            return [(bool(v), state)]
        except Unknown:
            pass
        txt = ast.unparse(test)
        for t, v in assume:
            if t == txt:
                return [(v, state)]
        return [(True, (env, assume + [(txt, True)], eff)), (False, (env, assume + [(txt, False)], eff))]

    @staticmethod
    def _cow(st, env):
        """Copy-on-write: containers bound to names that this statement may mutate in place are copied first, so that
        sibling states and memoised inputs never share a mutated object."""
        from .consteval import MUTATORS
        names = _COW_CACHE.get(id(st))
        if names is None:
            names = _COW_CACHE[id(st)] = BlockEval._cow_names(st, MUTATORS)
        if not names:
            return env
        env = dict(env)
        for nm in names:
            v = env.get(nm)
            if isinstance(v, list):
                env[nm] = list(v)
            elif isinstance(v, dict):
                env[nm] = dict(v)
            elif isinstance(v, set):
                env[nm] = set(v)
        return env

    @staticmethod
    def _cow_names(st, MUTATORS):
        names = set()
        for n in ast.walk(st):
            if isinstance(n, ast.Call) and isinstance(n.func, ast.Attribute) and n.func.attr in MUTATORS and \
                    isinstance(n.func.value, ast.Name):
                names.add(n.func.value.id)
            if isinstance(n, ast.Subscript) and isinstance(n.ctx, (ast.Store, ast.Del)) and isinstance(n.value, ast.Name):
                names.add(n.value.id)
            if isinstance(n, ast.AugAssign) and isinstance(n.target, ast.Name):
                names.add(n.target.id)
        return frozenset(names)

    def _stmt(self, st, state, outs):
        env, assume, eff = state
        if not isinstance(st, (ast.If, ast.For, ast.While, ast.Try, ast.With)):
            env = self._cow(st, env)
            state = (env, assume, eff)
        if isinstance(st, ast.If):
            res = []
            try:
                branches = self._test(st.test, state)
            except AnalysisError:
                raise
            except Exception as e:
                outs.append(Outcome("raise", getattr(e, "name", type(e).__name__), env, assume,
                                    eff + [("implicit-raise", ast.unparse(st.test))]))
                return []
            for val, s2 in branches:
                res.extend(self._block(st.body if val else st.orelse, [(dict(s2[0]), list(s2[1]), list(s2[2]))], outs))
            return res
        if isinstance(st, ast.Return):
            val = None
            opaque = None
            if st.value is not None:
                try:
                    val = self._fold(st.value, env)
                except Unknown as e:
                    val, opaque = TOP, "return value `%s`: %s" % (ast.unparse(st.value)[:60], e)
                except AnalysisError:
                    raise
                except Exception as e:
                    outs.append(Outcome("raise", getattr(e, 'name', type(e).__name__), env, assume, eff + [("implicit-raise", ast.unparse(st.value))]))
                    return []
            outs.append(Outcome("return", val, env, assume, eff, opaque))
            return []
        if isinstance(st, ast.Raise):
            name = None
            if st.exc is not None:
                e = st.exc.func if isinstance(st.exc, ast.Call) else st.exc
                name = ast.unparse(e)
            outs.append(Outcome("raise", name, env, assume, eff))
            return []
        if isinstance(st, ast.Continue):
            outs.append(Outcome("continue", None, env, assume, eff))
            return []
        if isinstance(st, ast.Break):
            outs.append(Outcome("break", None, env, assume, eff))
            return []
        if isinstance(st, ast.Pass) or (isinstance(st, ast.Expr) and isinstance(st.value, ast.Constant)):
            return [state]
        if isinstance(st, ast.Assert):
            if isinstance(st.test, ast.Constant) and not st.test.value:
                outs.append(Outcome("raise", "AssertionError", env, assume, eff))
                return []
            res = []
            for val, s2 in self._test(st.test, state):
                if val:
                    res.append(s2)
                else:
                    outs.append(Outcome("raise", "AssertionError", s2[0], s2[1], s2[2]))
            return res
        if isinstance(st, (ast.Assign, ast.AnnAssign)):
            if getattr(st, "value", None) is None:
                return [state]
            try:
                v = self._fold(st.value, env)
            except Unknown:
                v = TOP
            except AnalysisError:
                raise
            except Exception as e:
                outs.append(Outcome("raise", getattr(e, 'name', type(e).__name__), env, assume, eff + [("implicit-raise", ast.unparse(st.value))]))
                return []
            targets = st.targets if isinstance(st, ast.Assign) else [st.target]
            env = dict(env)
            for t in targets:
                try:
                    if isinstance(t, ast.Subscript):
                        # store into a local container: copy-on-write so sibling states are not affected
                        if isinstance(t.value, ast.Name) and t.value.id in env and isinstance(env[t.value.id], (dict, list)):
                            c = env[t.value.id]
                            c = dict(c) if isinstance(c, dict) else list(c)
                            if v is TOP:
                                raise Unknown("store of unknown value")
                            c[self._fold(t.slice, env)] = v
                            env[t.value.id] = c
                        else:
                            raise Unknown("subscript store")
                    else:
                        self.folder.assign(t, v, env)
                except Unknown as e:
                    for n in ast.walk(t):
                        if isinstance(n, ast.Name):
                            env[n.id] = TOP
                    eff = eff + [("opaque-store", ast.unparse(st)[:80])]
            return [(env, assume, eff)]
        if isinstance(st, ast.AugAssign) and isinstance(st.target, ast.Name):
            env = dict(env)
            try:
                cur = self._fold(ast.Name(id=st.target.id, ctx=ast.Load()), env)
                rhs = self._fold(st.value, env)
                from .consteval import _BINOPS
                env[st.target.id] = _BINOPS[type(st.op)](cur, rhs)
            except Unknown:
                env[st.target.id] = TOP
            except Exception:
                env[st.target.id] = TOP
            return [(env, assume, eff)]
        if isinstance(st, ast.Delete):
            env = dict(env)
            for t in st.targets:
                if isinstance(t, ast.Subscript) and isinstance(t.value, ast.Name) and isinstance(env.get(t.value.id), dict):
                    try:
                        c = dict(env[t.value.id])
                        del c[self._fold(t.slice, env)]
                        env[t.value.id] = c
                        continue
                    except Exception:
                        pass
                for n in ast.walk(t):
                    if isinstance(n, ast.Name):
                        env[n.id] = TOP
            return [(env, assume, eff)]
        if isinstance(st, ast.Expr) and isinstance(st.value, ast.Call):
            c = st.value
            # mutation of a local container with foldable arguments
            from .consteval import MUTATORS as _MUT
            if isinstance(c.func, ast.Attribute) and isinstance(c.func.value, ast.Name) and c.func.value.id in env and \
                    isinstance(env[c.func.value.id], (list, dict, set)) and c.func.attr in _MUT:
                env = dict(env)
                cont = env[c.func.value.id]
                cont = list(cont) if isinstance(cont, list) else dict(cont) if isinstance(cont, dict) else set(cont)
                try:
                    args = [self._fold(a, env) for a in c.args]
                    kw = {k.arg: self._fold(k.value, env) for k in c.keywords if k.arg}
                    getattr(cont, c.func.attr)(*args, **kw)
                    env[c.func.value.id] = cont
                except Unknown:
                    env[c.func.value.id] = TOP
                    eff = eff + [("opaque-mutation", ast.unparse(c)[:80])]
                except AnalysisError:
                    raise
                except Exception as e:
                    outs.append(Outcome("raise", getattr(e, "name", type(e).__name__), env, assume,
                                        eff + [("implicit-raise", ast.unparse(c))]))
                    return []
                return [(env, assume, eff)]
            try:
                self._fold(c, env)
                return [state]
            except Unknown:
                return [(env, assume, eff + [("call", ast.unparse(c)[:100])])]
            except AnalysisError:
                raise
            except Exception as e:
                outs.append(Outcome("raise", getattr(e, 'name', type(e).__name__), env, assume, eff + [("implicit-raise", ast.unparse(c))]))
                return []
        if isinstance(st, (ast.For,)):
            try:
                it = list(self._fold(st.iter, env))
            except Exception:
                outs.append(Outcome("fall", None, env, assume, eff, "loop over a non-constant iterable `%s`" % ast.unparse(st.iter)[:60]))
                return []
            cur = [state]
            for x in it:
                nxt = []
                for s in cur:
                    e2 = dict(s[0])
                    try:
                        self.folder.assign(st.target, x, e2)
                    except Unknown:
                        raise AnalysisError("loop target")
                    inner_outs = []
                    fall = self._block(st.body, [(e2, list(s[1]), list(s[2]))], inner_outs)
                    for o in inner_outs:
                        if o.term == "continue":
                            fall.append((o.env, o.assumptions, o.effects))
                        elif o.term == "break":
                            outs.append(Outcome("fall", None, o.env, o.assumptions, o.effects, "break inside folded loop"))
                        else:
                            outs.append(o)
                    nxt.extend(fall)
                cur = nxt
            return cur
        if isinstance(st, ast.Try):
            # explicit handlers only matter for raises produced inside the body
            inner = []
            fall = self._block(st.body, [state], inner)
            res = list(fall)
            for o in inner:
                if o.term == "raise":
                    h = _matching_handler(st.handlers, o.value)
                    if h is not None:
                        res.extend(self._block(h.body, [(o.env, o.assumptions, o.effects)], outs))
                        continue
                outs.append(o)
            if st.orelse:
                res = self._block(st.orelse, res, outs)
            if st.finalbody:
                res = self._block(st.finalbody, res, outs)
            return res
        if isinstance(st, (ast.FunctionDef, ast.ClassDef, ast.Import, ast.ImportFrom, ast.Global, ast.Nonlocal)):
            return [state]
        outs.append(Outcome("fall", None, env, assume, eff, "statement %s outside the decision-list subset" % type(st).__name__))
        return []

    def finish(self, falls, outs):
        for env, assume, eff in falls:
            outs.append(Outcome("fall", None, env, assume, eff))
        return outs

    def run_function(self, fnode, env):
        body = [s for s in fnode.body]
        outs = []
        falls = self._block(body, [(dict(env), [], [])], outs)
        for env2, assume, eff in falls:
            outs.append(Outcome("return", None, env2, assume, eff))
        return outs


class FoldedRaise(Exception):
    """An inlined callee raised (explicitly or implicitly) the exception class `name`."""

    def __init__(self, name, where=""):
        Exception.__init__(self, "%s raised in %s" % (name, where))
        self.name = name


class Interp(BlockEval):
    """BlockEval that inlines calls of package functions (bounded depth) and models constructor calls of named
    classes as tagged tuples.  An inlined call must have exactly one outcome (no unknown atoms); otherwise Unknown."""

    def __init__(self, folder, classes=(), depth=4, max_states=256, extra_hook=None, atom_oracle=None):
        BlockEval.__init__(self, folder, max_states=max_states, atom_oracle=atom_oracle, call_hook=self._hook)
        self.classes = set(classes)
        self.depth = depth
        self._level = 0
        self.extra_hook = extra_hook
        self.inlined = set()

    def _hook(self, call, env):
        from .consteval import FuncRef, Opaque
        if self.extra_hook is not None:
            try:
                return self.extra_hook(call, env)
            except Unknown:
                pass
        if isinstance(call.func, ast.Name) and call.func.id == "cast" and len(call.args) == 2:
            return self.folder.expr(call.args[1], env)
        try:
            f = self.folder.expr(call.func, env)
        except Unknown:
            # Name bound to an opaque object
            f = env.get(call.func.id) if isinstance(call.func, ast.Name) else None
            if f is None:
                raise
        if isinstance(f, Opaque) and not isinstance(f, FuncRef) and f.what.startswith("ClassDef ") and \
                f.what.split()[1] in self.classes:
            args, kw = self._args(call, env)
            return ("<%s>" % f.what.split()[1],) + tuple(args) + tuple(sorted(kw.items()))
        if not isinstance(f, FuncRef) or f.simple_return() is not None:
            raise Unknown("not an inlinable function")
        if self._level >= self.depth:
            raise Unknown("inlining depth")
        args, kw = self._args(call, env)
        cenv = dict(self.folder.module(f.mod))
        bind_arguments(self.folder, f.node, args, kw, cenv)
        self._level += 1
        try:
            outs = self.run_function(f.node, cenv)
        finally:
            self._level -= 1
        self.inlined.add(f.name)
        if len(outs) != 1 or outs[0].assumptions or outs[0].opaque:
            raise Unknown("inlined call of %s has %d outcomes / unknown atoms: %s" % (f.name, len(outs), outs[:3]))
        o = outs[0]
        if o.term == "raise":
            raise FoldedRaise(o.value, f.name)
        if o.value is TOP:
            raise Unknown("inlined call returns unknown")
        return o.value

    def _args(self, call, env):
        args = []
        for a in call.args:
            if isinstance(a, ast.Starred):
                args.extend(self._fold(a.value, env))
            else:
                args.append(self._fold(a, env))
        kw = {}
        for k in call.keywords:
            if k.arg is None:
                kw.update(self._fold(k.value, env))
            else:
                kw[k.arg] = self._fold(k.value, env)
        return args, kw


def bind_arguments(folder, fnode, args, kw, env):
    ps = fnode.args
    names = [p.arg for p in ps.posonlyargs + ps.args]
    defaults = dict(zip(names[::-1], ps.defaults[::-1]))
    kw = dict(kw)
    for i, nm in enumerate(names):
        if i < len(args):
            env[nm] = args[i]
        elif nm in kw:
            env[nm] = kw.pop(nm)
        elif nm in defaults:
            env[nm] = folder.expr(defaults[nm], env)
        else:
            raise FoldedRaise("TypeError", "missing argument %s" % nm)
    rest = args[len(names):]
    if ps.vararg:
        env[ps.vararg.arg] = tuple(rest)
    elif rest:
        raise FoldedRaise("TypeError", "too many positional arguments")
    for p, d in zip(ps.kwonlyargs, ps.kw_defaults):
        if p.arg in kw:
            env[p.arg] = kw.pop(p.arg)
        elif d is not None:
            env[p.arg] = folder.expr(d, env)
        else:
            raise FoldedRaise("TypeError", "missing keyword-only argument")
    if ps.kwarg:
        env[ps.kwarg.arg] = dict(kw)
    elif kw:
        raise FoldedRaise("TypeError", "unexpected keyword %s" % sorted(kw))


_EXC_PARENTS = {
    "UnicodeDecodeError": ("UnicodeError", "ValueError", "Exception", "BaseException"),
    "UnicodeEncodeError": ("UnicodeError", "ValueError", "Exception", "BaseException"),
    "KeyError": ("LookupError", "Exception", "BaseException"),
    "IndexError": ("LookupError", "Exception", "BaseException"),
    "ValueError": ("Exception", "BaseException"),
    "TypeError": ("Exception", "BaseException"),
    "AttributeError": ("Exception", "BaseException"),
    "AssertionError": ("Exception", "BaseException"),
    "NotImplementedError": ("RuntimeError", "Exception", "BaseException"),
    "ZeroDivisionError": ("ArithmeticError", "Exception", "BaseException"),
    "OSError": ("Exception", "BaseException"),
}


def exception_matches(handler_type, raised):
    if handler_type is None:
        return True
    names = []
    if isinstance(handler_type, ast.Tuple):
        names = [ast.unparse(e) for e in handler_type.elts]
    else:
        names = [ast.unparse(handler_type)]
    if raised is None:
        return False
    raised = raised.split(".")[-1]
    for n in names:
        n = n.split(".")[-1]
        if n == raised or n in _EXC_PARENTS.get(raised, ("Exception", "BaseException")):
            return True
    return False


def _matching_handler(handlers, raised):
    for h in handlers:
        if exception_matches(h.type, raised):
            return h
    return None


def _fold_with_hook(folder, node, env, hook):
    """Fold an expression letting `hook` decide calls the folder cannot (e.g. named atoms like decodable(seq, enc))."""
    # light-weight: temporarily wrap folder.expr for Call nodes
    orig = folder.expr

    def expr(n, e):
        if isinstance(n, ast.Call):
            try:
                return hook(n, e)
            except Unknown:
                pass
        return orig(n, e)
    if getattr(folder, "_hooked", None) is hook:
        return folder.expr(node, env)     # already hooked by an enclosing fold (inlined callee)
    folder.expr = expr
    folder._hooked = hook
    try:
        return expr(node, env)
    finally:
        folder.expr = orig
        folder._hooked = None
