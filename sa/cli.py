"""Command line: ./check <ID> [--tier quick|thorough] [--repo /repo] [--replay FILE]"""
import argparse
import importlib
import json
import os
import sys
import time
import traceback

from .report import AnalysisError, Report, VERIF

CLAIMED = ["C01", "C02", "C03", "C04", "C05", "C07", "C08", "C12", "C13", "C14", "C15", "C17", "C18", "C19", "C20"]


def run(pid, tier, repo, seed=0, quiet=False):
    from .srcmodel import Source
    rep = Report(pid, tier, repo, seed)
    cmd = "./check %s --tier %s --repo %s" % (pid, tier, repo)
    try:
        mod = importlib.import_module("sa.rules.%s" % pid.lower())
        src = Source(repo)
        rep.analysed = src.stats()
        mod.check(src, rep)
        if "curtsies" in sys.modules:
            raise AnalysisError("the package under analysis was imported; this check must stay static")
        return rep.finish(cmd), rep
    except AnalysisError as e:
        print("ANALYSIS-ERROR property=%s %s" % (pid, e))
        rep.note("ANALYSIS-ERROR: %s" % e)
        rep.explanation = rep.explanation or "analysis did not complete"
        try:
            rep.write_evidence(cmd, 0, 0)
        except Exception:
            pass
        return 2, rep
    except Exception:
        print("ANALYSIS-ERROR property=%s internal error in the checker:" % pid)
        traceback.print_exc(file=sys.stdout)
        return 2, rep


def main(argv=None):
    ap = argparse.ArgumentParser()
    ap.add_argument("pid")
    ap.add_argument("--tier", default=os.environ.get("VERIF_TIER") or "quick", choices=["quick", "thorough"])
    ap.add_argument("--repo", default="/repo")
    ap.add_argument("--replay", default=None)
    a = ap.parse_args(argv)
    try:
        seed = int(os.environ.get("VERIF_SEED", "0"))
    except ValueError:
        seed = 0
    if a.replay:
        with open(a.replay, encoding="utf8") as f:
            rec = json.load(f)
        code, rep = run(rec["property"], rec.get("tier", a.tier), a.repo, seed)
        hit = [o for o in rep.obligations if not o.ok and o.key == rec["key"]]
        print("REPLAY %s: finding %s" % (a.replay, "REPRODUCED" if hit else "not present on this tree"))
        return 1 if hit else 0
    code, _ = run(a.pid.upper(), a.tier, a.repo, seed)
    return code


if __name__ == "__main__":
    sys.exit(main())
