"""C12 - leaving any curtsies context restores terminal, tty and signal state.

Save / change / restore discipline on every path of every __enter__/__exit__, package wide
(DESIGN.md section 3, C12: rules M1..M10).
"""
import ast
import os

from ..cfg import CFG, G, conjuncts, enumerate_paths
from ..report import AnalysisError, VERIF
from ..srcmodel import Source, is_self_attr, local_aliases, unparse

EXPLANATION = (
    "Typestate/pairing analysis of every context-manager class of the package: each state change found in "
    "__enter__ (tty attributes, file status flags, SIGINT handler, signal wake-up fd, pipe descriptors, cursor "
    "visibility, delegated contexts) generates the obligation to find, on every path of the matching __exit__ "
    "whose branch conditions are consistent with the guard of the change, a restore of the same resource with the "
    "value saved before the change (M1 save dominates change, M2 restore on all relevant paths, M3 restored value "
    "is the saved attribute, written only in __enter__, same stream); guard attributes are only written in __init__ "
    "(M4); the raw state-changing primitives are called nowhere else in the package (M5); state-changing context "
    "managers are only used through `with` or paired delegation (M6); no yield inside such a `with` (M7); nothing "
    "touches screen content outside the alternate screen in FullscreenWindow.__enter__/__exit__ (M8); __exit__ "
    "accepts the exception triple and never branches on it (M9); a cursor hidden inside a render is shown again "
    "under the same guard on every normal path (M10)."
)
NOT_DECIDED = ("that the OS / blessed calls have the effect their names say; exceptions raised inside __enter__/__exit__ "
               "themselves; other threads; process-wide descriptor numbers.")

# canonical name -> (kind, role)
TTY_SET = {"tty.setcbreak", "tty.setraw"}


class Effect:
    def __init__(self, kind, role, res, value, saved_to, node, guard, func, extra=None):
        self.kind, self.role, self.res, self.value, self.saved_to = kind, role, res, value, saved_to
        self.node, self.guard, self.func, self.extra = node, guard, func, extra

    def __repr__(self):
        return "%s/%s(%s,%s->%s)" % (self.kind, self.role, self.res, self.value, self.saved_to)


def _assigned_to(func, call):
    """Text(s) of the assignment target(s) when `call` is the whole right-hand side of an assignment."""
    p = func.module.parent.get(call)
    if isinstance(p, ast.Assign) and p.value is call and len(p.targets) == 1:
        t = p.targets[0]
        if isinstance(t, (ast.Tuple, ast.List)):
            return [unparse(x) for x in t.elts]
        return [unparse(t)]
    if isinstance(p, ast.AnnAssign) and p.value is call:
        return [unparse(p.target)]
    return None


def classify_call(src, func, call, aliases):
    """Effect (without guard) of one call expression, or None."""
    name = src.canon(call.func, func.module, aliases)
    args = [unparse(a) for a in call.args]
    cargs = [src.canon(a, func.module, aliases) or unparse(a) for a in call.args]
    saved = _assigned_to(func, call)
    s1 = saved[0] if saved and len(saved) == 1 else None
    if name == "termios.tcgetattr" and args:
        return Effect("tty", "save", args[0], None, s1, call, None, func)
    if name == "termios.tcsetattr" and len(args) >= 3:
        return Effect("tty", "set", args[0], args[2], None, call, None, func)
    if name in TTY_SET and args:
        return Effect("tty", "set", args[0], name, None, call, None, func)
    if name == "fcntl.fcntl" and len(args) >= 2 and cargs[1] == "fcntl.F_GETFL":
        return Effect("fl", "save", args[0], None, s1, call, None, func)
    if name == "fcntl.fcntl" and len(args) >= 3 and cargs[1] == "fcntl.F_SETFL":
        return Effect("fl", "set", args[0], args[2], None, call, None, func)
    if name == "os.set_blocking" and len(args) >= 2:
        return Effect("fl", "set_blocking", args[0], args[1], None, call, None, func)
    if name == "signal.signal" and len(args) >= 2:
        return Effect("sig:" + cargs[0], "set", cargs[0], args[1], s1, call, None, func)
    if name == "signal.getsignal" and args:
        return Effect("sig:" + cargs[0], "save", cargs[0], None, s1, call, None, func)
    if name == "signal.set_wakeup_fd" and args:
        return Effect("wakeup", "set", "wakeup_fd", args[0], s1, call, None, func)
    if name == "os.pipe":
        return Effect("fd", "open", None, None, None, call, None, func, extra=saved)
    if name == "os.close" and args:
        return Effect("fd", "close", args[0], None, None, call, None, func)
    if name in ("os.open", "os.dup", "os.dup2", "socket.socketpair"):
        return Effect("fd", "open", None, None, None, call, None, func, extra=saved)
    if isinstance(call.func, ast.Attribute) and call.func.attr in ("__enter__", "__exit__"):
        recv = call.func.value
        return Effect("ctx", "enter" if call.func.attr == "__enter__" else "exit", unparse(recv), None, None, call,
                      None, func)
    # cursor visibility: self.write(self.t.hide_cursor) / normal_cursor
    if isinstance(call.func, ast.Attribute) and call.func.attr == "write" and call.args:
        a = call.args[0]
        if isinstance(a, ast.Attribute) and a.attr == "hide_cursor":
            return Effect("cursor", "hide", "cursor", None, None, call, None, func)
        if isinstance(a, ast.Attribute) and a.attr == "normal_cursor":
            return Effect("cursor", "show", "cursor", None, None, call, None, func)
    return None


def effects_with_guards(src, func):
    """Effects of a function body in source order with the lexical guard (conjunct list) of each."""
    aliases = local_aliases(src, func)
    out = []

    def visit(stmts, guard):
        for st in stmts:
            if isinstance(st, ast.If):
                scan_expr(st.test, guard)
                visit(st.body, guard + conjuncts(st.test))
                neg = conjuncts(st.test)
                if len(neg) == 1:
                    visit(st.orelse, guard + [(neg[0][0], not neg[0][1])])
                else:
                    visit(st.orelse, guard + [("not (%s)" % unparse(st.test), True)])
            elif isinstance(st, (ast.For, ast.AsyncFor, ast.While)):
                scan_expr(st.iter if not isinstance(st, ast.While) else st.test, guard)
                visit(st.body, guard + [("<loop %s>" % unparse(st).split("\n")[0], True)])
                visit(st.orelse, guard)
            elif isinstance(st, (ast.With, ast.AsyncWith)):
                for i in st.items:
                    scan_expr(i.context_expr, guard)
                visit(st.body, guard)
            elif isinstance(st, ast.Try):
                visit(st.body, guard)
                visit(st.orelse, guard)
                for h in st.handlers:
                    visit(h.body, guard + [("<except %s>" % unparse(h.type), True)])
                visit(st.finalbody, guard)
            elif isinstance(st, (ast.FunctionDef, ast.AsyncFunctionDef, ast.ClassDef)):
                continue
            else:
                scan_expr(st, guard)

    def scan_expr(root, guard):
        calls = []
        stack = [root]
        while stack:
            n = stack.pop()
            if isinstance(n, (ast.Lambda, ast.FunctionDef, ast.AsyncFunctionDef, ast.ClassDef)):
                continue
            if isinstance(n, ast.Call):
                calls.append(n)
            stack.extend(ast.iter_child_nodes(n))
        calls.sort(key=lambda c: (c.lineno, c.col_offset))
        for c in calls:
            e = classify_call(src, func, c, aliases)
            if e is not None:
                e.guard = list(guard)
                out.append(e)
    visit(func.node.body, [])
    return out


def cm_classes(src):
    """[(module, ClassDef, enter Func|None, exit Func|None)] for every class that has __enter__/__exit__ via its MRO."""
    out = []
    for (m, cname), c in sorted(src.classes.items()):
        if "." in cname:
            continue
        en = src.resolve_method(m, cname, "__enter__")
        ex = src.resolve_method(m, cname, "__exit__")
        own = src.has_func(m, cname + ".__enter__") or src.has_func(m, cname + ".__exit__")
        if own and (en or ex):
            out.append((m, c, en, ex))
    return out


def _path_relevant(path, change_guard, exempt_attrs):
    """Is a path of __exit__ consistent with the guard under which the change was made in __enter__?"""
    G = set(change_guard)
    for test, val in path.conds():
        cj = conjuncts(test)
        if val:
            for (t, pol) in cj:
                if (t, not pol) in G:
                    return False
        else:
            unknown = [(t, pol) for (t, pol) in cj if (t, pol) not in G]
            if not unknown:
                return False   # every conjunct is known true under the change guard: false edge infeasible
            if all(_is_exempt(t, pol, exempt_attrs) for (t, pol) in unknown):
                return False   # only skipped when the saved value is None (nothing to restore)
    return True


def _is_exempt(text, pol, exempt_attrs):
    for a in exempt_attrs:
        if (text, pol) == G("%s is not None" % a):
            return True
    return False


def _path_effects(src, func, path, aliases):
    """Effects along one enumerated path, in order; effects inside opaque inner loops are included."""
    out = []
    for ev in path.events:
        roots = []
        if ev[0] == "stmt":
            roots = [ev[1]]
        elif ev[0] == "loop":
            roots = [ev[1]]
        elif ev[0] == "with":
            roots = [i.context_expr for i in ev[1].items]
        elif ev[0] == "cond":
            roots = [ev[1]]
        for r in roots:
            calls = []
            stack = [r]
            while stack:
                n = stack.pop()
                if isinstance(n, (ast.Lambda, ast.FunctionDef, ast.AsyncFunctionDef, ast.ClassDef)):
                    continue
                if isinstance(n, ast.Call):
                    calls.append(n)
                stack.extend(ast.iter_child_nodes(n))
            calls.sort(key=lambda c: (c.lineno, c.col_offset))
            for c in calls:
                e = classify_call(src, func, c, aliases)
                if e is not None:
                    out.append(e)
    return out


def writers_of_attr(src, module, clsname, attr):
    """Functions (qualnames) of the class hierarchy that store to self.<attr>; plus any foreign `x.attr = ` store."""
    out = []
    for f in src.all_funcs():
        for n in f.own_nodes():
            tg = []
            if isinstance(n, ast.Assign):
                tg = n.targets
            elif isinstance(n, (ast.AugAssign, ast.AnnAssign)):
                tg = [n.target]
            elif isinstance(n, ast.Delete):
                tg = n.targets
            elif isinstance(n, (ast.For, ast.AsyncFor)):
                tg = [n.target]
            elif isinstance(n, (ast.With, ast.AsyncWith)):
                tg = [i.optional_vars for i in n.items if i.optional_vars is not None]
            for t in tg:
                for a in ast.walk(t):
                    if isinstance(a, ast.Attribute) and a.attr == attr and isinstance(a.ctx, (ast.Store, ast.Del)):
                        out.append((f, n))
    return out


def _self_attr_name(text):
    return text[5:] if text and text.startswith("self.") and text[5:].isidentifier() else None


def check_class(src, rep, m, c, en, ex, counts):
    cname = c.name
    scope = "%s:%s" % (m, cname)
    if en is None or ex is None:
        missing = "__exit__" if ex is None else "__enter__"
        rep.ob("M2-exit-exists", src.modules[m].where(c), scope, "class %s" % cname, False,
               "context manager class defines only one of __enter__/__exit__ (%s missing)" % missing)
        return
    en_eff = effects_with_guards(src, en)
    ex_eff = effects_with_guards(src, ex)
    ex_aliases = local_aliases(src, ex)
    try:
        ex_paths = [p for p in enumerate_paths(ex.node.body) if p.feasible()]
    except AnalysisError as e:
        raise AnalysisError("%s.__exit__: %s" % (cname, e))
    cfg = CFG(en.node)

    saves = [e for e in en_eff if e.role == "save" or (e.role == "set" and e.saved_to and e.kind != "tty")]
    # ---------------- changes -> obligations
    changes = []
    for e in en_eff:
        if e.kind in ("tty", "fl") and e.role in ("set",):
            changes.append(e)
        elif e.kind.startswith("sig:") and e.role == "set":
            changes.append(e)
        elif e.kind == "wakeup" and e.role == "set":
            changes.append(e)
        elif e.kind == "fd" and e.role == "open":
            changes.append(e)
        elif e.kind == "cursor" and e.role == "hide":
            changes.append(e)
        elif e.kind == "ctx" and e.role == "enter":
            changes.append(e)
        elif e.kind == "fl" and e.role == "set_blocking":
            # allowed only on a descriptor the class itself just opened (M5 checks ownership)
            pass
    counts["changes"] += len(changes)
    counts["classes"] += 1

    for ch in changes:
        kind = ch.kind
        where = en.where(ch.node)
        ctext = unparse(ch.node)
        # ---- M1: the save dominates the change
        saved_attr = None
        if kind in ("tty", "fl"):
            cands = [s for s in en_eff if s.kind == kind and s.role == "save" and s.res == ch.res and
                     s.saved_to and s.saved_to.startswith("self.")]
            ch_node = cfg.node_containing(ch.node)
            dom = [s for s in cands if ch_node is not None and cfg.node_containing(s.node) is not None and
                   cfg.dominates(cfg.node_containing(s.node), ch_node) and
                   (s.node.lineno, s.node.col_offset) < (ch.node.lineno, ch.node.col_offset)]
            # the first dominating save is the "before entering" value
            ok = bool(dom)
            rep.ob("M1-save-before-change", where, en.scope, ctext, ok,
                   "no %s(%s) stored on self dominates this change: the state before entering is not saved"
                   % ("termios.tcgetattr" if kind == "tty" else "fcntl F_GETFL", ch.res))
            if not ok:
                continue
            first = sorted(dom, key=lambda s: (s.node.lineno, s.node.col_offset))[0]
            saved_attr = first.saved_to
            # the saved value must be taken before ANY change of this resource in __enter__
            earlier_changes = [o for o in changes if o.kind == kind and o.res == ch.res and
                               (o.node.lineno, o.node.col_offset) < (first.node.lineno, first.node.col_offset)]
            rep.ob("M1-save-is-first", en.where(first.node), en.scope, unparse(first.node), not earlier_changes,
                   "the value saved for restoring is read after the state was already changed by `%s`"
                   % (unparse(earlier_changes[0].node) if earlier_changes else ""))
        elif kind.startswith("sig:") or kind == "wakeup":
            if ch.saved_to and ch.saved_to.startswith("self."):
                saved_attr = ch.saved_to
            else:
                cands = [s for s in en_eff if s.kind == kind and s.role == "save" and s.saved_to and
                         s.saved_to.startswith("self.")]
                ch_node = cfg.node_containing(ch.node)
                dom = [s for s in cands if cfg.node_containing(s.node) is not None and ch_node is not None and
                       cfg.dominates(cfg.node_containing(s.node), ch_node)]
                if dom:
                    saved_attr = dom[0].saved_to
            what = "signal handler" if kind.startswith("sig:") else "signal wake-up descriptor"
            if not rep.ob("M1-save-before-change", where, en.scope, ctext, saved_attr is not None,
                          "the previous %s is not kept on self (neither the return value of this call nor a dominating "
                          "query): it cannot be put back on exit" % what):
                # still look for *a* restore so the report says what exit does
                saved_attr = None
        elif kind == "fd":
            fds = [t for t in (ch.extra or []) if t.startswith("self.")]
            if not rep.ob("M3-fd-owned", where, en.scope, ctext, len(fds) == len(ch.extra or []) and fds,
                          "descriptors opened on entering are not kept on self, so __exit__ cannot close them"):
                continue
        # ---- M2/M3: restore on every relevant path of __exit__
        exempt = []
        if saved_attr:
            exempt.append(saved_attr)
        if kind == "fd":
            exempt.extend(t for t in ch.extra if t.startswith("self."))
        relevant = [p for p in ex_paths if _path_relevant(p, ch.guard, exempt)]
        if not relevant:
            raise AnalysisError("%s.__exit__ has no path consistent with the guard %r of `%s`" % (cname, ch.guard, ctext))
        bad_path = None
        bad_reason = ""
        for p in relevant:
            peff = _path_effects(src, ex, p, ex_aliases)
            if kind in ("tty", "fl"):
                rs = [r for r in peff if r.kind == kind and r.role == "set" and r.res == ch.res]
                good = [r for r in rs if r.value == saved_attr]
                if not good:
                    bad_path = p
                    bad_reason = ("no restore of %s(%s) with the saved %s" % (kind, ch.res, saved_attr)) if not rs else \
                        ("restores %s with `%s`, not with the saved value %s" % (ch.res, rs[-1].value, saved_attr))
                    break
                # the LAST write of this resource on the path must be the restore
                if rs[-1].value != saved_attr:
                    bad_path = p
                    bad_reason = "after restoring, %s is changed again by `%s`" % (ch.res, unparse(rs[-1].node))
                    break
            elif kind.startswith("sig:") or kind == "wakeup":
                rs = [r for r in peff if r.kind == kind and r.role == "set"]
                if saved_attr is None:
                    if not rs:
                        bad_path = p
                        bad_reason = "no restore at all"
                        break
                    continue   # already reported under M1
                good = [r for r in rs if r.value == saved_attr]
                if not good or rs[-1].value != saved_attr:
                    bad_path = p
                    bad_reason = ("no call puts back the saved %s" % saved_attr) if not rs else \
                        ("puts back `%s` instead of the saved previous value %s" % (rs[-1].value, saved_attr))
                    break
            elif kind == "fd":
                closed = {r.res for r in peff if r.kind == "fd" and r.role == "close"}
                need = [t for t in ch.extra if t.startswith("self.")]
                # a close under `if self.x is not None` is accepted: path relevance already handled exemption
                missing = [t for t in need if t not in closed]
                if missing:
                    # the path may have skipped the close because of the exempt None-test of ANOTHER fd
                    bad_path = p
                    bad_reason = "descriptor(s) %s opened on entering are not closed" % ", ".join(missing)
                    break
            elif kind == "cursor":
                if not any(r.kind == "cursor" and r.role == "show" for r in peff):
                    bad_path = p
                    bad_reason = "the cursor hidden on entering is not made visible again"
                    break
            elif kind == "ctx":
                if not any(r.kind == "ctx" and r.role == "exit" and r.res == ch.res for r in peff):
                    bad_path = p
                    bad_reason = "%s.__enter__() has no matching %s.__exit__(...)" % (ch.res, ch.res)
                    break
        rule = "M2-restore-on-all-paths" if kind not in ("fd",) else "M2-fd-closed"
        rep.ob(rule, where, scope, "%s [%s]" % (ctext, kind), bad_path is None,
               "%s.__exit__: %s on the path [%s] although the change is made under guard %s"
               % (cname, bad_reason, _show_path(bad_path) if bad_path else "", _show_guard(ch.guard)),
               witness={"exit_path": _show_path(bad_path), "change_guard": _show_guard(ch.guard)} if bad_path else None)
        # ---- M3: who may write the saved attribute
        if saved_attr:
            an = _self_attr_name(saved_attr)
            if an:
                ws = writers_of_attr(src, m, cname, an)
                bad = [(f, n) for f, n in ws if not (f.qualname.split(".")[-1] == "__enter__")]
                # same attribute name may legitimately be saved by several classes' __enter__
                rep.ob("M3-saved-attr-written-only-on-enter", en.where(ch.node), scope, "%s [%s]" % (saved_attr, kind),
                       not bad, "the saved value %s is overwritten outside __enter__ at %s"
                       % (saved_attr, ", ".join("%s (%s)" % (f.where(n), f.qualname) for f, n in bad)))
        # ---- M4: guard stability
        for (t, pol) in ch.guard:
            for node in ast.walk(ast.parse(t, mode="eval")) if not t.startswith("<") else []:
                if is_self_attr(node):
                    ws = writers_of_attr(src, m, cname, node.attr)
                    bad = [(f, n) for f, n in ws if f.qualname.split(".")[-1] != "__init__"]
                    rep.ob("M4-guard-attr-stable", en.where(ch.node), scope, "self.%s guards `%s`" % (node.attr, ctext),
                           not bad, "guard attribute self.%s is reassigned after construction at %s, so __exit__ may "
                           "take a different branch than __enter__ did"
                           % (node.attr, ", ".join("%s (%s)" % (f.where(n), f.qualname) for f, n in bad)))

    # ---- M3b: the saved value must stay what it was: no store through it, or through a (shallow) copy of it into
    # a nested element (termios attribute lists hold the control-character list as a nested mutable list)
    saved_names = {e.saved_to for e in en_eff if e.saved_to and e.saved_to.startswith("self.")}
    for f in (en, ex):
        al = {}     # local -> ('same' | 'shallow', saved attr)
        for n in sorted((x for x in f.own_nodes() if isinstance(x, ast.Assign) and len(x.targets) == 1 and isinstance(x.targets[0], ast.Name)),
                        key=lambda x: x.lineno):
            v = n.value
            t = unparse(v)
            if t in saved_names:
                al[n.targets[0].id] = ("same", t)
            elif isinstance(v, ast.Call) and unparse(v.func) in ("list", "copy.copy", "copy") and v.args and unparse(v.args[0]) in saved_names:
                al[n.targets[0].id] = ("shallow", unparse(v.args[0]))
            elif isinstance(v, ast.Subscript) and isinstance(v.slice, ast.Slice) and unparse(v.value) in saved_names:
                al[n.targets[0].id] = ("shallow", unparse(v.value))
            elif isinstance(v, ast.Subscript) and isinstance(v.value, ast.Name) and v.value.id in al:
                al[n.targets[0].id] = ("same", al[v.value.id][1])     # an element of the saved structure (e.g. the cc list)
            elif isinstance(v, ast.Call) and unparse(v.func) == "cast" and len(v.args) == 2 and isinstance(v.args[1], ast.Subscript) and \
                    isinstance(v.args[1].value, ast.Name) and v.args[1].value.id in al:
                al[n.targets[0].id] = ("same", al[v.args[1].value.id][1])
        for n in f.own_nodes():
            tg = n.targets if isinstance(n, ast.Assign) else [n.target] if isinstance(n, ast.AugAssign) else []
            for t in tg:
                if not isinstance(t, ast.Subscript):
                    continue
                depth = 0
                base = t
                while isinstance(base, ast.Subscript):
                    base = base.value
                    depth += 1
                bt = unparse(base)
                hit = None
                if bt in saved_names:
                    hit = bt
                elif isinstance(base, ast.Name) and base.id in al:
                    kind, sv = al[base.id]
                    if kind == "same" or depth >= 2:
                        hit = sv
                if hit:
                    rep.ob("M3-saved-state-not-mutated", f.where(n), f.scope, unparse(n), False,
                           "this store writes into %s (directly, or through an alias / shallow copy whose nested lists are shared): "
                           "the value restored on exit is no longer the state found on entering" % hit)
    # ---- restores in __exit__ that have no change in __enter__ are harmless; but a tty/fl/signal *set* in
    # __exit__ whose value is not a saved attribute is a state change made on the way out.
    saved_attrs = {e.saved_to for e in en_eff if e.saved_to}
    for r in ex_eff:
        if (r.kind in ("tty", "fl") and r.role == "set") or ((r.kind.startswith("sig:") or r.kind == "wakeup") and r.role == "set"):
            counts["restores"] += 1
            ok = r.value in saved_attrs
            had_change = any(c.kind == r.kind for c in changes)
            if had_change and not ok:
                # reported through M2 for the matching change with more context; record here once for the value rule
                rep.ob("M3-restore-value-is-saved", ex.where(r.node), ex.scope, unparse(r.node), False,
                       "__exit__ sets %s to `%s`, which is not a value saved in __enter__ (saved: %s)"
                       % (r.kind, r.value, sorted(saved_attrs) or "nothing"))
            elif not had_change and not ok:
                rep.ob("M3-restore-value-is-saved", ex.where(r.node), ex.scope, unparse(r.node), False,
                       "__exit__ changes %s to `%s` although __enter__ did not change it" % (r.kind, r.value))
            else:
                rep.ob("M3-restore-value-is-saved", ex.where(r.node), ex.scope, unparse(r.node), True)

    # ---- M9: __exit__ signature and independence of the exception triple
    a = ex.node.args
    npos = len(a.posonlyargs) + len(a.args) - 1
    accepts = a.vararg is not None or npos >= 3
    rep.ob("M9-exit-signature", ex.where(), ex.scope, "def __exit__(%s)" % unparse(a), accepts,
           "__exit__ does not accept (type, value, traceback): leaving a `with` raises TypeError before anything is restored")
    exc_params = {x.arg for x in (a.posonlyargs + a.args)[1:]} | ({a.vararg.arg} if a.vararg else set())
    for n in ex.own_nodes():
        if isinstance(n, (ast.If, ast.While, ast.IfExp)):
            used = {x.id for x in ast.walk(n.test) if isinstance(x, ast.Name)} & exc_params
            rep.ob("M9-exit-independent-of-exception", ex.where(n), ex.scope, unparse(n.test), not used,
                   "__exit__ branches on its exception arguments %s: restoration differs between normal and "
                   "exceptional exit" % sorted(used))
    # ---- M8 for the alternate screen
    _check_altscreen(src, rep, m, c, en, ex, en_eff, ex_eff)


def _show_guard(g):
    return " and ".join(("" if pol else "not ") + t for t, pol in g) or "<unconditional>"


def _show_path(p):
    if p is None:
        return ""
    parts = []
    for ev in p.events:
        if ev[0] == "cond":
            parts.append("%s=%s" % (unparse(ev[1]), ev[2]))
        elif ev[0] == "stmt":
            parts.append(unparse(ev[1]).split("\n")[0][:70])
        elif ev[0] in ("loop", "with", "except"):
            parts.append("<%s>" % ev[0])
    return " ; ".join(parts) + (" -> %s" % p.term if p.term else "")


CONTENT_ATTRS = {"move", "clear_eol", "clear_bol", "clear_eos", "clear", "move_down", "move_up", "move_x", "move_y",
                 "home", "move_left", "move_right"}


def _check_altscreen(src, rep, m, c, en, ex, en_eff, ex_eff):
    """M8: in a class that delegates to a blessed fullscreen() context, content-changing writes in __enter__ come
    after entering it and in __exit__ before leaving it."""
    fs_attrs = set()
    for f in src.methods(m, c.name).values():
        for n in f.own_nodes():
            if isinstance(n, ast.Assign) and isinstance(n.value, ast.Call) and isinstance(n.value.func, ast.Attribute) \
                    and n.value.func.attr == "fullscreen":
                for t in n.targets:
                    fs_attrs.add(unparse(t))
    if not fs_attrs:
        return
    for f, role in ((en, "enter"), (ex, "exit")):
        evs = []
        for n in sorted((x for x in f.own_nodes() if isinstance(x, ast.Call)), key=lambda x: (x.lineno, x.col_offset)):
            if isinstance(n.func, ast.Attribute) and n.func.attr in ("__enter__", "__exit__") and \
                    unparse(n.func.value) in fs_attrs:
                evs.append(("ALT", n))
            elif isinstance(n.func, ast.Attribute) and n.func.attr == "write" and n.args:
                a = n.args[0]
                inner = a.func if isinstance(a, ast.Call) else a
                if isinstance(inner, ast.Attribute) and inner.attr in ("hide_cursor", "normal_cursor"):
                    continue
                evs.append(("CONTENT", n))
            elif isinstance(n.func, ast.Attribute) and n.func.attr in ("render_to_terminal", "scroll_down"):
                evs.append(("CONTENT", n))
        alt_idx = [i for i, e in enumerate(evs) if e[0] == "ALT"]
        ok_alt = bool(alt_idx)
        rep.ob("M8-altscreen-delegated", f.where(), f.scope, "fullscreen context %s in %s" % (sorted(fs_attrs), f.name),
               ok_alt, "the alternate-screen context is not %sed in %s" % (role, f.name))
        if not ok_alt:
            continue
        for i, e in enumerate(evs):
            if e[0] != "CONTENT":
                continue
            bad = (role == "enter" and i < alt_idx[0]) or (role == "exit" and i > alt_idx[-1])
            rep.ob("M8-content-inside-altscreen", f.where(e[1]), f.scope, unparse(e[1]), not bad,
                   "screen content is written %s the alternate screen is %s: the main screen is not left untouched"
                   % ("before" if role == "enter" else "after", "entered" if role == "enter" else "left"))


# --------------------------------------------------------------------------------------
# package-wide rules
# --------------------------------------------------------------------------------------

PRIMITIVE_KINDS = {"tty": ("set",), "fl": ("set", "set_blocking"), "wakeup": ("set",), "fd": ("open",)}


def check_who_may_call(src, rep, cm_funcs, counts):
    """M5: raw state-changing primitives are called only inside __enter__/__exit__ of context-manager classes."""
    allowed_scopes = {f.scope for f in cm_funcs}
    sites = 0
    for f in src.all_funcs():
        aliases = local_aliases(src, f)
        for n in f.own_nodes():
            if not isinstance(n, ast.Call):
                continue
            e = classify_call(src, f, n, aliases)
            if e is None:
                continue
            prim = (e.kind in PRIMITIVE_KINDS and e.role in PRIMITIVE_KINDS[e.kind]) or \
                   (e.kind.startswith("sig:") and e.role == "set")
            if not prim:
                continue
            sites += 1
            if f.scope in allowed_scopes:
                if e.kind == "fl" and e.role == "set_blocking":
                    # only on a descriptor this very method opened (its own pipe end)
                    own = set()
                    for x in f.own_nodes():
                        if isinstance(x, ast.Call) and src.canon(x.func, f.module, aliases) == "os.pipe":
                            own.update(_assigned_to(f, x) or [])
                    defs = {}
                    for x in f.own_nodes():
                        if isinstance(x, ast.Assign) and len(x.targets) == 1 and isinstance(x.targets[0], ast.Name):
                            defs[x.targets[0].id] = unparse(x.value)
                    res = defs.get(e.res, e.res)
                    rep.ob("M5-set_blocking-own-fd", f.where(n), f.scope, unparse(n), res in own,
                           "os.set_blocking on `%s`, which is not a descriptor this context manager opened itself: "
                           "the blocking mode of a foreign stream is changed and never restored" % e.res)
                continue
            # outside a context manager
            if e.kind == "fd":
                # a descriptor opened outside a CM must be closed in the same function or is a leak
                closed = [x for x in f.own_nodes() if isinstance(x, ast.Call) and
                          src.canon(x.func, f.module, aliases) == "os.close"]
                rep.ob("M5-fd-paired", f.where(n), f.scope, unparse(n), bool(closed) and False or _fd_closed_somewhere(src, f, e),
                       "%s opens descriptors %s that no code of the package ever closes: repeated use leaks descriptors"
                       % (unparse(n), e.extra))
                continue
            paired, why = _locally_paired(src, f, e, aliases)
            rep.ob("M5-who-may-call", f.where(n), f.scope, unparse(n), paired,
                   "state-changing primitive `%s` (%s) is called outside a context manager's __enter__/__exit__ and is "
                   "not paired by a try/finally restore of a value saved in this function%s: nothing restores it"
                   % (unparse(n.func), e.kind, why))
    counts["primitive_sites"] = sites


def _locally_paired(src, f, e, aliases):
    """try/finally idiom inside one function:  X = <save or set returning previous>; try: ... finally: <set kind to X>.
    Accepts the change `e` when it is the saving set itself (directly before the try), lies in the try body, or is the
    restore in the finally block.  X must be bound once (local) or written only in this function (attribute)."""
    mod = f.module
    for t in [x for x in f.own_nodes() if isinstance(x, ast.Try) and x.finalbody]:
        fin_calls = [x for st in t.finalbody for x in ast.walk(st) if isinstance(x, ast.Call)]
        restores = [r for r in (classify_call(src, f, c, aliases) for c in fin_calls)
                    if r is not None and r.kind == e.kind and r.role == "set" and r.res == e.res]
        for r in restores:
            v = r.value
            # where is v bound?
            binds = []
            for x in f.own_nodes():
                if isinstance(x, ast.Assign) and len(x.targets) == 1 and unparse(x.targets[0]) == v and isinstance(x.value, ast.Call):
                    b = classify_call(src, f, x.value, aliases)
                    if b is not None and b.kind == e.kind and b.res == e.res and (b.role == "save" or b.saved_to == v):
                        binds.append((x, b))
            if len(binds) != 1:
                continue
            bstmt, b = binds[0]
            if v.startswith("self."):
                ws = writers_of_attr(src, mod.name, None, v[5:])
                if any(g is not f for g, _ in ws) or len(ws) != 1:
                    return False, " (the saved value %s is also written at %s)" % (
                        v, ", ".join(g.where(n) for g, n in ws if n is not bstmt))
            # bind statement must precede the try in the same block
            parent = mod.parent.get(t)
            block = None
            for fld in ("body", "orelse", "finalbody"):
                blk = getattr(parent, fld, None)
                if isinstance(blk, list) and t in blk:
                    block = blk
            if block is None or bstmt not in block or block.index(bstmt) > block.index(t):
                continue
            between = block[block.index(bstmt) + 1:block.index(t)]
            if any(isinstance(x, (ast.Return, ast.Raise)) for st in between for x in ast.walk(st)):
                continue
            in_try = any(x is e.node for st in t.body for x in ast.walk(st))
            if e.node is r.node or e.node is b.node or in_try:
                return True, ""
    return False, ""


def _fd_closed_somewhere(src, f, e):
    names = [t for t in (e.extra or [])]
    if not names:
        return False
    # closed in the same function?
    texts = set()
    for g in src.all_funcs():
        if g.cls is not f.cls and g is not f:
            continue
        for x in g.all_nodes():
            if isinstance(x, ast.Call) and src.canon(x.func, g.module) == "os.close" and x.args:
                texts.add(unparse(x.args[0]))
    # local names never escape to self.* except through containers we track by text
    if all(t in texts for t in names):
        return True
    # appended to a list attribute that is closed in a loop?
    for t in names:
        holders = []
        for x in f.all_nodes():
            if isinstance(x, ast.Call) and isinstance(x.func, ast.Attribute) and x.func.attr == "append" and x.args \
                    and unparse(x.args[0]) == t:
                holders.append(unparse(x.func.value))
        ok = False
        for h in holders:
            for g in src.all_funcs():
                for lp in g.all_nodes():
                    if isinstance(lp, ast.For) and unparse(lp.iter) == h and isinstance(lp.target, ast.Name):
                        for x in ast.walk(lp):
                            if isinstance(x, ast.Call) and src.canon(x.func, g.module) == "os.close" and x.args and \
                                    unparse(x.args[0]) == lp.target.id:
                                ok = True
        if not ok:
            return False
    return True


CM_FACTORIES = {"cbreak", "raw", "fullscreen", "location", "hidden_cursor", "keypad"}


def check_cm_usage(src, rep, cm_names, counts):
    """M6 + M7: state-changing context managers are constructed only as `with` items, stored on self and
    entered/exited by paired delegation, or returned to the caller."""
    uses = 0
    for f in src.all_funcs():
        mod = f.module
        for n in f.own_nodes():
            if not isinstance(n, ast.Call):
                continue
            is_cm = False
            if isinstance(n.func, ast.Name) and n.func.id in cm_names:
                is_cm = True
            elif isinstance(n.func, ast.Attribute) and n.func.attr in cm_names and \
                    (src.canon(n.func, mod) or "").startswith("curtsies."):
                is_cm = True
            elif isinstance(n.func, ast.Attribute) and n.func.attr in CM_FACTORIES and \
                    unparse(n.func.value) in ("self.t", "w.t", "t"):
                is_cm = True
            if not is_cm:
                continue
            uses += 1
            p = mod.parent.get(n)
            ok = False
            how = ""
            # with item
            if isinstance(p, ast.withitem) and p.context_expr is n:
                ok, how = True, "with"
            # conditional expression feeding an assignment / with
            q = p
            while isinstance(q, ast.IfExp):
                q = mod.parent.get(q)
            if not ok and isinstance(q, ast.withitem):
                ok, how = True, "with"
            if not ok and isinstance(q, ast.Return):
                ok, how = True, "returned"
            if not ok and isinstance(q, ast.Assign) and len(q.targets) == 1:
                t = q.targets[0]
                tt = unparse(t)
                if isinstance(t, ast.Name):
                    # local: must be used as a with item in this function
                    for w in f.own_nodes():
                        if isinstance(w, ast.withitem) and unparse(w.context_expr) == tt:
                            ok, how = True, "local-with"
                elif is_self_attr(t):
                    # stored on self: the class must enter it in __enter__ and exit it in __exit__ (checked by
                    # check_class through the ctx kind); here require that both delegations exist somewhere in the class
                    ent = ext = False
                    withs = False
                    for g in src.all_funcs():
                        if g.cls is not f.cls:
                            continue
                        for x in g.all_nodes():
                            if isinstance(x, ast.Call) and isinstance(x.func, ast.Attribute) and unparse(x.func.value) == tt:
                                if x.func.attr == "__enter__":
                                    ent = g.name == "__enter__" or ent
                                if x.func.attr == "__exit__":
                                    ext = g.name == "__exit__" or ext
                            if isinstance(x, ast.withitem) and unparse(x.context_expr) == tt:
                                withs = True
                    ok = (ent and ext) or (withs and not ent)
                    how = "delegated"
            rep.ob("M6-cm-used-through-with", f.where(n), f.scope, unparse(n), ok,
                   "a state-changing context manager is created but neither used as a `with` item, nor returned, nor "
                   "entered in __enter__ and exited in __exit__ of its owner: what it changes is never restored")
            # M7: no yield inside the with body
            if how in ("with", "local-with"):
                w = mod.enclosing(n, (ast.With, ast.AsyncWith)) if how == "with" else None
                if w is not None:
                    ys = [x for s in w.body for x in ast.walk(s) if isinstance(x, (ast.Yield, ast.YieldFrom))]
                    rep.ob("M7-no-yield-inside-with", f.where(w), f.scope, unparse(n), not ys,
                           "a generator is suspended inside `with %s`: the state stays changed between requests" % unparse(n))
    counts["cm_uses"] = uses
    # bare X.__enter__() calls outside __enter__ methods
    for f in src.all_funcs():
        for n in f.own_nodes():
            if isinstance(n, ast.Call) and isinstance(n.func, ast.Attribute) and n.func.attr == "__enter__":
                ok = f.name == "__enter__"
                rep.ob("M6-bare-enter", f.where(n), f.scope, unparse(n), ok,
                       "explicit __enter__() outside an __enter__ method has no language-guaranteed __exit__")


def check_render_cursor(src, rep, counts):
    """M10: in every method that is not __enter__/__exit__, a cursor hide is followed on every normal path by a show
    under the same guard."""
    n_pairs = 0
    for f in src.all_funcs():
        if f.name in ("__enter__", "__exit__"):
            continue
        effs = [e for e in effects_with_guards(src, f) if e.kind == "cursor"]
        hides = [e for e in effs if e.role == "hide"]
        if not hides:
            continue
        paths = [p for p in enumerate_paths(f.node.body) if p.feasible()]
        aliases = local_aliases(src, f)
        for h in hides:
            n_pairs += 1
            bad = None
            for p in paths:
                if p.term == "raise":
                    continue
                pe = _path_effects(src, f, p, aliases)
                idx = [i for i, e in enumerate(pe) if e.node is h.node]
                if not idx:
                    continue
                after = pe[idx[0] + 1:]
                if not any(e.kind == "cursor" and e.role == "show" for e in after):
                    bad = p
                    break
            rep.ob("M10-render-cursor-paired", f.where(h.node), f.scope, unparse(h.node), bad is None,
                   "the cursor is hidden under guard [%s] but not shown again on the path [%s]; when the window does "
                   "not own cursor hiding, __exit__ will not show it either" % (_show_guard(h.guard), _show_path(bad)))
    counts["render_hide_sites"] = n_pairs


def run_rules(src, rep):
    counts = {"classes": 0, "changes": 0, "restores": 0}
    cms = cm_classes(src)
    cm_funcs = []
    for m, c, en, ex in cms:
        own_en = src.funcs.get((m, c.name + ".__enter__"))
        own_ex = src.funcs.get((m, c.name + ".__exit__"))
        for f in (own_en, own_ex):
            if f is not None:
                cm_funcs.append(f)
        check_class(src, rep, m, c, en, ex, counts)
    check_who_may_call(src, rep, cm_funcs, counts)
    check_cm_usage(src, rep, {c.name for _, c, _, _ in cms}, counts)
    check_render_cursor(src, rep, counts)
    return counts, cms


def check(src, rep):
    rep.explanation = EXPLANATION
    rep.not_decided = NOT_DECIDED
    rep.assumptions = [
        "Python semantics: `with` calls __exit__ on every exit of its body (normal, return, exception)",
        "termios/tty/fcntl/signal/os calls and blessed capabilities have the effect their names say",
        "is_main_thread() gives the same answer in __enter__ and __exit__ of one context",
    ]
    counts, cms = run_rules(src, rep)
    rep.extracted["context_manager_classes"] = ["%s.%s" % (m, c.name) for m, c, _, _ in cms]
    rep.extracted["counts"] = counts
    rep.floor("context-manager classes", counts["classes"], 8)
    rep.floor("state changes in __enter__ methods", counts["changes"], 15)
    rep.floor("state-changing primitive call sites", counts["primitive_sites"], 12)
    # positive fixtures: the rules must fire on a known-bad synthetic package
    fx = Source(os.path.join(VERIF, "selftest", "fixtures", "c12"))
    from ..report import Report
    frep = Report("C12", "fixture", fx.repo)
    run_rules(fx, frep)
    fired = {o.rule for o in frep.obligations if not o.ok}
    for rule in ("M1-save-before-change", "M2-restore-on-all-paths", "M2-fd-closed", "M3-restore-value-is-saved",
                 "M5-who-may-call", "M6-cm-used-through-with", "M9-exit-signature", "M10-render-cursor-paired",
                 "M4-guard-attr-stable", "M7-no-yield-inside-with", "M6-bare-enter", "M5-fd-paired"):
        rep.fixture(rule, rule in fired)
