"""C12 - leaving any curtsies context restores terminal, tty and signal state.

Save / change / restore discipline on every path of every __enter__/__exit__, package wide
(DESIGN.md section 3, C12: rules M1..M10).
"""
import ast
import os

from ..cfg import CFG, G, conjuncts, enumerate_paths
from ..report import AnalysisError, VERIF
from ..srcmodel import Source, is_self_attr, local_aliases, unparse

EXPLANATION = (
    "Interpreted part (sa/rules/c12sem.py): the package's own Nonblocking, Termmode, Cbreak, ReplacedSigIntHandler, Input, "
    "FullscreenWindow and CursorAwareWindow code is abstractly interpreted against a reference model of the operating-system "
    "state (tty attributes and file status flags per descriptor, the descriptor table, the SIGINT handler, the signal wake-up "
    "descriptor, main / non-main thread, scripted select / read) and of the terminal (cursor visibility, alternate screen, "
    "main-screen content).  Scenarios: X1 enter / exit of every class for every combination of sigint_event, "
    "disable_terminal_start_stop, hide_cursor, keep_last_line, main / non-main thread, linux / darwin, two initial tty "
    "attribute sets and three initial flag words, left normally and with an exception triple; X2 crash points: a body of "
    "five requests (key, timeout, escape sequence, paste, interrupted select) or three renders is run with the k-th OS call "
    "(resp. terminal write) of the body raising KeyboardInterrupt instead of taking effect, for every k, then the context is "
    "left by that exception; X3 after every request (completed or interrupted) the input stream's flags are the initial ones; "
    "X4 three enter / request / exit cycles on one object and on fresh objects leave the descriptor table unchanged (with and "
    "without threadsafe_event_trigger); X5 an Input nested in a window on the same terminal, and Input / Cbreak / Nonblocking "
    "nested in each other on one stream (leaving the inner context brings back exactly the state the outer one had set up); X6 after a window is left the "
    "cursor is visible, the alternate screen has been left and the main screen's content (resp. every line above the window) "
    "is what it was.  The model state after leaving is compared, component by component, with the state before entering.  "
    "Structural part: M5 the raw state-changing primitives (tcsetattr, setcbreak/setraw, F_SETFL, signal.signal, "
    "set_wakeup_fd, os.pipe ...) are called only in __enter__/__exit__ methods of context-manager classes, in helpers reachable "
    "only from those, or inside a local save / try / finally-restore; M6 state-changing context managers are constructed only as "
    "`with` items, by paired delegation or returned to the caller; M7 no yield inside such a `with`."
)
NOT_DECIDED = ("an exception arriving between two bytecodes of the restoring code itself or between an OS call taking effect and its "
               "result being stored (inherent to CPython signal delivery; crash points are whole OS calls / terminal writes); other "
               "threads; bodies other than the catalogue's requests and renders; that the OS and blessed do what the models say.")

# canonical name -> (kind, role)
TTY_SET = {"tty.setcbreak", "tty.setraw"}


class Effect:
    def __init__(self, kind, role, res, value, saved_to, node, guard, func, extra=None):
        self.kind, self.role, self.res, self.value, self.saved_to = kind, role, res, value, saved_to
        self.node, self.guard, self.func, self.extra = node, guard, func, extra

    def __repr__(self):
        return "%s/%s(%s,%s->%s)" % (self.kind, self.role, self.res, self.value, self.saved_to)


def _assigned_to(func, call):
    """Text(s) of the assignment target(s) when `call` is the whole right-hand side of an assignment."""
    p = func.module.parent.get(call)
    if isinstance(p, ast.Assign) and p.value is call and len(p.targets) == 1:
        t = p.targets[0]
        if isinstance(t, (ast.Tuple, ast.List)):
            return [unparse(x) for x in t.elts]
        return [unparse(t)]
    if isinstance(p, ast.AnnAssign) and p.value is call:
        return [unparse(p.target)]
    return None


def classify_call(src, func, call, aliases):
    """Effect (without guard) of one call expression, or None."""
    name = src.canon(call.func, func.module, aliases)
    args = [unparse(a) for a in call.args]
    cargs = [src.canon(a, func.module, aliases) or unparse(a) for a in call.args]
    saved = _assigned_to(func, call)
    s1 = saved[0] if saved and len(saved) == 1 else None
    if name == "termios.tcgetattr" and args:
        return Effect("tty", "save", args[0], None, s1, call, None, func)
    if name == "termios.tcsetattr" and len(args) >= 3:
        return Effect("tty", "set", args[0], args[2], None, call, None, func)
    if name in TTY_SET and args:
        return Effect("tty", "set", args[0], name, None, call, None, func)
    if name == "fcntl.fcntl" and len(args) >= 2 and cargs[1] == "fcntl.F_GETFL":
        return Effect("fl", "save", args[0], None, s1, call, None, func)
    if name == "fcntl.fcntl" and len(args) >= 3 and cargs[1] == "fcntl.F_SETFL":
        return Effect("fl", "set", args[0], args[2], None, call, None, func)
    if name == "os.set_blocking" and len(args) >= 2:
        return Effect("fl", "set_blocking", args[0], args[1], None, call, None, func)
    if name == "signal.signal" and len(args) >= 2:
        return Effect("sig:" + cargs[0], "set", cargs[0], args[1], s1, call, None, func)
    if name == "signal.getsignal" and args:
        return Effect("sig:" + cargs[0], "save", cargs[0], None, s1, call, None, func)
    if name == "signal.set_wakeup_fd" and args:
        return Effect("wakeup", "set", "wakeup_fd", args[0], s1, call, None, func)
    if name == "os.pipe":
        return Effect("fd", "open", None, None, None, call, None, func, extra=saved)
    if name == "os.close" and args:
        return Effect("fd", "close", args[0], None, None, call, None, func)
    if name in ("os.open", "os.dup", "os.dup2", "socket.socketpair"):
        return Effect("fd", "open", None, None, None, call, None, func, extra=saved)
    if isinstance(call.func, ast.Attribute) and call.func.attr in ("__enter__", "__exit__"):
        recv = call.func.value
        return Effect("ctx", "enter" if call.func.attr == "__enter__" else "exit", unparse(recv), None, None, call,
                      None, func)
    # cursor visibility: self.write(self.t.hide_cursor) / normal_cursor
    if isinstance(call.func, ast.Attribute) and call.func.attr == "write" and call.args:
        a = call.args[0]
        if isinstance(a, ast.Attribute) and a.attr == "hide_cursor":
            return Effect("cursor", "hide", "cursor", None, None, call, None, func)
        if isinstance(a, ast.Attribute) and a.attr == "normal_cursor":
            return Effect("cursor", "show", "cursor", None, None, call, None, func)
    return None


def cm_classes(src):
    """[(module, ClassDef, enter Func|None, exit Func|None)] for every class that has __enter__/__exit__ via its MRO."""
    out = []
    for (m, cname), c in sorted(src.classes.items()):
        if "." in cname:
            continue
        en = src.resolve_method(m, cname, "__enter__")
        ex = src.resolve_method(m, cname, "__exit__")
        own = src.has_func(m, cname + ".__enter__") or src.has_func(m, cname + ".__exit__")
        if own and (en or ex):
            out.append((m, c, en, ex))
    return out


def writers_of_attr(src, module, clsname, attr):
    """Functions (qualnames) of the class hierarchy that store to self.<attr>; plus any foreign `x.attr = ` store."""
    out = []
    for f in src.all_funcs():
        for n in f.own_nodes():
            tg = []
            if isinstance(n, ast.Assign):
                tg = n.targets
            elif isinstance(n, (ast.AugAssign, ast.AnnAssign)):
                tg = [n.target]
            elif isinstance(n, ast.Delete):
                tg = n.targets
            elif isinstance(n, (ast.For, ast.AsyncFor)):
                tg = [n.target]
            elif isinstance(n, (ast.With, ast.AsyncWith)):
                tg = [i.optional_vars for i in n.items if i.optional_vars is not None]
            for t in tg:
                for a in ast.walk(t):
                    if isinstance(a, ast.Attribute) and a.attr == attr and isinstance(a.ctx, (ast.Store, ast.Del)):
                        out.append((f, n))
    return out


CONTENT_ATTRS = {"move", "clear_eol", "clear_bol", "clear_eos", "clear", "move_down", "move_up", "move_x", "move_y",
                 "home", "move_left", "move_right"}


# --------------------------------------------------------------------------------------
# package-wide rules
# --------------------------------------------------------------------------------------

PRIMITIVE_KINDS = {"tty": ("set",), "fl": ("set", "set_blocking"), "wakeup": ("set",), "fd": ("open",)}


def check_who_may_call(src, rep, cm_funcs, counts):
    """M5: raw state-changing primitives are called only inside __enter__/__exit__ of context-manager classes."""
    allowed_scopes = {f.scope for f in cm_funcs}
    sites = 0
    for f in src.all_funcs():
        aliases = local_aliases(src, f)
        for n in f.own_nodes():
            if not isinstance(n, ast.Call):
                continue
            e = classify_call(src, f, n, aliases)
            if e is None:
                continue
            prim = (e.kind in PRIMITIVE_KINDS and e.role in PRIMITIVE_KINDS[e.kind]) or \
                   (e.kind.startswith("sig:") and e.role == "set")
            if not prim:
                continue
            sites += 1
            if f.scope in allowed_scopes:
                if e.kind == "fl" and e.role == "set_blocking":
                    # only on a descriptor this very method opened (its own pipe end)
                    own = set()
                    for x in f.own_nodes():
                        if isinstance(x, ast.Call) and src.canon(x.func, f.module, aliases) == "os.pipe":
                            own.update(_assigned_to(f, x) or [])
                    defs = {}
                    for x in f.own_nodes():
                        if isinstance(x, ast.Assign) and len(x.targets) == 1 and isinstance(x.targets[0], ast.Name):
                            defs[x.targets[0].id] = unparse(x.value)
                    res = defs.get(e.res, e.res)
                    rep.ob("M5-set_blocking-own-fd", f.where(n), f.scope, unparse(n), res in own,
                           "os.set_blocking on `%s`, which is not a descriptor this context manager opened itself: "
                           "the blocking mode of a foreign stream is changed and never restored" % e.res)
                continue
            # outside a context manager
            if e.kind == "fd":
                # a descriptor opened outside a CM must be closed in the same function or is a leak
                closed = [x for x in f.own_nodes() if isinstance(x, ast.Call) and
                          src.canon(x.func, f.module, aliases) == "os.close"]
                rep.ob("M5-fd-paired", f.where(n), f.scope, unparse(n), bool(closed) and False or _fd_closed_somewhere(src, f, e),
                       "%s opens descriptors %s that no code of the package ever closes: repeated use leaks descriptors"
                       % (unparse(n), e.extra))
                continue
            paired, why = _locally_paired(src, f, e, aliases)
            rep.ob("M5-who-may-call", f.where(n), f.scope, unparse(n), paired,
                   "state-changing primitive `%s` (%s) is called outside a context manager's __enter__/__exit__ and is "
                   "not paired by a try/finally restore of a value saved in this function%s: nothing restores it"
                   % (unparse(n.func), e.kind, why))
    counts["primitive_sites"] = sites


def _locally_paired(src, f, e, aliases):
    """try/finally idiom inside one function:  X = <save or set returning previous>; try: ... finally: <set kind to X>.
    Accepts the change `e` when it is the saving set itself (directly before the try), lies in the try body, or is the
    restore in the finally block.  X must be bound once (local) or written only in this function (attribute)."""
    mod = f.module
    for t in [x for x in f.own_nodes() if isinstance(x, ast.Try) and x.finalbody]:
        fin_calls = [x for st in t.finalbody for x in ast.walk(st) if isinstance(x, ast.Call)]
        restores = [r for r in (classify_call(src, f, c, aliases) for c in fin_calls)
                    if r is not None and r.kind == e.kind and r.role == "set" and r.res == e.res]
        for r in restores:
            v = r.value
            # where is v bound?
            binds = []
            for x in f.own_nodes():
                if isinstance(x, ast.Assign) and len(x.targets) == 1 and unparse(x.targets[0]) == v and isinstance(x.value, ast.Call):
                    b = classify_call(src, f, x.value, aliases)
                    if b is not None and b.kind == e.kind and b.res == e.res and (b.role == "save" or b.saved_to == v):
                        binds.append((x, b))
            if len(binds) != 1:
                continue
            bstmt, b = binds[0]
            if v.startswith("self."):
                ws = writers_of_attr(src, mod.name, None, v[5:])
                if any(g is not f for g, _ in ws) or len(ws) != 1:
                    return False, " (the saved value %s is also written at %s)" % (
                        v, ", ".join(g.where(n) for g, n in ws if n is not bstmt))
            # bind statement must precede the try in the same block
            parent = mod.parent.get(t)
            block = None
            for fld in ("body", "orelse", "finalbody"):
                blk = getattr(parent, fld, None)
                if isinstance(blk, list) and t in blk:
                    block = blk
            if block is None or bstmt not in block or block.index(bstmt) > block.index(t):
                continue
            between = block[block.index(bstmt) + 1:block.index(t)]
            if any(isinstance(x, (ast.Return, ast.Raise)) for st in between for x in ast.walk(st)):
                continue
            in_try = any(x is e.node for st in t.body for x in ast.walk(st))
            if e.node is r.node or e.node is b.node or in_try:
                return True, ""
    return False, ""


def _fd_closed_somewhere(src, f, e):
    names = [t for t in (e.extra or [])]
    if not names:
        return False
    # closed in the same function?
    texts = set()
    for g in src.all_funcs():
        if g.cls is not f.cls and g is not f:
            continue
        for x in g.all_nodes():
            if isinstance(x, ast.Call) and src.canon(x.func, g.module) == "os.close" and x.args:
                texts.add(unparse(x.args[0]))
    # local names never escape to self.* except through containers we track by text
    if all(t in texts for t in names):
        return True
    # appended to a list attribute that is closed in a loop?
    for t in names:
        holders = []
        for x in f.all_nodes():
            if isinstance(x, ast.Call) and isinstance(x.func, ast.Attribute) and x.func.attr == "append" and x.args \
                    and unparse(x.args[0]) == t:
                holders.append(unparse(x.func.value))
        ok = False
        for h in holders:
            for g in src.all_funcs():
                for lp in g.all_nodes():
                    if isinstance(lp, ast.For) and unparse(lp.iter) == h and isinstance(lp.target, ast.Name):
                        for x in ast.walk(lp):
                            if isinstance(x, ast.Call) and src.canon(x.func, g.module) == "os.close" and x.args and \
                                    unparse(x.args[0]) == lp.target.id:
                                ok = True
        if not ok:
            return False
    return True


CM_FACTORIES = {"cbreak", "raw", "fullscreen", "location", "hidden_cursor", "keypad"}


def check_cm_usage(src, rep, cm_names, counts):
    """M6 + M7: state-changing context managers are constructed only as `with` items, stored on self and
    entered/exited by paired delegation, or returned to the caller."""
    uses = 0
    for f in src.all_funcs():
        mod = f.module
        for n in f.own_nodes():
            if not isinstance(n, ast.Call):
                continue
            is_cm = False
            if isinstance(n.func, ast.Name) and n.func.id in cm_names:
                is_cm = True
            elif isinstance(n.func, ast.Attribute) and n.func.attr in cm_names and \
                    (src.canon(n.func, mod) or "").startswith("curtsies."):
                is_cm = True
            elif isinstance(n.func, ast.Attribute) and n.func.attr in CM_FACTORIES and \
                    unparse(n.func.value) in ("self.t", "w.t", "t"):
                is_cm = True
            if not is_cm:
                continue
            uses += 1
            p = mod.parent.get(n)
            ok = False
            how = ""
            # with item
            if isinstance(p, ast.withitem) and p.context_expr is n:
                ok, how = True, "with"
            # conditional expression feeding an assignment / with
            q = p
            while isinstance(q, ast.IfExp):
                q = mod.parent.get(q)
            if not ok and isinstance(q, ast.withitem):
                ok, how = True, "with"
            if not ok and isinstance(q, ast.Return):
                ok, how = True, "returned"
            if not ok and isinstance(q, ast.Assign) and len(q.targets) == 1:
                t = q.targets[0]
                tt = unparse(t)
                if isinstance(t, ast.Name):
                    # local: must be used as a with item in this function
                    for w in f.own_nodes():
                        if isinstance(w, ast.withitem) and unparse(w.context_expr) == tt:
                            ok, how = True, "local-with"
                elif is_self_attr(t):
                    # stored on self: the class must enter it in __enter__ and exit it in __exit__ (checked by
                    # check_class through the ctx kind); here require that both delegations exist somewhere in the class
                    ent = ext = False
                    withs = False
                    for g in src.all_funcs():
                        if g.cls is not f.cls:
                            continue
                        for x in g.all_nodes():
                            if isinstance(x, ast.Call) and isinstance(x.func, ast.Attribute) and unparse(x.func.value) == tt:
                                if x.func.attr == "__enter__":
                                    ent = g.name == "__enter__" or ent
                                if x.func.attr == "__exit__":
                                    ext = g.name == "__exit__" or ext
                            if isinstance(x, ast.withitem) and unparse(x.context_expr) == tt:
                                withs = True
                    ok = (ent and ext) or (withs and not ent)
                    how = "delegated"
            rep.ob("M6-cm-used-through-with", f.where(n), f.scope, unparse(n), ok,
                   "a state-changing context manager is created but neither used as a `with` item, nor returned, nor "
                   "entered in __enter__ and exited in __exit__ of its owner: what it changes is never restored")
            # M7: no yield inside the with body
            if how in ("with", "local-with"):
                w = mod.enclosing(n, (ast.With, ast.AsyncWith)) if how == "with" else None
                if w is not None:
                    ys = [x for s in w.body for x in ast.walk(s) if isinstance(x, (ast.Yield, ast.YieldFrom))]
                    rep.ob("M7-no-yield-inside-with", f.where(w), f.scope, unparse(n), not ys,
                           "a generator is suspended inside `with %s`: the state stays changed between requests" % unparse(n))
    counts["cm_uses"] = uses
    # bare X.__enter__() calls outside __enter__ methods
    for f in src.all_funcs():
        for n in f.own_nodes():
            if isinstance(n, ast.Call) and isinstance(n.func, ast.Attribute) and n.func.attr == "__enter__":
                ok = f.name == "__enter__"
                rep.ob("M6-bare-enter", f.where(n), f.scope, unparse(n), ok,
                       "explicit __enter__() outside an __enter__ method has no language-guaranteed __exit__")


def cm_helpers(src, cm_funcs):
    """Functions that are (transitively) called only from __enter__/__exit__ methods of context-manager classes: they are part
    of the entering / leaving code (a mixin's _save_stty, a helper that edits the control characters ...)."""
    allowed = {f.scope for f in cm_funcs}
    calls = {}       # callee simple name -> set of caller scopes
    for g in src.all_funcs():
        for n in g.own_nodes():
            if isinstance(n, ast.Call):
                nm = n.func.attr if isinstance(n.func, ast.Attribute) else n.func.id if isinstance(n.func, ast.Name) else None
                if nm:
                    calls.setdefault(nm, set()).add(g.scope)
    helpers = set()
    changed = True
    while changed:
        changed = False
        for g in src.all_funcs():
            if g.scope in allowed or g.scope in helpers:
                continue
            name = g.qualname.split(".")[-1]
            if name.startswith("__") and name.endswith("__"):
                continue
            callers = calls.get(name, set())
            if callers and all(c in allowed or c in helpers for c in callers):
                helpers.add(g.scope)
                changed = True
    return helpers


def run_rules(src, rep):
    counts = {"classes": 0}
    cms = cm_classes(src)
    cm_funcs = []
    for m, c, en, ex in cms:
        counts["classes"] += 1
        for f in (src.funcs.get((m, c.name + ".__enter__")), src.funcs.get((m, c.name + ".__exit__"))):
            if f is not None:
                cm_funcs.append(f)
    helpers = cm_helpers(src, cm_funcs)

    class _F:       # helper functions count as entering / leaving code
        def __init__(self, scope):
            self.scope = scope
    check_who_may_call(src, rep, cm_funcs + [_F(s) for s in helpers], counts)
    check_cm_usage(src, rep, {c.name for _, c, _, _ in cms}, counts)
    return counts, cms


def check(src, rep):
    from . import c12sem
    rep.explanation = EXPLANATION
    rep.not_decided = NOT_DECIDED
    rep.assumptions = [
        "Python semantics: `with` calls __exit__ on every exit of its body (normal, return, exception)",
        "the reference OS model (sa/osmodel.py: termios, tty, fcntl, os.pipe/close, signal, select) and terminal model (sa/termmodel.py) "
        "describe what the calls do",
        "an exception arrives in place of an OS call or a terminal write of the body (not between two bytecodes of the restoring code itself)",
    ]
    rep.trusted_base = ["CPython ast", "sa/consteval.py", "sa/absint.py", "sa/objinterp.py", "sa/osmodel.py", "sa/termmodel.py", "sa/winmodel.py"]
    sem = {}
    rep.guard(c12sem.run, src, rep, sem)
    counts, cms = run_rules(src, rep)
    counts.update(sem)
    rep.extracted["context_manager_classes"] = ["%s.%s" % (m, c.name) for m, c, _, _ in cms]
    rep.extracted["counts"] = counts
    rep.floor("context-manager classes", counts["classes"], 8)
    rep.floor("interpreted scenarios", counts.get("scenarios", 0), 500)
    rep.floor("state-changing primitive call sites", counts["primitive_sites"], 12)
    # positive fixtures: the structural rules must fire on a known-bad synthetic package
    fx = Source(os.path.join(VERIF, "selftest", "fixtures", "c12"))
    from ..report import Report
    frep = Report("C12", "fixture", fx.repo)
    run_rules(fx, frep)
    fired = {o.rule for o in frep.obligations if not o.ok}
    for rule in ("M5-who-may-call", "M6-cm-used-through-with", "M7-no-yield-inside-with", "M6-bare-enter", "M5-fd-paired"):
        rep.fixture(rule, rule in fired)
