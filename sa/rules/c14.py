"""C14 - applying or removing formatting touches exactly the named attributes (DESIGN.md section 3, C14: T1..T6)."""
import ast
import itertools

from ..absint import FoldedRaise
from ..consteval import Partial, PlainText, SymStr, Unknown
from ..objinterp import Obj, ObjInterp
from ..report import AnalysisError
from ..srcmodel import strip_cast, unparse

EXPLANATION = (
    "The formatting API is table driven, so it is decided on its whole finite spelling domain by object-aware abstract "
    "interpretation (constant-propagation domain, symbolic text): T1 every fmtfuncs helper applied to text gives exactly "
    "the attribute its name says (alias on_dark == on_black); T-spell all spellings of every attribute value (positional "
    "name, fg=/bg= name, fg=/bg= number, style=, keyword style, helper) give identical results; T-override applying any "
    "single attribute or combination to FmtStrs of 1-2 runs drawn from a small attribute domain overrides exactly the "
    "named attributes on every run and keeps text and run count; T-remove new_with_atts_removed over all 1-3 element name "
    "sets deletes exactly those names on every run; T-newstr copy_with_new_str keeps a uniformly formatted string's "
    "formatting (also with empty unformatted runs around); T4 every entry of a catalogue of unknown / contradictory / "
    "mis-typed specifications raises ValueError (mixed case: ValueError or acceptance); T5 guard-key == lookup-key for "
    "every `k in TABLE`-guarded `TABLE[...]` in the package; T6 shared_atts over 1-3 run layouts (empty runs included) "
    "only reports values every non-empty run has; T2 FrozenAttributes.extend lets the later value win, remove filters."
)
NOT_DECIDED = ("value validation the code does not attempt (bold='x' is accepted); run layouts longer than three runs (the "
               "code is a per-run map, checked structurally to have no filter).")

T = PlainText("T")
T2 = PlainText("U")


def runs_of(obj):
    """[(text, attribute dict)] of a FmtStr Obj."""
    if not (isinstance(obj, Obj) and obj.cls == "FmtStr"):
        raise AnalysisError("expected a FmtStr model value, got %r" % (obj,))
    out = []
    for c in obj.fields.get("chunks", []):
        a = c.fields.get("_atts", c.fields.get("atts"))
        out.append((c.fields.get("_s", c.fields.get("s")), dict(a.payload) if isinstance(a, Obj) else dict(a or {})))
    return out


def mk(it, *runs):
    chunks = [it.new("formatstring", "Chunk", t, dict(a)) for t, a in runs]
    return it.new("formatstring", "FmtStr", *chunks)


def call_fmtstr(it, *args, **kw):
    return it.call1("formatstring", "fmtstr", *args, **kw)


def rule_concrete(src, rep, it, fg, bg, sty, counts):
    """T7 / T8 on concrete values.  T7: formatting applied to a value that has ALREADY been looked at (terminal string, length,
    text and width memoised) - what the result displays, not only its run table, must show the new formatting.  T8: formatting
    applied to a str that itself contains escape sequences sets the named attributes on EVERY character (overriding what the
    text said), exactly as applying it to the parsed FmtStr does."""
    from .. import sgr
    from ..models import cells
    from .c13sem import observe
    f = src.func("formatstring", "fmtstr")

    def st(a):
        return sgr.expected_state(a.get("fg"), a.get("bg"), {k: v for k, v in a.items() if k not in ("fg", "bg")})

    def shown(v):
        """[(char, SGR state)] of what str(v) displays, through the reference SGR machine"""
        import re as _re
        r = it.callm(v, "__str__")
        if r[0] != "ok" or not isinstance(r[1], str):
            raise AnalysisError("str() of a result is not evaluable: %s" % (r,))
        out, state, pos = [], sgr.DEFAULT, 0
        for m in _re.finditer("\x1b\\[([0-9;]*)m", r[1]):
            out.extend((ch, state) for ch in r[1][pos:m.start()])
            state = sgr.apply_params(state, [int(x) if x else 0 for x in m.group(1).split(";")] if m.group(1) else [])
            pos = m.end()
        out.extend((ch, state) for ch in r[1][pos:])
        return out

    n = 0
    bases = [[("ab", {})], [("ab", {"fg": 31})], [("a", {"fg": 34, "bold": True}), ("b", {"bg": 41})]]
    ops = [
        ("fmtstr(x, 'blue')", lambda x: it.call1("formatstring", "fmtstr", x, "blue"), {"fg": 34}, ()),
        ("fmtstr(x, bg='green', underline=True)", lambda x: it.call1("formatstring", "fmtstr", x, bg="green", underline=True), {"bg": 42, "underline": True}, ()),
        ("x.copy_with_new_atts(fg=35)", lambda x: it.callm(x, "copy_with_new_atts", fg=35), {"fg": 35}, ()),
        ("x.new_with_atts_removed('fg')", lambda x: it.callm(x, "new_with_atts_removed", "fg"), {}, ("fg",)),
        ("bold(x)", lambda x: ("ok", it.folder.v_call(it.folder.module("fmtfuncs")["bold"], [x], {}, None, {})), {"bold": True}, ()),
    ]
    for runs in bases:
        for label, op, setv, rem in ops:
            for look_first in (False, True):
                x = mk(it, *runs)
                if look_first:
                    observe(it, x)
                try:
                    r = op(x)
                except FoldedRaise as e:
                    r = ("raise", e.name)
                except Unknown as e:
                    raise AnalysisError("%s outside the evaluated subset: %s" % (label, e))
                if r[0] == "opaque":
                    raise AnalysisError("%s outside the evaluated subset: %s" % (label, r[1]))
                n += 1
                rep.case(True)
                want = []
                for t, a in runs:
                    a2 = {k: v for k, v in a.items() if k not in rem}
                    a2.update(setv)
                    want.extend((ch, st(a2)) for ch in t)
                ok = r[0] == "ok" and isinstance(r[1], Obj)
                got = None
                if ok:
                    got = shown(r[1])
                    ok = got == want and [(c, st(dict(e))) for c, e in cells(runs_of(r[1]))] == want
                rep.ob("T7-formatting-shows-on-a-value-already-looked-at", f.where(), f.scope,
                       "%s with x = %s%s" % (label, runs, ", after str(x) / len(x) / x.s / x.width" if look_first else ""), ok,
                       "the result displays %s, expected %s (run table of the result: %s)"
                       % (got, want, runs_of(r[1]) if r[0] == "ok" and isinstance(r[1], Obj) else r), witness={"runs": str(runs), "op": label})
    # T8: text that already contains escape sequences
    texts = ["\x1b[31mab\x1b[39mc", "a\x1b[31mb\x1b[39mc", "\x1b[1mx\x1b[0my", "p\x1b[44mq\x1b[49m", "\x1b[31;1mz\x1b[0m"]
    for text in texts:
        for args, kw, setv in ((("blue",), {}, {"fg": 34}), ((), {"bg": "green"}, {"bg": 42}), (("bold",), {}, {"bold": True})):
            r1 = it.call1("formatstring", "fmtstr", text, *args, **kw)
            p = it.call1("formatstring", "fmtstr", text)
            if r1[0] == "opaque" or p[0] != "ok":
                raise AnalysisError("fmtstr(%r, ...) outside the evaluated subset: %s %s" % (text, r1, p))
            r2 = it.call1("formatstring", "fmtstr", p[1], *args, **kw)
            n += 1
            rep.case(True)
            ok = r1[0] == "ok" and r2[0] == "ok"
            if ok:
                c1, c2 = cells(runs_of(r1[1])), cells(runs_of(r2[1]))
                ok = c1 == c2 and all(set((k, v) for k, v in setv.items()) <= set(e) for _, e in c1)
            rep.ob("T8-formatting-a-str-that-contains-escape-sequences", f.where(), f.scope, "fmtstr(%r, *%r, **%r)" % (text, args, kw), ok,
                   "gives %s; applying the same formatting to fmtstr(text) gives %s; every character must carry %s"
                   % (runs_of(r1[1]) if r1[0] == "ok" else r1, runs_of(r2[1]) if r2[0] == "ok" else r2, setv), witness={"text": text})
    counts["concrete_cases"] = n


def check(src, rep):
    rep.explanation = EXPLANATION
    rep.not_decided = NOT_DECIDED
    rep.assumptions = ["dict construction: later keys win; str.lower/startswith semantics"]
    rep.trusted_base = ["CPython ast", "sa/consteval.py", "sa/absint.py", "sa/objinterp.py"]
    it = ObjInterp(src)
    it.check_views = True
    fold = it.folder
    C = "termformatconstants"
    fg = fold.const(C, "FG_COLORS", dict)
    bg = fold.const(C, "BG_COLORS", dict)
    sty = fold.const(C, "STYLES", dict)
    counts = {}
    rep.guard(rule_t1, src, rep, it, fg, bg, sty, counts)
    rep.guard(rule_spell, src, rep, it, fg, bg, sty, counts)
    rep.guard(rule_override, src, rep, it, fg, bg, sty, counts)
    rep.guard(rule_remove, src, rep, it, fg, bg, sty, counts)
    rep.guard(rule_newstr, src, rep, it, counts)
    rep.guard(rule_t4, src, rep, it, fg, bg, sty, counts)
    rep.guard(rule_guard_key, src, rep, counts)
    rep.guard(rule_t6, src, rep, it, counts)
    rep.guard(rule_lookalikes, src, rep, it, counts)
    rep.guard(rule_t2, src, rep, it, counts)
    rep.guard(rule_structure, src, rep, counts)
    rep.guard(rule_concrete, src, rep, it, fg, bg, sty, counts)
    rep.extracted["counts"] = counts
    rep.floor("fmtfuncs helpers", counts.get("fmtfuncs", 0), 20)
    rep.floor("spellings evaluated", counts.get("spellings", 0), 90)
    rep.floor("guarded table lookups", counts.get("guarded_lookups", 0), 4)


def _expected_for_name(name, fg, bg, sty):
    if name in fg:
        return {"fg": fg[name]}
    if name.startswith("on_") and name[3:] in bg:
        return {"bg": bg[name[3:]]}
    if name in sty:
        return {name: True}
    return None


def _is_helper(v):
    """A public callable defined in fmtfuncs: a functools.partial of fmtstr or a function written out."""
    from ..absint import LocalFunc
    from ..consteval import FuncRef
    return isinstance(v, (Partial, LocalFunc)) or (isinstance(v, FuncRef) and v.mod == "fmtfuncs")


def rule_t1(src, rep, it, fg, bg, sty, counts):
    env = it.folder.module("fmtfuncs")
    from ..consteval import TOP
    unknown = sorted(k for k, v in env.items() if v is TOP and not k.startswith("_"))
    if unknown:
        raise AnalysisError("fmtfuncs: the public names %s are outside the evaluated subset (%s)" % (unknown[:6], it.folder.unknown.get("fmtfuncs", [])[:2]))
    names = [k for k, v in env.items() if _is_helper(v) and not k.startswith("_")]
    counts["fmtfuncs"] = len(names)
    where = "curtsies/fmtfuncs.py"
    seen_attr = set()
    for n in sorted(names):
        p = env[n]
        try:
            r = it.folder.v_call(p, [T], {}, None, {})
            res = ("ok", r)
        except FoldedRaise as e:
            res = ("raise", e.name)
        except Unknown as e:
            raise AnalysisError("fmtfuncs.%s is outside the evaluated subset: %s" % (n, e))
        if n == "plain":
            exp = {}
        elif n == "on_dark":
            exp = _expected_for_name("on_black", fg, bg, sty)   # documented deprecated alias
        else:
            exp = _expected_for_name(n, fg, bg, sty)
        if exp is None:
            rep.ob("T1-helper-name-known", where, "fmtfuncs:%s" % n, "%s = %r" % (n, p), False,
                   "helper %s does not name a colour, an on_<colour> or a style" % n)
            continue
        ok = res[0] == "ok" and runs_of(res[1]) == [(T, exp)]
        rep.ob("T1-helper-does-what-its-name-says", where, "fmtfuncs:%s" % n, "%s = %r" % (n, p), ok,
               "%s('text') gives %s, its name promises attributes %s" % (n, runs_of(res[1]) if res[0] == "ok" else res, exp))
        rep.case(True, {"helper": n, "result": str(exp)} if n in ("red", "on_blue", "bold") else None)
        seen_attr.add(tuple(sorted(exp.items())))
        # ... every time: a call with further names (accepted or rejected) must not change what the next plain call does
        if ok and n != "plain":
            extras = [("bold",) if "bold" not in exp else ("underline",), ("blink", "green", "yellow") if "fg" not in exp else ("blink", "on_green", "on_yellow")]
            for extra in extras:
                try:
                    it.folder.v_call(p, [T] + list(extra), {}, None, {})
                except FoldedRaise:
                    pass
                except Unknown as e:
                    raise AnalysisError("fmtfuncs.%s%r is outside the evaluated subset: %s" % (n, extra, e))
                try:
                    again = ("ok", it.folder.v_call(p, [T], {}, None, {}))
                except FoldedRaise as e:
                    again = ("raise", e.name)
                except Unknown as e:
                    raise AnalysisError("fmtfuncs.%s is outside the evaluated subset: %s" % (n, e))
                ok2 = again[0] == "ok" and runs_of(again[1]) == [(T, exp)]
                rep.case(True)
                if not ok2:
                    rep.ob("T1-helper-does-what-its-name-says", where, "fmtfuncs:%s" % n, "%s('text') after %s('text', %s)" % (n, n, ", ".join(map(repr, extra))), False,
                           "after the call %s('text', %s) a plain %s('text') gives %s, its name promises attributes %s" %
                           (n, ", ".join(map(repr, extra)), n, runs_of(again[1]) if again[0] == "ok" else again, exp))
                    break
    # exhaustiveness: every colour has an fg and an on_ helper, every style has one
    missing = [c for c in fg if c not in names] + ["on_" + c for c in bg if "on_" + c not in names] + [s for s in sty if s not in names]
    rep.ob("T1-helpers-exhaustive", where, "fmtfuncs:<module>", "helpers for every colour / on_colour / style", not missing,
           "no helper for %s" % missing)


def rule_spell(src, rep, it, fg, bg, sty, counts):
    f = src.func("formatstring", "parse_args")
    env = it.folder.module("fmtfuncs")
    n = 0
    for kind, table in (("fg", fg), ("bg", bg)):
        for name, code in sorted(table.items()):
            pos = name if kind == "fg" else "on_" + name
            exp = [(T, {kind: code})]
            spellings = {
                "fmtstr(t, %r)" % pos: ((T, pos), {}),
                "fmtstr(t, %s=%r)" % (kind, name): ((T,), {kind: name}),
                "fmtstr(t, %s=%d)" % (kind, code): ((T,), {kind: code}),
                "fmtstr(t, style=%r)" % pos: ((T,), {"style": pos}),
            }
            for label, (a, k) in spellings.items():
                n += 1
                r = call_fmtstr(it, *a, **k)
                if r[0] == "opaque":
                    raise AnalysisError("fmtstr outside the evaluated subset for %s: %s" % (label, r[1]))
                ok = r[0] == "ok" and runs_of(r[1]) == exp
                rep.ob("T-spell-equivalent-spellings", f.where(), f.scope, label, ok,
                       "%s gives %s, expected exactly %s" % (label, runs_of(r[1]) if r[0] == "ok" else r, exp[0][1]))
                rep.case(True)
    for name in sorted(sty):
        for val in (True, False):
            exp = [(T, {name: val})]
            spellings = {"fmtstr(t, %s=%r)" % (name, val): ((T,), {name: val})}
            if val:
                spellings["fmtstr(t, %r)" % name] = ((T, name), {})
                spellings["fmtstr(t, style=%r)" % name] = ((T,), {"style": name})
            for label, (a, k) in spellings.items():
                n += 1
                r = call_fmtstr(it, *a, **k)
                if r[0] == "opaque":
                    raise AnalysisError("fmtstr outside the evaluated subset for %s: %s" % (label, r[1]))
                ok = r[0] == "ok" and runs_of(r[1]) == exp
                rep.ob("T-spell-equivalent-spellings", f.where(), f.scope, label, ok,
                       "%s gives %s, expected exactly %s" % (label, runs_of(r[1]) if r[0] == "ok" else r, exp[0][1]))
                rep.case(True)
    # combinations in every order give the union
    combos = [(("red", "on_blue", "bold"), {}), (("bold", "on_blue", "red"), {}), (("on_blue",), {"fg": "red", "bold": True}),
              ((), {"fg": 31, "bg": "blue", "style": "bold"}), (("underline",), {"style": "red", "bg": 44, "bold": True})]
    for a, k in combos:
        n += 1
        r = call_fmtstr(it, T, *a, **k)
        got = runs_of(r[1])[0][1] if r[0] == "ok" else r
        exp = {"fg": 31, "bg": 44, "bold": True}
        if "underline" in a:
            exp["underline"] = True
        rep.ob("T-spell-combinations", f.where(), f.scope, "fmtstr(t, *%r, **%r)" % (a, k), got == exp,
               "gives %s, expected %s" % (got, exp))
    counts["spellings"] = n


DOMAIN = [{}, {"fg": 31}, {"bg": 44, "bold": True}, {"fg": 32, "bg": 41, "underline": True, "bold": False}]


def rule_override(src, rep, it, fg, bg, sty, counts):
    f = src.func("formatstring", "FmtStr.copy_with_new_atts")
    news = [{"fg": 34}, {"bg": 45}, {"bold": True}, {"bold": False}, {"underline": True, "fg": 31}, {}]
    n = 0
    for a1, a2 in itertools.product(DOMAIN, repeat=2):
        for new in news:
            for layout in ((a1,), (a1, a2)):
                n += 1
                texts = [T, T2][:len(layout)]
                obj = mk(it, *zip(texts, layout))
                before = runs_of(obj)
                # through the method and through fmtstr(existing, **kw)
                for label, r in (("copy_with_new_atts", it.call1("formatstring", "FmtStr.copy_with_new_atts", obj, **new)),
                                 ("fmtstr(existing, ...)", call_fmtstr(it, obj, **new))):
                    if r[0] == "opaque":
                        raise AnalysisError("%s outside the evaluated subset: %s" % (label, r[1]))
                    exp = [(t, dict(a, **new)) for t, a in before]
                    ok = r[0] == "ok" and runs_of(r[1]) == exp and all(x[0] is y[0] for x, y in zip(runs_of(r[1]), exp))
                    if not ok or n % 37 == 0:
                        rep.ob("T-override-exactly-named", f.where(), f.scope, "%s: runs %s + %s" % (label, [a for _, a in before], new), ok,
                               "result %s, expected every run to keep its text and get %s overridden (%s)"
                               % (runs_of(r[1]) if r[0] == "ok" else r, new, exp), witness={"runs": str(before), "new": new})
                    ok2 = runs_of(obj) == before
                    if not ok2:
                        rep.ob("T-override-operand-unchanged", f.where(), f.scope, "%s: runs %s + %s" % (label, [a for _, a in before], new), False,
                               "the operand itself changed to %s" % runs_of(obj))
                    rep.case(bool(new))
    rep.ob("T-override-exactly-named", f.where(), f.scope, "%d layouts x new attribute sets" % n, True)
    counts["override_cases"] = n


def rule_remove(src, rep, it, fg, bg, sty, counts):
    f = src.func("formatstring", "FmtStr.new_with_atts_removed")
    names = ["fg", "bg", "bold", "underline"]
    n = 0
    bad = 0
    for a1, a2 in itertools.product(DOMAIN, repeat=2):
        for k in (1, 2, 3):
            for rm in itertools.combinations(names, k):
                n += 1
                obj = mk(it, (T, a1), (T2, a2))
                before = runs_of(obj)
                r = it.call1("formatstring", "FmtStr.new_with_atts_removed", obj, *rm)
                if r[0] == "opaque":
                    raise AnalysisError("new_with_atts_removed outside the evaluated subset: %s" % r[1])
                exp = [(t, {x: v for x, v in a.items() if x not in rm}) for t, a in before]
                ok = r[0] == "ok" and runs_of(r[1]) == exp
                rep.case(True)
                if not ok:
                    bad += 1
                    if bad <= 3:
                        rep.ob("T-remove-exactly-named", f.where(), f.scope, "runs %s minus %s" % ([a for _, a in before], list(rm)), False,
                               "result %s, expected %s" % (runs_of(r[1]) if r[0] == "ok" else r, [a for _, a in exp]),
                               witness={"runs": str(before), "removed": list(rm)})
    if not bad:
        rep.ob("T-remove-exactly-named", f.where(), f.scope, "%d (layout, name set) cases" % n, True)
    counts["remove_cases"] = n


def rule_newstr(src, rep, it, counts):
    f = src.func("formatstring", "FmtStr.copy_with_new_str")
    new = PlainText("N")
    uni = [{"fg": 31}, {"fg": 32, "bold": True, "bg": 44}, {}]
    n = 0
    for a in uni:
        layouts = {
            "one run": [("ab", a)],
            "two runs, same formatting": [("ab", a), ("cd", a)],
            "leading empty unformatted run": [("", {}), ("ab", a)],
            "trailing empty unformatted run": [("ab", a), ("", {})],
            "empty runs on both sides": [("", {}), ("ab", a), ("", {})],
        }
        for label, runs in layouts.items():
            n += 1
            obj = mk(it, *runs)
            r = it.call1("formatstring", "FmtStr.copy_with_new_str", obj, new)
            if r[0] == "opaque":
                raise AnalysisError("copy_with_new_str outside the evaluated subset: %s" % r[1])
            ok = r[0] == "ok" and runs_of(r[1]) == [(new, a)]
            rep.ob("T-newstr-keeps-uniform-formatting", f.where(), f.scope, "%s with formatting %s" % (label, a), ok,
                   "copy_with_new_str on a uniformly formatted string (%s) gives %s, expected the new text with %s"
                   % (label, runs_of(r[1]) if r[0] == "ok" else r, a), witness={"runs": str(runs)})
            rep.case(True)
    counts["newstr_cases"] = n


INVALID = [
    ("unknown positional name", ("bogus",), {}),
    ("empty positional name", ("",), {}),
    ("positional on_ without colour", ("on_",), {}),
    ("positional on_<unknown>", ("on_bogus",), {}),
    ("non-str positional", (31,), {}),
    ("None positional", (None,), {}),
    ("unknown keyword", (), {"colour": "red"}),
    ("fg unknown name", (), {"fg": "bogus"}),
    ("fg number out of range", (), {"fg": 99}),
    ("fg given a bg number", (), {"fg": 44}),
    ("bg unknown name", (), {"bg": "on_blue"}),
    ("bg number out of range", (), {"bg": 7}),
    ("bg given an fg number", (), {"bg": 31}),
    ("fg twice: two positionals", ("red", "blue"), {}),
    ("fg twice: positional + keyword", ("red",), {"fg": "blue"}),
    ("fg twice: style + keyword", (), {"style": "red", "fg": "blue"}),
    ("bg twice: two positionals", ("on_red", "on_blue"), {}),
    ("bg twice: positional + keyword", ("on_red",), {"bg": "blue"}),
    ("style unknown", (), {"style": "bogus"}),
    ("style empty string", (), {"style": ""}),
    ("style None", (), {"style": None}),
    ("style number", (), {"style": 1}),
    ("style False", (), {"style": False}),
    ("fg None", (), {"fg": None}),
    # mis-typed values that are tuples (an error message built with % must not choke on them)
    ("tuple positional", (("red", "bold"),), {}),
    ("style empty tuple", (), {"style": ()}),
    ("fg tuple", (), {"fg": (31, 1)}),
    ("bg empty tuple", (), {"bg": ()}),
    # a style switched on by a mixed-case name and off by keyword: wrong in either reading of mixed case
    ("mixed-case style on, keyword off", ("BOLD",), {"bold": False}),
    ("mixed-case style= on, keyword off", (), {"style": "Underline", "underline": False}),
]
MIXED_CASE = [("RED",), ("Red",), ("ON_BLUE",), ("On_Blue",), ("BOLD",), ("on_BLUE",)]


def rule_t4(src, rep, it, fg, bg, sty, counts):
    f = src.func("formatstring", "parse_args")
    for label, a, k in INVALID:
        r = call_fmtstr(it, T, *a, **k)
        if r[0] == "opaque":
            raise AnalysisError("fmtstr outside the evaluated subset for %s: %s" % (label, r[1]))
        ok = r == ("raise", "ValueError")
        rep.ob("T4-invalid-spec-raises-ValueError", f.where(), f.scope, "%s: fmtstr(t, *%r, **%r)" % (label, a, k), ok,
               "%s must raise ValueError; it %s" % (label, "raises %s" % r[1] if r[0] == "raise" else
                                                   "is accepted as %s" % runs_of(r[1])), witness={"args": a, "kwargs": k})
        rep.case(True)
    for a in MIXED_CASE:
        r = call_fmtstr(it, T, *a)
        if r[0] == "opaque":
            raise AnalysisError("fmtstr outside the evaluated subset for %r: %s" % (a, r[1]))
        exp = _expected_for_name(a[0].lower(), fg, bg, sty)
        ok = r == ("raise", "ValueError") or (r[0] == "ok" and runs_of(r[1]) == [(T, exp)])
        rep.ob("T4-mixed-case-ValueError-or-accepted", f.where(), f.scope, "fmtstr(t, %r)" % a[0], ok,
               "a mixed-case name must either raise ValueError or mean the same as its lower-case spelling; it %s"
               % ("raises %s" % r[1] if r[0] == "raise" else "gives %s" % runs_of(r[1])), witness={"args": a})
        rep.case(True)
    # the colour helpers are spellings of fg= / bg=: naming the same attribute again, in any spelling, is a contradiction
    env = it.folder.module("fmtfuncs")
    n_h = 0
    for name, p in sorted(env.items()):
        if not _is_helper(p) or name.startswith("_"):
            continue
        if name in fg:
            other = [c for c in sorted(fg) if c != name][0]
            again = [((other,), {}), ((), {"fg": other}), ((), {"fg": fg[other]}), ((name,), {}), ((), {"fg": name})]
        elif name.startswith("on_") and name[3:] in bg:
            other = [c for c in sorted(bg) if c != name[3:]][0]
            again = [(("on_" + other,), {}), ((), {"bg": other}), ((), {"bg": bg[other]}), ((), {"bg": name[3:]})]
        else:
            continue
        for a, k in again:
            try:
                v = it.folder.v_call(p, [T] + list(a), dict(k), None, {})
                r = ("ok", v)
            except FoldedRaise as e:
                r = ("raise", e.name)
            except Unknown as e:
                raise AnalysisError("fmtfuncs.%s outside the evaluated subset: %s" % (name, e))
            n_h += 1
            rep.ob("T4-helper-plus-same-attribute-raises-ValueError", "curtsies/fmtfuncs.py", "fmtfuncs:%s" % name,
                   "%s(t, *%r, **%r)" % (name, a, k), r == ("raise", "ValueError"),
                   "%s already names the %s colour: giving it again must raise ValueError (as fmtstr(t, %r, ...) does); it %s"
                   % (name, "foreground" if name in fg else "background", name,
                      "raises %s" % r[1] if r[0] == "raise" else "is accepted as %s" % runs_of(r[1])), witness={"helper": name, "args": a, "kwargs": k})
            rep.case(True)
    counts["helper_contradictions"] = n_h
    # the same contradiction spelled through style= (a functools.partial lets a call-time keyword replace the bound one)
    silent = []
    for name, p in sorted(env.items()):
        if not _is_helper(p) or name.startswith("_"):
            continue
        if name in fg:
            other = [c for c in sorted(fg) if c != name][0]
        elif name.startswith("on_") and name[3:] in bg:
            other = "on_" + [c for c in sorted(bg) if c != name[3:]][0]
        else:
            continue
        try:
            v = it.folder.v_call(p, [T], {"style": other}, None, {})
            r = ("ok", v)
        except FoldedRaise as e:
            r = ("raise", e.name)
        except Unknown as e:
            raise AnalysisError("fmtfuncs.%s outside the evaluated subset: %s" % (name, e))
        rep.case(True)
        if r != ("raise", "ValueError"):
            silent.append((name, other, r))
    rep.ob("T4-helper-plus-style-of-same-attribute-raises-ValueError", "curtsies/fmtfuncs.py", "fmtfuncs:<colour helpers>",
           "colour helper called with style=<another colour of the same kind>", not silent,
           "%s(t, style=%r) %s instead of raising ValueError: the helper's own colour is silently replaced (%d helpers behave so)"
           % ((silent[0][0], silent[0][1], "gives %s" % runs_of(silent[0][2][1]) if silent[0][2][0] == "ok" else "raises %s" % silent[0][2][1], len(silent))
              if silent else ("", "", "", 0)), witness={"helper": silent[0][0], "kwargs": {"style": silent[0][1]}} if silent else None)
    for label, a, k, rule in (
            ("a style switched on by name and off by keyword", ("bold",), {"bold": False}, "T4-contradictory-style-raises-ValueError"),
            ("a style switched on through style= and off by keyword", (), {"style": "underline", "underline": False}, "T4-contradictory-style-raises-ValueError"),
            ("a style keyword with a non-boolean value", (), {"bold": "yes"}, "T4-mistyped-style-value-raises-ValueError")):
        r = call_fmtstr(it, T, *a, **k)
        if r[0] == "opaque":
            raise AnalysisError("fmtstr outside the evaluated subset for %s: %s" % (label, r[1]))
        rep.ob(rule, f.where(), f.scope, "%s: fmtstr(t, *%r, **%r)" % (label, a, k), r == ("raise", "ValueError"),
               "%s must raise ValueError; it %s" % (label, "raises %s" % r[1] if r[0] == "raise" else "is accepted as %s" % runs_of(r[1])),
               witness={"args": a, "kwargs": k})
        rep.case(True)
    # bad first argument
    r = call_fmtstr(it, 42)
    rep.ob("T4-non-text-raises-ValueError", f.where(), "formatstring:fmtstr", "fmtstr(42)", r == ("raise", "ValueError"),
           "fmtstr of a non-str, non-FmtStr must raise ValueError; it gives %s" % (r,))
    counts["invalid_specs"] = len(INVALID) + len(MIXED_CASE)


def rule_guard_key(src, rep, counts):
    """Rule G: where `E1 in TABLE` guards a lookup `TABLE[E2]`, E2 must be E1 (modulo cast)."""
    n = 0
    for f in src.all_funcs():
        for node in f.own_nodes():
            if not isinstance(node, ast.If):
                continue
            tests = node.test.values if isinstance(node.test, ast.BoolOp) and isinstance(node.test.op, ast.And) else [node.test]
            for t in tests:
                if isinstance(t, ast.Compare) and len(t.ops) == 1 and isinstance(t.ops[0], ast.In) and \
                        isinstance(t.comparators[0], ast.Name) and t.comparators[0].id.isupper():
                    tbl = t.comparators[0].id
                    key = unparse(strip_cast(t.left))
                    for st in node.body:
                        for m in ast.walk(st):
                            if isinstance(m, ast.Subscript) and isinstance(m.value, ast.Name) and m.value.id == tbl and \
                                    isinstance(m.ctx, ast.Load):
                                used = unparse(strip_cast(m.slice))
                                n += 1
                                rep.ob("T5-guard-key-is-lookup-key", f.where(m), f.scope, "%s in %s guards %s[%s]" % (key, tbl, tbl, used),
                                       key == used,
                                       "membership of `%s` is tested but `%s` is looked up: when they differ (e.g. by case) "
                                       "the lookup raises KeyError instead of the ValueError/acceptance the test promises" % (key, used),
                                       witness={"example": "fmtstr('a', 'RED')" if "lower" in key else None})
    counts["guarded_lookups"] = n


def rule_t6(src, rep, it, counts):
    f = src.func("formatstring", "FmtStr.shared_atts")
    dom = [{}, {"fg": 31}, {"fg": 31, "bold": True}, {"fg": 32, "bold": True}, {"bold": False, "fg": 31}]
    n = bad = 0
    layouts = []
    for a in dom:
        layouts.append([("ab", a)])
    for a, b in itertools.product(dom, repeat=2):
        layouts.append([("ab", a), ("cd", b)])
        layouts.append([("", a), ("cd", b)])
        layouts.append([("ab", a), ("", b)])
    for a, b, c in itertools.product(dom[:4], repeat=3):
        layouts.append([("ab", a), ("", b), ("cd", c)])
    for runs in layouts:
        n += 1
        obj = mk(it, *runs)
        def read():
            try:
                return ("ok", it.folder.obj_attr(obj, "shared_atts"))
            except FoldedRaise as e:
                return ("raise", e.name)
            except Unknown as e:
                raise AnalysisError("shared_atts outside the evaluated subset: %s" % e)
        r = read()
        if r[0] != "ok":
            ok = False
            why = "raises %s" % r[1]
        else:
            res = dict(r[1].payload) if isinstance(r[1], Obj) else dict(r[1])
            nonempty = [a for t, a in runs if len(t) > 0]
            wrong = {k: v for k, v in res.items() if any(k not in a or a[k] != v for a in nonempty)}
            ok = not wrong
            why = "reports %s although not every character has it" % wrong
            if ok and isinstance(r[1], dict):
                # what a caller does with an answer (the `atts = f.shared_atts; atts['bg'] = 44; fmtstr(x, **atts)` idiom) is the
                # caller's business: the next answer is again what every character has
                r[1]["bg"] = 44
                for k in [k for k in r[1] if k != "bg"][:1]:
                    del r[1][k]
                r2 = read()
                res2 = (dict(r2[1].payload) if isinstance(r2[1], Obj) else dict(r2[1])) if r2[0] == "ok" else r2
                if res2 != res:
                    ok = False
                    why = "reports %s after the caller edited the dict it got from an earlier call; it reported %s before" % (res2, res)
        rep.case(True)
        if not ok:
            bad += 1
            if bad <= 3:
                rep.ob("T6-shared-atts-sound", f.where(), f.scope, "runs %s" % runs, False, "shared_atts %s" % why, witness={"runs": str(runs)})
    if not bad:
        rep.ob("T6-shared-atts-sound", f.where(), f.scope, "%d run layouts (1-3 runs, empty runs included)" % n, True)
    counts["shared_atts_layouts"] = n


def rule_lookalikes(src, rep, it, counts):
    """T9: formatting a FmtStr gives that FmtStr's runs plus the named attributes - also when another FmtStr that merely DISPLAYS the
    same (and therefore compares and hashes equal) was formatted just before in the same process."""
    f = src.func("formatstring", "fmtstr")
    pairs = [({"bold": False}, {}), ({"fg": 31, "underline": False}, {"fg": 31}), ({}, {"blink": False})]
    n = 0
    for a, b in pairs:
        for first, second in ((a, b), (b, a)):
            x, y = mk(it, ("hey", first)), mk(it, ("hey", second))
            call_fmtstr(it, x)
            call_fmtstr(it, x, "on_blue")
            for label, r, exp in (("fmtstr(g)", call_fmtstr(it, y), dict(second)), ("fmtstr(g, 'on_blue')", call_fmtstr(it, y, "on_blue"), dict(second, bg=44))):
                if r[0] == "opaque":
                    raise AnalysisError("fmtstr of a FmtStr outside the evaluated subset: %s" % r[1])
                n += 1
                rep.case(True)
                ok = r[0] == "ok" and runs_of(r[1]) == [("hey", exp)]
                rep.ob("T9-formatting-a-value-does-not-depend-on-look-alikes", f.where(), f.scope,
                       "%s with g = 'hey' %s, right after the same calls on f = 'hey' %s (f and g display the same)" % (label, second, first), ok,
                       "gives %s, expected the attributes %s" % (runs_of(r[1]) if r[0] == "ok" else r, exp), witness={"first": str(first), "second": str(second)})
    counts["lookalike_calls"] = n


def rule_t2(src, rep, it, counts):
    f = src.func("formatstring", "FrozenAttributes.extend")
    base = it.new("formatstring", "FrozenAttributes", {"fg": 31, "bold": True})
    r = it.call1("formatstring", "FrozenAttributes.extend", base, {"fg": 34, "bg": 44})
    ok = r[0] == "ok" and isinstance(r[1], Obj) and r[1].payload == {"fg": 34, "bold": True, "bg": 44} and r[1] is not base and \
        base.payload == {"fg": 31, "bold": True}
    rep.ob("T2-extend-later-value-wins", f.where(), f.scope, "{fg:31,bold}.extend({fg:34,bg:44})", ok,
           "extend must build a new dict in which the new value overrides the old one; got %s" % (r,))
    g = src.func("formatstring", "FrozenAttributes.remove")
    r = it.call1("formatstring", "FrozenAttributes.remove", base, "fg", "nope")
    ok = r[0] == "ok" and isinstance(r[1], Obj) and r[1].payload == {"bold": True} and base.payload == {"fg": 31, "bold": True}
    rep.ob("T2-remove-filters-named", g.where(), g.scope, "{fg:31,bold}.remove('fg','nope')", ok,
           "remove must build a new dict without exactly the named keys; got %s" % (r,))


def rule_structure(src, rep, counts):
    """The per-run maps have no filter and cover self.chunks (so the bounded layouts above generalise)."""
    for qn in ("FmtStr.copy_with_new_atts", "FmtStr.new_with_atts_removed"):
        f = src.func("formatstring", qn)
        comps = [n for n in f.own_nodes() if isinstance(n, (ast.GeneratorExp, ast.ListComp))]
        loops = [n for n in f.own_nodes() if isinstance(n, ast.For)]
        ok = False
        why = "no comprehension/loop over self.chunks found"
        for c in comps:
            g = c.generators[0]
            if unparse(g.iter) == "self.chunks" and len(c.generators) == 1:
                ok = not g.ifs
                why = "runs are filtered by `%s`: text is lost" % " and ".join(unparse(i) for i in g.ifs)
        for lp in loops:
            if unparse(lp.iter) == "self.chunks":
                ok = True
        rep.ob("T3-map-over-all-runs", f.where(), f.scope, qn, ok, why)
