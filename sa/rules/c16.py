"""C16 - linesplit word-wraps without losing, reordering or restyling words (bounded; DESIGN.md section 3, C16)."""
import itertools
import re

from ..fold import new_interp
from ..models import cells, runs_of
from ..objinterp import Obj
from ..report import AnalysisError
from .c14 import mk

EXPLANATION = (
    "BOUNDED catalogue, oracle = the clauses of the statement checked on the OUTPUT (no second implementation of the wrapping): "
    "linesplit (and FmtStr.__getitem__, shared_atts, fmtstr ... whatever it calls) is abstractly interpreted for every text of up "
    "to 5 symbols over {a, b, space, tab} (thorough: 6; plus newline and U+3000; longer ones thinned out deterministically), given as a str and as two FmtStr run layouts whose "
    "formatting changes inside words and inside whitespace runs (and a uniformly formatted layout with an empty run inside a gap), a set of longer hand-written texts, and every columns in 1..6 "
    "and 9 (quick: 1, 2, 3, 5, 9).  Checked on each result: it is a list of FmtStr; no line is longer than `columns`; no line is empty, starts or ends "
    "with whitespace; the non-whitespace characters of all lines, in order, are exactly those of the text with their formatting; "
    "inside a line, words are separated by exactly one space whose formatting is the shared formatting of the whitespace it "
    "replaces (never an attribute none of it had); a line break falls between two words only when the next word did not fit "
    "(len(line) + 1 + len(word) > columns); a word longer than `columns` is cut into full-length pieces and only its last piece may "
    "be followed by another word on the same line; a text without words gives no lines."
)
NOT_DECIDED = "longer texts and wider limits; whitespace kinds beyond the sampled ones (space, tab, newline, U+3000, U+2003, U+2028, U+00A0, U+001C)."

A1, A2, A3 = {"fg": 31}, {"bg": 44, "bold": True}, {"fg": 31, "underline": True}

GROUPS = {
    "W1-lines-fit-and-are-trimmed": "length and edges of every line of the catalogue",
    "W2-words-kept-in-order-with-their-formatting": "non-whitespace characters of the results of the catalogue",
    "W3-one-space-between-words-formatted-like-the-gap": "separators inside lines of the catalogue",
    "W4-breaks-only-when-the-next-word-does-not-fit": "line breaks of the catalogue",
    "W5-long-words-cut-into-full-length-pieces": "words longer than the limit in the catalogue",
    "W6-no-words-no-lines": "texts without words in the catalogue",
    "W7-a-call-does-not-depend-on-earlier-calls": "pairs of calls, one after the other in the same process",
}


def layouts(text):
    yield "str", text
    if text:
        k = max(1, len(text) // 2)
        yield "two runs", [(text[:k], A1), (text[k:], A2)]
        yield "three runs", [(text[:1], A3), (text[1:k + 1], {}), (text[k + 1:], A2)]
        # an empty run in the middle of a whitespace gap that is otherwise uniformly formatted
        for j in range(1, len(text)):
            if text[j - 1].isspace() and text[j].isspace():
                yield "a uniformly formatted value with an empty run inside a gap", [(text[:j], A2), ("", {}), (text[j:], A2)]
                yield "a uniformly formatted value with an empty, differently formatted run inside a gap", [(text[:j], A2), ("", {"underline": True, "fg": 31}), (text[j:], A2)]
                break
        if len(text) >= 2 and not text[:1].isspace():
            # arrived at through a history: a plain str + a value whose views were memoised first
            yield "a plain str + a looked-at value", ("history", text[:1], [(text[1:k + 1], A1), (text[k + 1:], A2)] if text[k + 1:] else [(text[1:], A1)])
        # every gap uniformly formatted, but each gap with its own value of the same attribute (words plain)
        segs = re.findall(r"\s+|\S+", text)
        if sum(1 for x in segs if x.isspace()) >= 2:
            colours = itertools.cycle(({"fg": 31}, {"fg": 34}, {"fg": 31, "bold": True}))
            yield "a value whose gaps are formatted red, blue, bold red in turn", [(x, next(colours) if x.isspace() else {}) for x in segs]


def check(src, rep):
    from ..par import pmap
    rep.explanation = EXPLANATION
    rep.not_decided = NOT_DECIDED
    rep.assumptions = ["str.split() semantics for what a word is (maximal runs of non-whitespace)"]
    rep.trusted_base = ["CPython ast", "sa/consteval.py", "sa/absint.py", "sa/objinterp.py"]
    it = new_interp(src, check_views=True)
    f = src.func("formatstring", "linesplit")
    maxlen = 6 if rep.tier == "thorough" else 5
    alphabet = "ab \t" + ("\n\u3000" if rep.tier == "thorough" else "")
    texts = [""]
    for n in range(1, maxlen + 1):
        for tup in itertools.product(alphabet, repeat=n):
            t = "".join(tup)
            # thin out: texts are interesting through their word / gap structure
            if n > (3 if rep.tier == "quick" else 4) and sum(ord(c) * (i + 3) for i, c in enumerate(t)) % (5 if rep.tier == "quick" else 7):
                continue
            texts.append(t)
    texts += [" home    is where the heart-eating mummy is", "aaaa bbbbbbbbbbbbbbb c", "  ", "\t", "a", "abcdefghijkl", "ab  cd\tef \t gh",
              "x " * 8, "abcdef abcdef", "abc de f ghijklmnop q",
              # whitespace is what str.split() / \\s call whitespace, not only the ASCII kinds
              "a\u3000b", "a \u3000b", "\u3000", "a\x1cb", "a\u00a0b", "ab\u2003cd ef", "a\u2028b", "\u3000a\u3000"]
    # a first word longer than a line whose last piece leaves room for the next word
    for n1, n2 in itertools.product((4, 5, 7), (1, 2)):
        texts.append("a" * n1 + " " + "b" * n2)
        texts.append("a" * n1 + "  " + "b" * n2 + " a")
    jobs = []
    for t in texts:
        for kind, val in layouts(t):
            for columns in ((1, 2, 3, 5, 9) if rep.tier == "quick" else (1, 2, 3, 4, 5, 6, 9)):
                jobs.append((t, kind, val, columns))

    def one(job, prebuilt=None):
        text, kind, val, columns = job
        if isinstance(val, tuple) and val and val[0] == "history":
            from .c06 import _look
            r0 = it.callm(_look(it, mk(it, *val[2])), "__radd__", val[1])
            if r0[0] != "ok" or not isinstance(r0[1], Obj):
                return ("W2-words-kept-in-order-with-their-formatting", "%r built as %s" % (text, kind), "building the value gives %s" % (r0,))
            val = [(val[1], {})] + list(val[2])
            if cells(runs_of(r0[1])) != cells(val):
                return None       # concatenation itself is C06's business
            arg = r0[1]
        else:
            arg = prebuilt if prebuilt is not None else val if kind == "str" else mk(it, *val)
        orig = [(ch, ()) for ch in text] if kind == "str" else cells(val)
        r = it.call1("formatstring", "linesplit", arg, columns)
        if r[0] == "opaque":
            return ("error", "linesplit(%r, %d) outside the evaluated subset: %s" % (text, columns, r[1]), "")
        desc = "linesplit(%r%s, %d)" % (text, "" if kind == "str" else " as " + kind, columns)
        words = [(m.start(), m.end()) for m in re.finditer(r"\S+", text)]
        if not words:
            if r == ("ok", []):
                return None
            return ("W6-no-words-no-lines", desc, "a text without words gives %s, expected no lines" % (r[1] if r[0] == "ok" else "raises %s" % r[1],))
        if r[0] != "ok" or not isinstance(r[1], list) or not all(isinstance(x, Obj) and x.cls == "FmtStr" for x in r[1]):
            return ("W2-words-kept-in-order-with-their-formatting", desc, "gives %s" % (r,))
        lines = [cells(runs_of(x)) for x in r[1]]
        ltxt = ["".join(c for c, _ in ln) for ln in lines]
        for ln in ltxt:
            if len(ln) > columns or not ln or ln[0].isspace() or ln[-1].isspace():
                return ("W1-lines-fit-and-are-trimmed", desc, "lines %r: %r is empty, longer than %d or starts / ends with whitespace" % (ltxt, ln, columns))
        flat = [cell for ln in lines for cell in ln if not cell[0].isspace()]
        want = [cell for cell in orig if not cell[0].isspace()]
        if flat != want:
            return ("W2-words-kept-in-order-with-their-formatting", desc, "lines %r hold the non-blank characters %s, the text has %s"
                    % (ltxt, "".join(c for c, _ in flat) if [c for c, _ in flat] != [c for c, _ in want] else [e for _, e in flat], "".join(c for c, _ in want)
                       if [c for c, _ in flat] != [c for c, _ in want] else [e for _, e in want]))
        # walk the lines word by word, aligned with the words of the text
        wi = 0          # index of the word being consumed
        off = 0         # characters of that word already placed (long words are cut)
        for li, ln in enumerate(ltxt):
            pos = 0
            first = True
            while pos < len(ln):
                if ln[pos].isspace():
                    # a separator: exactly one space, formatted like the gap before word wi
                    if pos + 1 < len(ln) and ln[pos + 1].isspace() or ln[pos] != " ":
                        return ("W3-one-space-between-words-formatted-like-the-gap", desc, "lines %r: words are separated by %r" % (ltxt, ln[pos:pos + 2]))
                    gap = orig[words[wi - 1][1]:words[wi][0]]
                    shared = set(gap[0][1])
                    anyatt = set()
                    for _, e in gap:
                        shared &= set(e)
                        anyatt |= set(e)
                    got = set(lines[li][pos][1])
                    uniform = all(e == gap[0][1] for _, e in gap)
                    if not got <= anyatt or (uniform and got != set(gap[0][1])):
                        return ("W3-one-space-between-words-formatted-like-the-gap", desc,
                                "lines %r: the space before %r carries %s, the whitespace it replaces carries %s" % (ltxt, text[words[wi][0]:words[wi][1]], sorted(got), [sorted(e) for _, e in gap]))
                    pos += 1
                    continue
                w = text[words[wi][0]:words[wi][1]]
                rest = w[off:]
                take = ln[pos:]
                m = re.match(r"\S+", take).group(0)
                if not rest.startswith(m):
                    return ("W2-words-kept-in-order-with-their-formatting", desc, "lines %r do not follow the words of the text at %r" % (ltxt, m))
                if not first and off:
                    return ("W5-long-words-cut-into-full-length-pieces", desc, "lines %r: a continuation piece of %r does not start its line" % (ltxt, w))
                if len(m) < len(rest):
                    # the word is cut here: the piece must fill the line completely (and start it when the word is longer than a line)
                    if pos + len(m) != len(ln) or len(ln) != columns or (pos != 0):
                        return ("W5-long-words-cut-into-full-length-pieces", desc, "lines %r: %r is cut although the piece %r does not fill a whole line of %d" % (ltxt, w, m, columns))
                    off += len(m)
                else:
                    off = 0
                    wi += 1
                pos += len(m)
                first = False
            # the break after this line: the next word (or piece) did not fit
            if li + 1 < len(ltxt) and off == 0 and wi < len(words):
                nxt = text[words[wi][0]:words[wi][1]]
                if len(ln) + 1 + len(nxt) <= columns:
                    return ("W4-breaks-only-when-the-next-word-does-not-fit", desc, "lines %r: %r would still have fitted on the line %r (limit %d)" % (ltxt, nxt, ln, columns))
                if len(nxt) > columns and len(ln) + 1 < columns and False:
                    pass
        if wi != len(words) or off:
            return ("W2-words-kept-in-order-with-their-formatting", desc, "lines %r do not hold all words of the text" % (ltxt,))
        return None
    results = pmap(one, jobs, min_chunk=64)
    # histories: a second call in the same process (module-level state the first one left behind) must obey the same clauses
    hist = []
    base = "ab  a b"
    segs = re.findall(r"\s+|\S+", base)
    for c1, c2 in (({"fg": 31}, {"fg": 34}), ({"fg": 34}, {"fg": 31}), ({"bg": 44}, {"bg": 41}), ({"bold": True}, {"bold": True, "fg": 31})):
        first = [(x, c1 if x.isspace() else {}) for x in segs]
        second = [(x, c2 if x.isspace() else A3) for x in segs]
        hist.append((first, second))
    bad = {}
    for first, second in hist:
        for columns in (4, 9):
            it2 = new_interp(src, check_views=True)
            saved, it = it, it2
            try:
                r1 = one((base, "first call", first, columns))
                r2 = one((base, "second call, after linesplit of the same text with gaps formatted %s" % (first[1][1],), second, columns))
            finally:
                it = saved
            rep.case(True)
            if r1 is None and r2 is not None:
                if r2[0] == "error":
                    rep.errors.append(r2[1])
                else:
                    bad.setdefault("W7-a-call-does-not-depend-on-earlier-calls", []).append((r2[1], "[%s] %s" % (r2[0], r2[2])))
    for job, res in zip(jobs, results):
        rep.case(True)
        if res is None:
            continue
        if res[0] == "error":
            rep.errors.append(res[1])
            break
        bad.setdefault(res[0], []).append(res[1:])
    # the same object wrapped twice at the same width, the caller having edited the list the first call returned
    for columns in (4, 9):
        it3 = new_interp(src, check_views=True)
        saved, it = it, it3
        try:
            layout = [(x, {"fg": 34} if x.isspace() else A3) for x in segs]
            v = mk(it, *layout)
            r1 = it.call1("formatstring", "linesplit", v, columns)
            if r1[0] == "ok" and isinstance(r1[1], list) and r1[1]:
                pad = it.call1("formatstring", "fmtstr", "  pad ")
                del r1[1][:1]
                r1[1].append(pad[1])
            r2 = one((base, "the same object wrapped again after the caller edited the list the first call returned", layout, columns), prebuilt=v)
        finally:
            it = saved
        rep.case(True)
        if r2 is not None:
            if r2[0] == "error":
                rep.errors.append(r2[1])
            else:
                bad.setdefault("W7-a-call-does-not-depend-on-earlier-calls", []).append((r2[1], "[%s] %s" % (r2[0], r2[2])))
    for rule, group in GROUPS.items():
        items = bad.get(rule, [])
        if items:
            items.sort(key=lambda x: len(x[0]))
            rep.ob(rule, f.where(), f.scope, group, False, "%s: %s (%d of the catalogue's cases fail this rule)" % (items[0][0], items[0][1], len(items)),
                   witness={"call": items[0][0], "failing": len(items)})
        else:
            rep.ob(rule, f.where(), f.scope, group, True)
    rep.extracted["counts"] = {"cases": len(jobs), "texts": len(texts)}
    rep.floor("cases", len(jobs), 3000)
