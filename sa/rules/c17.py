"""C17 - fmtstr accepts any string: never raises, never loses ordinary text (DESIGN.md section 3, C17: X1..X4)."""
import ast
import re

from .. import regexast as RX
from .. import sgr
from ..absint import exception_matches
from ..consteval import EscText, PlainText, SymStr, TOP, Unknown
from ..fold import new_interp
from ..models import FromStr, Reader, T, T2, cells, parse_args_eval
from ..report import AnalysisError
from ..srcmodel import unparse
from . import tokenizer

EXPLANATION = (
    "X1 exception escape: the call-graph closure of fmtstr(s)/FmtStr.from_str(s) is examined - token_type is abstractly "
    "interpreted for every token shape either tokenizer pattern can produce (every final byte of both command classes, "
    "numeric / empty / non-numeric parameter strings): its outcome must be a list of updates, None, or ValueError (the "
    "only exception parse() converts and from_str catches); every update the reader can emit is pushed through the "
    "extracted from_str fold and parse_args and must be accepted (the fold runs outside the try); peel_off_esc_code has "
    "no explicit raise, int() is applied only to the digit group, group lookups are guarded; parse() wraps token_type in "
    "try/except ValueError.  X2 tokenizer totality and partition (DOTALL, front/seq/rest tiling, tokens start with an "
    "introducer, every ordinary numeric CSI is one token - regular-language inclusion on DFAs).  X3 the fallback only "
    "removes: remove_ansi is re.sub(pattern, '', s) with nothing in the count/flags slots, its pattern's language lies "
    "within ECMA-48 CSI sequences and contains every ordinary numeric CSI.  X4 verbatim path: without 'ESC[' in s the "
    "result is FmtStr(Chunk(s)) with s itself; fmtstr(s) adds no attributes."
    "  X5 small-scope enumeration: fmtstr(s) is interpreted for EVERY string of length <= 4 (thorough: <= 5) over the alphabet "
    "{a, newline, ESC, 0x9b, '[', '1', ';', 'm', 'H'} (thorough: plus an intermediate and a private-parameter byte) - 7390 "
    "(177 156) strings, i.e. well-formed, truncated, nested and malformed sequences in every position - plus real-world "
    "samples: it never raises; without ESC / 0x9b the text comes back verbatim and unformatted; the result's text is the "
    "input with only characters removed, and only characters that lie inside an escape-sequence region (introducer, "
    "parameter / intermediate bytes, one final byte); when all sequences are ordinary numeric 7-bit CSI sequences the text "
    "is exactly the input without them."
)
NOT_DECIDED = ("exactly which characters of malformed/nested sequences are kept when both patterns and the fallback pattern "
               "disagree (a regular-language difference that is decidable but not attempted); re/str internals.")

REF_ECMA_CSI = r"(?:\x9b|\x1b\[)[0-?]*[ -/]*[@-~]"


def _class_chars(rx, sub):
    """Characters of a single character-class group (LITERAL / IN with literals and ranges)."""
    import re._constants as C
    out = set()
    if len(sub) != 1:
        raise AnalysisError("command group is not a single character class")
    op, av = sub[0]
    if op is C.LITERAL:
        return {chr(av)}
    if op is not C.IN:
        raise AnalysisError("command group is not a character class")
    for o, a in av:
        if o is C.LITERAL:
            out.add(chr(a))
        elif o is C.RANGE:
            if a[1] - a[0] > 512:
                raise AnalysisError("command class too large")
            out.update(chr(c) for c in range(a[0], a[1] + 1))
        else:
            raise AnalysisError("command class uses %s" % o)
    return out


def rule_x1(src, rep, it, tm, counts):
    fold = it.folder
    reader = Reader(src, it)
    f = reader.f
    csi, two = tm.csi(), tm.two_byte()
    csi_cmds = sorted(_class_chars(csi["rx"], csi["rx"].group("command")))
    two_cmds = sorted(_class_chars(two["rx"], two["rx"].group("command")))
    counts["csi_final_bytes"] = len(csi_cmds)
    counts["two_byte_final_bytes"] = len(two_cmds)
    emitted = []
    n = 0
    bad = 0

    def run(token, label):
        nonlocal n, bad
        n += 1
        r = reader.token_dict(token)
        if r[0] == "opaque":
            raise AnalysisError("token_type outside the evaluated subset for token %s: %s" % (label, r[1]))
        ok = (r[0] == "ok" and (r[1] is None or isinstance(r[1], list))) or r == ("raise", "ValueError")
        if not ok:
            bad += 1
            if bad <= 4:
                rep.ob("X1-token_type-raises-only-ValueError", f.where(), f.scope, "token %s" % label, False,
                       "token_type %s for a token the tokenizer can produce (%s): parse() converts only ValueError, so "
                       "fmtstr() raises on input containing it" % ("raises %s" % r[1] if r[0] == "raise" else "returns %r" % (r[1],), label),
                       witness={"token": {k: v for k, v in token.items()}, "outcome": repr(r)})
            return
        if r[0] == "ok" and isinstance(r[1], list):
            emitted.extend(u for u in r[1] if isinstance(u, dict))
        rep.case(True, {"token": label, "outcome": repr(r)[:100]} if n % 97 == 1 else None)

    number_shapes = [[], [0], [1], [31], [38], [48], [38, 5, 196], [1, 38], [48, 2], [90], [0, 1, 31, 44], "", ";", "1;", ";1", "1;;2"]
    for ch in csi_cmds:
        for nums in (number_shapes if ch == "m" else ([], [2], "", "1;")):
            tok = {g: "" for g in csi["rx"].groupindex if g not in ("front", "rest")}
            tok.update({"csi": "\x1b[", "command": ch, "numbers": nums, "seq": "\x1b[..%s" % ch})
            run(tok, "CSI numbers=%r final=%r" % (nums, ch))
    for c in range(0, 108):
        tok = {g: "" for g in csi["rx"].groupindex if g not in ("front", "rest")}
        tok.update({"csi": "\x1b[", "command": "m", "numbers": [c], "seq": "\x1b[%dm" % c})
        run(tok, "SGR %d" % c)
        tok2 = dict(tok, numbers=[1, c])
        run(tok2, "SGR 1;%d" % c)
    for ch in two_cmds:
        tok = {g: "" for g in two["rx"].groupindex if g not in ("front", "rest")}
        tok.update({"csi": "\x1b", "command": ch, "seq": "\x1b" + ch})
        run(tok, "two-byte final=%r (groups %s)" % (ch, sorted(tok)))
    if not bad:
        rep.ob("X1-token_type-raises-only-ValueError", f.where(), f.scope, "%d token shapes of both tokenizer patterns" % n, True)
    counts["token_shapes"] = n
    # every emitted update is accepted by from_str (whose token loop runs outside its try block)
    fs = FromStr(src, it)
    uniq = []
    for u in emitted:
        if u not in uniq:
            uniq.append(u)
    counts["reader_updates"] = len(uniq)
    g = fs.f
    badf = None
    for a in uniq:
        for b in uniq:
            r = fs.run([dict(a), T, dict(b), T2])
            rep.case(True)
            if r[0] == "opaque":
                raise AnalysisError("from_str outside the evaluated subset: %s" % r[1])
            if r[0] != "ok" or [u for u, _ in cells(r[1])] != [str(T), str(T2)]:
                badf = ((a, "text", b, "text"), r)
                break
        if badf:
            break
    rep.ob("X1-from_str-accepts-every-reader-update-and-keeps-text", g.where(), g.scope,
           "%d distinct reader updates, all ordered pairs, with text after each" % len(uniq), badf is None,
           "for the token list %s from_str gives %s: it must not raise (its token loop runs outside the try block) and must keep "
           "both text pieces" % (badf[0] if badf else "", badf[1] if badf else ""),
           witness={"tokens": str(badf[0]), "result": str(badf[1])} if badf else None)
    # text survives whatever non-SGR tokens lie between (parse emits nothing for them: adjacent text pieces)
    for label, toks, want in (("adjacent text pieces", [T, T2], [T, T2]), ("text, empty update, text", [T, {}, T2], [T, T2]),
                              ("only text", [T], [T]), ("no tokens at all", [], [])):
        r = fs.run(list(toks))
        if r[0] == "opaque":
            raise AnalysisError("from_str outside the evaluated subset: %s" % r[1])
        ok = r[0] == "ok" and [u for u, _ in cells(r[1])] == [str(x) for x in want]
        rep.ob("X1-every-text-piece-is-kept", g.where(), g.scope, label, ok,
               "for %s from_str gives %s: every character that is not part of an escape sequence must be kept, in order" % (label, r,))
    # fallback: parse raising ValueError -> input with sequences removed, unformatted; anything else must not be swallowed silently
    r = fs.run([], parse_raises="ValueError")
    rep.ob("X3-fallback-strips-input", g.where(), g.scope, "parse() raises ValueError", r == ("ok", [(fs.fallback_marker, {})]),
           "when parse() raises ValueError from_str must return FmtStr(Chunk(remove_ansi(s))); it gives %s" % (r,))
    # structure: parse() wraps token_type in try/except ValueError -> ValueError; from_str catches ValueError around parse
    p = src.func("escseqparse", "parse")
    tcalls = [n2 for n2 in p.own_nodes() if isinstance(n2, ast.Call) and unparse(n2.func) == "token_type"]
    ok = bool(tcalls)
    for c in tcalls:
        tr = p.module.enclosing(c, (ast.Try,))
        in_body = tr is not None and any(any(x is c for x in ast.walk(s)) for s in tr.body)
        handler_ok = in_body and any(exception_matches(h.type, "ValueError") and
                                     all(not isinstance(x, ast.Raise) or (x.exc is not None and unparse(x.exc.func if isinstance(x.exc, ast.Call) else x.exc) == "ValueError")
                                         for x in ast.walk(h)) for h in tr.handlers)
        ok = ok and handler_ok
    rep.ob("X1-parse-converts-to-ValueError", p.where(), p.scope, "try: token_type(token) except ValueError: raise ValueError(...)", ok,
           "parse() must let only ValueError out of token handling")
    for r in [n2 for n2 in p.own_nodes() if isinstance(n2, ast.Raise)]:
        nm = unparse(r.exc.func if isinstance(r.exc, ast.Call) else r.exc) if r.exc is not None else "<re-raise>"
        rep.ob("X1-explicit-raises-are-ValueError", p.where(r), p.scope, unparse(r)[:80], nm in ("ValueError", "<re-raise>"),
               "parse() raises %s, which from_str does not catch" % nm)
    fs = src.func("formatstring", "FmtStr.from_str")
    pcalls = [n2 for n2 in fs.own_nodes() if isinstance(n2, ast.Call) and unparse(n2.func) == "parse"]
    ok = bool(pcalls)
    for c in pcalls:
        tr = fs.module.enclosing(c, (ast.Try,))
        in_body = tr is not None and any(any(x is c for x in ast.walk(s)) for s in tr.body)
        ok = ok and in_body and any(exception_matches(h.type, "ValueError") for h in tr.handlers)
        if ok:
            for h in tr.handlers:
                if exception_matches(h.type, "ValueError"):
                    rets = [x for x in ast.walk(h) if isinstance(x, ast.Return)]
                    raises = [x for x in ast.walk(h) if isinstance(x, ast.Raise)]
                    okh = len(rets) >= 1 and not raises and all(
                        "remove_ansi(%s)" % fs.params()[0] in unparse(x.value) for x in rets)
                    rep.ob("X3-fallback-strips-input", fs.where(h), fs.scope, unparse(rets[0])[:90] if rets else "<no return>", okh,
                           "on a parse error from_str must return the input with escape sequences removed (remove_ansi(s)) and "
                           "must not raise")
    rep.ob("X1-from_str-catches-parse-errors", fs.where(), fs.scope, "try: parse(s) except ValueError: ...", ok,
           "from_str must catch the ValueError of parse()")
    # peel_off_esc_code: no explicit raise; int() only on pieces of the numbers group
    pe = tm.f
    raises = [n2 for n2 in pe.own_nodes() if isinstance(n2, ast.Raise)]
    rep.ob("X1-tokenizer-does-not-raise", pe.where(raises[0]) if raises else pe.where(), pe.scope,
           unparse(raises[0])[:80] if raises else "no raise statement", not raises,
           "peel_off_esc_code is called outside parse()'s try block; an exception here escapes fmtstr()")
    # the numbers group only admits digits and ';'
    num = csi["rx"].group("numbers")
    ref = RX.Regex(r"[0-9;]*", 0)
    if num is not None:
        # unicode decimal digits are accepted by \d and by int(); anything else would make int() raise
        ref2 = RX.Regex(r"[\d;]*", 0)
        w = RX.language_subset(csi["rx"], num, ref2, ref2.tree)
        rep.ob("X1-numbers-group-is-digits", pe.where(csi["call"]), pe.scope, "L(numbers group) within [\\d;]*", w is None,
               "the numbers group accepts %r, on which int() raises ValueError outside any handler" % w, witness={"numbers": w})


def rule_x3(src, rep, fold, counts):
    f = src.func("escseqparse", "remove_ansi")
    uses = tokenizer.regex_uses(src, fold, f, methods=("sub", "subn"))
    if len(uses) != 1:
        raise AnalysisError("remove_ansi: expected exactly one regex substitution, found %d" % len(uses))
    u = uses[0]
    c = u["node"]
    pat = u["pattern"]
    if not isinstance(pat, str):
        raise AnalysisError("remove_ansi: pattern is not constant")
    args = u["args"]           # (repl, string[, count[, flags]]) in both forms
    repl_ok = len(args) >= 1 and isinstance(args[0], ast.Constant) and args[0].value == ""
    rep.ob("X3-replacement-is-empty", f.where(c), f.scope, unparse(c)[:100], repl_ok,
           "remove_ansi must replace with the empty string: anything else adds characters to the text")
    count_kw = [k for k in u["keywords"] if k.arg == "count" and not (isinstance(k.value, ast.Constant) and k.value.value == 0)]
    extra_pos = len(args) > 2
    rep.ob("X3-sub-removes-all-occurrences", f.where(c), f.scope, unparse(c)[:100], not extra_pos and not count_kw and u["method"] == "sub",
           "a further positional argument of sub() is `count`, not `flags` (e.g. re.DOTALL == 16 limits the removal to 16 "
           "sequences): later escape sequences stay in the text")
    subj_ok = len(args) >= 2 and unparse(args[1]) == f.params()[0]
    rets = [n for n in f.own_nodes() if isinstance(n, ast.Return)]
    rep.ob("X3-sub-on-input", f.where(c), f.scope, unparse(c)[:100], subj_ok and len(rets) == 1 and rets[0].value is c,
           "remove_ansi must return the substitution applied to its argument")
    rx = RX.Regex(pat, u["flags"])
    ref = RX.Regex(REF_ECMA_CSI, re.DOTALL)
    w = RX.language_subset(rx, rx.tree, ref, ref.tree)
    rep.ob("X3-fallback-removes-only-CSI", f.where(c), f.scope, "L(%s) within ECMA-48 CSI sequences" % pat, w is None,
           "remove_ansi deletes %r, which is not a CSI escape sequence: ordinary text is lost" % w, witness={"removed": w})
    ref2 = RX.Regex(tokenizer.REF_CSI, re.DOTALL)
    w = RX.language_subset(ref2, ref2.tree, rx, rx.tree)
    rep.ob("X3-fallback-removes-every-numeric-CSI", f.where(c), f.scope, "ordinary numeric CSI within L(%s)" % pat, w is None,
           "remove_ansi does not delete the ordinary sequence %r" % w, witness={"kept": w})
    counts["remove_ansi"] = 1


def rule_x4(src, rep, it, counts):
    fold = it.folder
    f = src.func("formatstring", "FmtStr.from_str")
    from ..models import runs_of
    plain = PlainText("P")
    r = it.call1("formatstring", "FmtStr.from_str", plain)
    if r[0] == "opaque":
        raise AnalysisError("from_str outside the evaluated subset on plain text: %s" % r[1])
    ok = r[0] == "ok" and runs_of(r[1]) == [(plain, {})] and runs_of(r[1])[0][0] is plain
    rep.ob("X4-verbatim-without-escape", f.where(), f.scope, "symbolic text without ESC/0x9b -> FmtStr(Chunk(s))", ok,
           "text without an escape sequence must come back verbatim and unformatted as one run holding the input itself; got %s"
           % ((runs_of(r[1]) if r[0] == "ok" else r),))
    r = it.call1("formatstring", "fmtstr", plain)
    ok = r[0] == "ok" and runs_of(r[1]) == [(plain, {})]
    rep.ob("X4-fmtstr-of-plain-text", f.where(), "formatstring:fmtstr", "fmtstr(<plain text>)", ok,
           "fmtstr(s) of ordinary text must be that text, unformatted; got %s" % ((runs_of(r[1]) if r[0] == "ok" else r),))
    # fmtstr(s): parse_args((), {}) == {} and the result is from_str(s).copy_with_new_atts(**{})
    r = parse_args_eval(it, (), {})
    rep.ob("X4-no-attributes-for-bare-call", src.func("formatstring", "parse_args").where(), "formatstring:parse_args",
           "parse_args((), {}) -> %s" % (r,), r == ("ok", {}), "fmtstr(s) without arguments must not add attributes or raise")
    counts["from_str_outcomes"] = 2


def _regions(s):
    """Index set of characters that may belong to an escape sequence: an introducer (ESC, optionally followed by '[', or
    0x9b) and the longest following run of parameter / intermediate bytes, plus one final byte when there is one.  Everything
    outside is ordinary text beyond doubt."""
    inside = set()
    i = 0
    while i < len(s):
        if s[i] in "\x1b\x9b":
            j = i + 1
            if s[i] == "\x1b" and j < len(s) and s[j] == "[":
                j += 1
            elif s[i] == "\x1b":
                # two-character escape sequence: ESC + one byte 0x40-0x5f other than '[' (or a lone ESC)
                if j < len(s) and "\x40" <= s[j] <= "\x5f":
                    j += 1
                inside.update(range(i, j))
                i = j
                continue
            while j < len(s) and "\x20" <= s[j] <= "\x3f":
                j += 1
            if j < len(s) and "\x40" <= s[j] <= "\x7e":
                j += 1
            inside.update(range(i, j))
            i = j
        else:
            i += 1
    return inside


# an ORDINARY numeric CSI sequence: no parameters, or decimal numbers separated by single semicolons (empty parameters between or
# before semicolons are legal ECMA-48 but not what the statement calls ordinary; the code is not held to them)
_NUMERIC_CSI = re.compile("\x1b\\[(?:[0-9]+(?:;[0-9]+)*)?[\x40-\x7e]")


def rule_small_scope(src, rep, it, counts):
    """X5: fmtstr(s) interpreted for EVERY string up to a length bound over an alphabet of ordinary characters, newline, ESC,
    the 8-bit CSI, '[', a digit, ';' and two final bytes (thorough: also an intermediate and a private-parameter byte)."""
    import itertools
    from ..par import pmap
    from ..models import runs_of
    f = src.func("formatstring", "FmtStr.from_str")
    alphabet = "a\n\x1b\x9b[1;mH" + (" ?" if rep.tier == "thorough" else "")
    maxlen = 5 if rep.tier == "thorough" else 4
    strings = [""]
    for n in range(1, maxlen + 1):
        strings.extend("".join(t) for t in itertools.product(alphabet, repeat=n))
    strings += ["\x1b[38;5;196mred\x1b[0m", "\x1b[m", "\x1b[01;34mdir\x1b[0m/\n", "\x1b[2J\x1b[1;1Hx", "a\x1b[1;31;44mb\x1b[39;49mc\x1b[0m",
                "\x1b[?25lq", "\x1b]0;title\x07z", "\x1b[1m\x1b[1m\x1b[0m", "\x1b[3" + "1" * 30 + "mX"]
    # truncated / look-alike pieces next to sequences that force the fallback path (unsupported SGR codes) and next to newlines
    # ... and ordinary text that means something to str formatting (an error message built from the input must not choke on it)
    pieces = ["", "a", "\x9b", "\x9b1", "\x9b1;", "\x1b", "\x1b[", "\x1b[1", "\x1b[1;", "\x1bM", "\n", "\x1bMfoo\nbar",
              "50% done ", "%s", "%(name)s", "{} {0} {x}", "\\x1b["]
    forcing = ["\x1b[20mX", "\x1b[90mgrey\x1b[0m", "\x1b[1;mY", "\x1b[31mZ\x1b[39m", "\x1b[31\nrest"]
    for p_ in pieces:
        for q_ in forcing:
            strings.append(p_ + q_)
            strings.append(q_ + p_)
            strings.append(p_ + "\n" + q_)

    def one(s):
        r = it.call1("formatstring", "fmtstr", s)
        if r[0] == "opaque":
            return ("error", "fmtstr(%r) outside the evaluated subset: %s" % (s, r[1]))
        if r[0] != "ok":
            return ("X5-never-raises", s, "fmtstr(%r) raises %s" % (s, r[1]))
        runs = runs_of(r[1])
        text = "".join(t for t, _ in runs)
        if "\x1b" not in s and "\x9b" not in s:
            if text != s or any(a for _, a in runs if any(a.values())):
                return ("X5-plain-text-verbatim-and-unformatted", s, "fmtstr(%r) gives %r" % (s, runs))
            return None
        inside = _regions(s)
        # text must be obtainable from s by deleting only characters inside escape-sequence regions
        reach = {0}
        for i, ch in enumerate(s):
            nxt = set()
            for j in reach:
                if j < len(text) and text[j] == ch:
                    nxt.add(j + 1)
                if i in inside:
                    nxt.add(j)
            reach = nxt
            if not reach:
                break
        if len(text) not in reach:
            # distinguish: not even a subsequence?
            k = 0
            for ch in s:
                if k < len(text) and text[k] == ch:
                    k += 1
            if k < len(text):
                return ("X5-text-only-loses-characters", s, "fmtstr(%r) has text %r, which is not %r with characters removed" % (s, text, s))
            return ("X5-ordinary-characters-kept", s, "fmtstr(%r) has text %r: a character that is not part of an escape sequence was dropped" % (s, text))
        if "\x9b" not in s:
            stripped = _NUMERIC_CSI.sub("", s)
            if "\x1b" not in stripped and text != stripped:
                return ("X5-numeric-csi-removed-exactly", s, "fmtstr(%r) has text %r; without its numeric CSI sequences the input is %r" % (s, text, stripped))
        return None
    results = pmap(one, strings, min_chunk=64)
    bad = {}
    for s_, res in zip(strings, results):
        rep.case("\x1b" in s_ or "\x9b" in s_)
        if res is None:
            continue
        if res[0] == "error":
            raise AnalysisError(res[1])
        bad.setdefault(res[0], []).append(res[1:])
    # histories: what fmtstr(s) gives must not depend on what was converted before in the same process
    sgr_hi = "\x1b[31mhi\x1b[39m"
    histories = [
        ("fmtstr(F) for a FmtStr F that holds %r as raw text" % sgr_hi, ("raw", sgr_hi), [sgr_hi]),
        ("fmtstr of a string cut inside a parameter list", ("str", "ok \x1b[3"), ["ok \x1b[31mfailed\n"]),
        ("fmtstr of a string cut after a separator", ("str", "a\x1b[1;"), ["a\x1b[1;31mb"]),
        ("fmtstr of a string cut inside an extended colour", ("str", "\x1b[38;5"), ["\x1b[38;5;196mred\x1b[0m x"]),
        ("the same unsupported sequence twice", ("str", "x\x1b[38my\x1b[3Az"), ["x\x1b[38my\x1b[3Az", "p\x1b[90mq"]),
        ("a supported string twice", ("str", "\x1b[1mb\x1b[0m"), ["\x1b[1mb\x1b[0m", "\x1b[1mb\x1b[0m"]),
    ]
    saved = it
    for title, first, later in histories:
        it = new_interp(src, check_views=True)
        try:
            if first[0] == "raw":
                e = it.call1("formatstring", "fmtstr", "")
                raw = it.callm(e[1], "__add__", first[1]) if e[0] == "ok" else e
                if raw[0] != "ok":
                    raise AnalysisError("building a FmtStr with raw escape text gives %s" % (raw,))
                it.call1("formatstring", "fmtstr", raw[1])
            else:
                it.call1("formatstring", "fmtstr", first[1])
            for s_ in later:
                res = one(s_)
                rep.case(True)
                if res is not None:
                    if res[0] == "error":
                        raise AnalysisError(res[1])
                    bad.setdefault("X6-a-conversion-does-not-depend-on-earlier-ones", []).append((res[1], "after %s: [%s] %s" % (title, res[0], res[2])))
                    break
        finally:
            it = saved
    groups = {"X6-a-conversion-does-not-depend-on-earlier-ones": "fmtstr(s) after other conversions in the same process",
              "X5-never-raises": "fmtstr(s) for every string of the enumeration",
              "X5-plain-text-verbatim-and-unformatted": "strings without ESC / 0x9b in the enumeration",
              "X5-text-only-loses-characters": "result text vs input for every string of the enumeration",
              "X5-ordinary-characters-kept": "characters outside escape sequences for every string of the enumeration",
              "X5-numeric-csi-removed-exactly": "strings whose escape sequences are all numeric CSI sequences"}
    for rule, group in groups.items():
        items = bad.get(rule, [])
        if items:
            items.sort(key=lambda x: (len(x[0]), x[0]))
            rep.ob(rule, f.where(), f.scope, group, False, "%s (%d of %d strings fail this rule)" % (items[0][1], len(items), len(strings)),
                   witness={"input": items[0][0]})
        else:
            rep.ob(rule, f.where(), f.scope, group, True)
    counts["enumerated_strings"] = len(strings)


def check(src, rep):
    rep.explanation = EXPLANATION
    rep.not_decided = NOT_DECIDED
    rep.assumptions = ["int() accepts every string of Unicode decimal digits; re.match/re.sub semantics",
                       "implicit exceptions other than the ones modelled (KeyError on dict lookup, int()) do not occur in "
                       "str/list primitives"]
    rep.trusted_base = ["CPython ast and re._parser", "sa/consteval.py", "sa/absint.py", "sa/regexast.py"]
    it = new_interp(src, check_views=True)
    fold = it.folder
    counts = {}
    tm = rep.guard(tokenizer.rules_tokenizer, src, rep, fold, "X2", counts)
    rep.guard(tokenizer.rules_parse_loop, src, rep, "X2")
    if tm is not None:
        rep.guard(rule_x1, src, rep, it, tm, counts)
    rep.guard(rule_x3, src, rep, fold, counts)
    rep.guard(rule_x4, src, rep, it, counts)
    rep.guard(rule_small_scope, src, rep, it, counts)
    rep.extracted["counts"] = counts
    rep.floor("enumerated strings", counts.get("enumerated_strings", 0), 5000)
    rep.floor("tokenizer patterns", counts.get("tokenizer_patterns", 0), 2)
    rep.floor("token shapes pushed through token_type", counts.get("token_shapes", 0), 300)
    rep.floor("CSI final bytes", counts.get("csi_final_bytes", 0), 63)
