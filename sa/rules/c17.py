"""C17 - fmtstr accepts any string: never raises, never loses ordinary text (DESIGN.md section 3, C17: X1..X4)."""
import ast
import re

from .. import regexast as RX
from .. import sgr
from ..absint import Interp, exception_matches
from ..consteval import Folder, SymStr, TOP, Unknown
from ..models import FromStrFold, Reader, T, parse_args_eval
from ..report import AnalysisError
from ..srcmodel import unparse
from . import tokenizer

EXPLANATION = (
    "X1 exception escape: the call-graph closure of fmtstr(s)/FmtStr.from_str(s) is examined - token_type is abstractly "
    "interpreted for every token shape either tokenizer pattern can produce (every final byte of both command classes, "
    "numeric / empty / non-numeric parameter strings): its outcome must be a list of updates, None, or ValueError (the "
    "only exception parse() converts and from_str catches); every update the reader can emit is pushed through the "
    "extracted from_str fold and parse_args and must be accepted (the fold runs outside the try); peel_off_esc_code has "
    "no explicit raise, int() is applied only to the digit group, group lookups are guarded; parse() wraps token_type in "
    "try/except ValueError.  X2 tokenizer totality and partition (DOTALL, front/seq/rest tiling, tokens start with an "
    "introducer, every ordinary numeric CSI is one token - regular-language inclusion on DFAs).  X3 the fallback only "
    "removes: remove_ansi is re.sub(pattern, '', s) with nothing in the count/flags slots, its pattern's language lies "
    "within ECMA-48 CSI sequences and contains every ordinary numeric CSI.  X4 verbatim path: without 'ESC[' in s the "
    "result is FmtStr(Chunk(s)) with s itself; fmtstr(s) adds no attributes."
)
NOT_DECIDED = ("exactly which characters of malformed/nested sequences are kept when both patterns and the fallback pattern "
               "disagree (a regular-language difference that is decidable but not attempted); re/str internals.")

REF_ECMA_CSI = r"(?:\x9b|\x1b\[)[0-?]*[ -/]*[@-~]"


def _class_chars(rx, sub):
    """Characters of a single character-class group (LITERAL / IN with literals and ranges)."""
    import re._constants as C
    out = set()
    if len(sub) != 1:
        raise AnalysisError("command group is not a single character class")
    op, av = sub[0]
    if op is C.LITERAL:
        return {chr(av)}
    if op is not C.IN:
        raise AnalysisError("command group is not a character class")
    for o, a in av:
        if o is C.LITERAL:
            out.add(chr(a))
        elif o is C.RANGE:
            if a[1] - a[0] > 512:
                raise AnalysisError("command class too large")
            out.update(chr(c) for c in range(a[0], a[1] + 1))
        else:
            raise AnalysisError("command class uses %s" % o)
    return out


def rule_x1(src, rep, fold, tm, counts):
    reader = Reader(src, fold)
    f = reader.f
    csi, two = tm.csi(), tm.two_byte()
    csi_cmds = sorted(_class_chars(csi["rx"], csi["rx"].group("command")))
    two_cmds = sorted(_class_chars(two["rx"], two["rx"].group("command")))
    counts["csi_final_bytes"] = len(csi_cmds)
    counts["two_byte_final_bytes"] = len(two_cmds)
    it = Interp(fold, max_states=64)
    env0 = dict(fold.module("escseqparse"))
    p0 = f.params()[0]
    emitted = []
    n = 0

    def run(token, label):
        nonlocal n
        n += 1
        env = dict(env0)
        env[p0] = token
        outs = it.run_function(f.node, env)
        for o in outs:
            if o.opaque or o.assumptions:
                raise AnalysisError("token_type outside the decision-list subset for token %s: %r" % (label, o))
            ok = o.term == "return" or (o.term == "raise" and o.value == "ValueError")
            if not ok or o.term == "return" and not (o.value is None or isinstance(o.value, list)):
                rep.ob("X1-token_type-raises-only-ValueError", f.where(), f.scope, "token %s" % label, False,
                       "token_type %s for a token the tokenizer can produce (%s): parse() converts only ValueError, so "
                       "fmtstr() raises on input containing it" % ("raises %s" % o.value if o.term == "raise" else "returns %r" % (o.value,), label),
                       witness={"token": {k: v for k, v in token.items()}, "outcome": repr(o)})
                return
            if o.term == "return" and isinstance(o.value, list):
                emitted.extend(u for u in o.value if isinstance(u, dict))
        rep.case(True, {"token": label, "outcome": repr(outs[0])[:100]} if n % 97 == 1 else None)

    # CSI-pattern tokens: groupdict of the CSI pattern, numbers as post-processed by peel_off_esc_code
    number_shapes = [[], [0], [1], [31], [38, 5, 196], [90], [0, 1, 31, 44], "", ";", "1;", ";1", "1;;2"]
    for ch in csi_cmds:
        for nums in (number_shapes if ch == "m" else ([], [2], "", "1;")):
            tok = {g: "" for g in csi["rx"].groupindex if g not in ("front", "rest")}
            tok.update({"csi": "\x1b[", "command": ch, "numbers": nums, "seq": "\x1b[..%s" % ch})
            run(tok, "CSI numbers=%r final=%r" % (nums, ch))
    for c in range(0, 108):
        tok = {g: "" for g in csi["rx"].groupindex if g not in ("front", "rest")}
        tok.update({"csi": "\x1b[", "command": "m", "numbers": [c], "seq": "\x1b[%dm" % c})
        run(tok, "SGR %d" % c)
    # two-byte tokens: ONLY the groups of the two-byte pattern exist
    for ch in two_cmds:
        tok = {g: "" for g in two["rx"].groupindex if g not in ("front", "rest")}
        tok.update({"csi": "\x1b", "command": ch, "seq": "\x1b" + ch})
        run(tok, "two-byte final=%r (groups %s)" % (ch, sorted(tok)))
    rep.ob("X1-token_type-raises-only-ValueError", f.where(), f.scope, "%d token shapes of both tokenizer patterns" % n, True)
    counts["token_shapes"] = n
    # every emitted update is accepted by the fold (which runs outside the try of from_str)
    fsf = FromStrFold(src, fold)
    uniq = []
    for u in emitted:
        if u not in uniq:
            uniq.append(u)
    counts["reader_updates"] = len(uniq)
    g = fsf.f
    bad = None
    states = [{}]
    for u in uniq:
        r = fsf.step({}, u)
        if r[0] == "opaque":
            raise AnalysisError("from_str loop: %s" % r[1])
        if r[0] != "ok":
            bad = (u, r)
            break
        states.append(r[1])
    # pairs of updates then text
    if bad is None:
        for a in uniq:
            for b in uniq:
                st = {}
                for u in (a, b):
                    r = fsf.step(st, u)
                    st = r[1] if r[0] == "ok" else st
                r = fsf.step(st, T)
                rep.case(True)
                if r[0] == "opaque":
                    raise AnalysisError("from_str loop: %s" % r[1])
                if r[0] != "ok":
                    bad = ((a, b, "text"), r)
                    break
            if bad:
                break
    rep.ob("X1-fold-accepts-every-reader-update", g.where(fsf.loop), g.scope,
           "%d distinct updates x pairs x text through the from_str fold and parse_args" % len(uniq), bad is None,
           "the token loop of from_str runs outside its try block and %s for reader output %s: fmtstr() raises on a string "
           "with supported escape sequences" % (("raises %s" % bad[1][1]) if bad else "", bad[0] if bad else ""),
           witness={"tokens": str(bad[0]), "result": str(bad[1])} if bad else None)
    # structure: parse() wraps token_type in try/except ValueError -> ValueError; from_str catches ValueError around parse
    p = src.func("escseqparse", "parse")
    tcalls = [n2 for n2 in p.own_nodes() if isinstance(n2, ast.Call) and unparse(n2.func) == "token_type"]
    ok = bool(tcalls)
    for c in tcalls:
        tr = p.module.enclosing(c, (ast.Try,))
        in_body = tr is not None and any(any(x is c for x in ast.walk(s)) for s in tr.body)
        handler_ok = in_body and any(exception_matches(h.type, "ValueError") and
                                     all(not isinstance(x, ast.Raise) or (x.exc is not None and unparse(x.exc.func if isinstance(x.exc, ast.Call) else x.exc) == "ValueError")
                                         for x in ast.walk(h)) for h in tr.handlers)
        ok = ok and handler_ok
    rep.ob("X1-parse-converts-to-ValueError", p.where(), p.scope, "try: token_type(token) except ValueError: raise ValueError(...)", ok,
           "parse() must let only ValueError out of token handling")
    for r in [n2 for n2 in p.own_nodes() if isinstance(n2, ast.Raise)]:
        nm = unparse(r.exc.func if isinstance(r.exc, ast.Call) else r.exc) if r.exc is not None else "<re-raise>"
        rep.ob("X1-explicit-raises-are-ValueError", p.where(r), p.scope, unparse(r)[:80], nm in ("ValueError", "<re-raise>"),
               "parse() raises %s, which from_str does not catch" % nm)
    fs = src.func("formatstring", "FmtStr.from_str")
    pcalls = [n2 for n2 in fs.own_nodes() if isinstance(n2, ast.Call) and unparse(n2.func) == "parse"]
    ok = bool(pcalls)
    for c in pcalls:
        tr = fs.module.enclosing(c, (ast.Try,))
        in_body = tr is not None and any(any(x is c for x in ast.walk(s)) for s in tr.body)
        ok = ok and in_body and any(exception_matches(h.type, "ValueError") for h in tr.handlers)
        if ok:
            for h in tr.handlers:
                if exception_matches(h.type, "ValueError"):
                    rets = [x for x in ast.walk(h) if isinstance(x, ast.Return)]
                    raises = [x for x in ast.walk(h) if isinstance(x, ast.Raise)]
                    okh = len(rets) >= 1 and not raises and all(
                        "remove_ansi(%s)" % fs.params()[0] in unparse(x.value) for x in rets)
                    rep.ob("X3-fallback-strips-input", fs.where(h), fs.scope, unparse(rets[0])[:90] if rets else "<no return>", okh,
                           "on a parse error from_str must return the input with escape sequences removed (remove_ansi(s)) and "
                           "must not raise")
    rep.ob("X1-from_str-catches-parse-errors", fs.where(), fs.scope, "try: parse(s) except ValueError: ...", ok,
           "from_str must catch the ValueError of parse()")
    # peel_off_esc_code: no explicit raise; int() only on pieces of the numbers group
    pe = tm.f
    raises = [n2 for n2 in pe.own_nodes() if isinstance(n2, ast.Raise)]
    rep.ob("X1-tokenizer-does-not-raise", pe.where(raises[0]) if raises else pe.where(), pe.scope,
           unparse(raises[0])[:80] if raises else "no raise statement", not raises,
           "peel_off_esc_code is called outside parse()'s try block; an exception here escapes fmtstr()")
    for c in [n2 for n2 in pe.own_nodes() if isinstance(n2, ast.Call) and isinstance(n2.func, ast.Name) and n2.func.id in ("int", "float")]:
        comp = pe.module.enclosing(c, (ast.ListComp, ast.GeneratorExp))
        ok = comp is not None and "numbers" in unparse(comp.generators[0].iter) and ".split(';')" in unparse(comp.generators[0].iter).replace('"', "'")
        from ..cfg import lexical_guard
        g2 = lexical_guard(pe.module, c, pe.node)
        ok = ok and any(pol and "all(" in t and "numbers" in t for t, pol in g2)
        rep.ob("X1-int-only-on-digit-group", pe.where(c), pe.scope, unparse(comp if comp is not None else c)[:90], ok,
               "int() must only be applied to the ';'-separated pieces of the digit group, under the all(...) non-empty guard")
    # the numbers group only admits digits and ';'
    num = csi["rx"].group("numbers")
    ref = RX.Regex(r"[0-9;]*", 0)
    if num is not None:
        # unicode decimal digits are accepted by \d and by int(); anything else would make int() raise
        ref2 = RX.Regex(r"[\d;]*", 0)
        w = RX.language_subset(csi["rx"], num, ref2, ref2.tree)
        rep.ob("X1-numbers-group-is-digits", pe.where(csi["call"]), pe.scope, "L(numbers group) within [\\d;]*", w is None,
               "the numbers group accepts %r, on which int() raises ValueError outside any handler" % w, witness={"numbers": w})


def rule_x3(src, rep, fold, counts):
    f = src.func("escseqparse", "remove_ansi")
    calls = tokenizer._regex_calls(src, f, names=("sub", "subn"))
    if len(calls) != 1:
        raise AnalysisError("remove_ansi: expected exactly one re.sub call, found %d" % len(calls))
    kind, c = calls[0]
    pat = tokenizer.fold_local(fold, f, c.args[0]) if c.args else TOP
    if not isinstance(pat, str):
        raise AnalysisError("remove_ansi: pattern is not constant")
    repl_ok = len(c.args) >= 2 and isinstance(c.args[1], ast.Constant) and c.args[1].value == ""
    rep.ob("X3-replacement-is-empty", f.where(c), f.scope, unparse(c)[:100], repl_ok,
           "remove_ansi must replace with the empty string: anything else adds characters to the text")
    extra_pos = len(c.args) > 3
    kw = {k.arg for k in c.keywords}
    count_kw = [k for k in c.keywords if k.arg == "count" and not (isinstance(k.value, ast.Constant) and k.value.value == 0)]
    rep.ob("X3-sub-removes-all-occurrences", f.where(c), f.scope, unparse(c)[:100], not extra_pos and not count_kw and kind == "sub",
           "a 4th positional argument of re.sub is `count`, not `flags` (e.g. re.DOTALL == 16 limits the removal to 16 "
           "sequences): later escape sequences stay in the text")
    subj_ok = len(c.args) >= 3 and unparse(c.args[2]) == f.params()[0]
    rets = [n for n in f.own_nodes() if isinstance(n, ast.Return)]
    rep.ob("X3-sub-on-input", f.where(c), f.scope, unparse(c)[:100], subj_ok and len(rets) == 1 and rets[0].value is c,
           "remove_ansi must return re.sub(pattern, '', <its argument>)")
    flag_nodes = [k.value for k in c.keywords if k.arg == "flags"]
    flags = RX.flags_from_ast(src, f.module, flag_nodes)
    rx = RX.Regex(pat, flags)
    ref = RX.Regex(REF_ECMA_CSI, re.DOTALL)
    w = RX.language_subset(rx, rx.tree, ref, ref.tree)
    rep.ob("X3-fallback-removes-only-CSI", f.where(c), f.scope, "L(%s) within ECMA-48 CSI sequences" % pat, w is None,
           "remove_ansi deletes %r, which is not a CSI escape sequence: ordinary text is lost" % w, witness={"removed": w})
    ref2 = RX.Regex(tokenizer.REF_CSI, re.DOTALL)
    w = RX.language_subset(ref2, ref2.tree, rx, rx.tree)
    rep.ob("X3-fallback-removes-every-numeric-CSI", f.where(c), f.scope, "ordinary numeric CSI within L(%s)" % pat, w is None,
           "remove_ansi does not delete the ordinary sequence %r" % w, witness={"kept": w})
    counts["remove_ansi"] = 1


def rule_x4(src, rep, fold, counts):
    f = src.func("formatstring", "FmtStr.from_str")
    it = Interp(fold, classes=("Chunk", "FmtStr"), max_states=64)
    env = dict(fold.module("formatstring"))
    s = SymStr("S")
    env[f.params()[0]] = s

    def hook(call, e):
        if isinstance(call.func, ast.Name) and call.func.id == "parse":
            return []
        if isinstance(call.func, ast.Name) and call.func.id == "remove_ansi":
            return SymStr("R")
        raise Unknown("no hook")
    it.extra_hook = hook
    outs = it.run_function(f.node, env)
    guards = set()
    verb = []
    for o in outs:
        for t, v in o.assumptions:
            guards.add(t)
        if any(not v for t, v in o.assumptions):
            verb.append(o)
    # the only question asked about the text is whether it contains ESC[
    norm = {g.replace('"', "'") for g in guards}
    ok = norm == {"'\\x1b[' in %s" % f.params()[0]}
    rep.ob("X4-only-question-is-ESC[", f.where(), f.scope, "tests on the input: %s" % sorted(guards), ok,
           "from_str must decide between parsing and the verbatim path only by `'\\x1b[' in s`")
    ok = len(verb) == 1 and verb[0].term == "return" and verb[0].value == ("<FmtStr>", ("<Chunk>", s)) and \
        isinstance(verb[0].value[1][1], SymStr)
    rep.ob("X4-verbatim-without-escape", f.where(), f.scope, "no 'ESC[' in s -> FmtStr(Chunk(s))", ok,
           "text without an escape sequence must come back verbatim and unformatted as FmtStr(Chunk(s)); got %s" % verb)
    # fmtstr(s): parse_args((), {}) == {} and the result is from_str(s).copy_with_new_atts(**{})
    it2 = Interp(fold, max_states=64)
    r = parse_args_eval(it2, src, fold, (), {})
    rep.ob("X4-no-attributes-for-bare-call", src.func("formatstring", "parse_args").where(), "formatstring:parse_args",
           "parse_args((), {}) -> %s" % (r,), r == ("ok", {}), "fmtstr(s) without arguments must not add attributes or raise")
    g = src.func("formatstring", "fmtstr")
    calls = [n for n in g.own_nodes() if isinstance(n, ast.Call) and unparse(n.func).endswith("from_str")]
    ok = len(calls) == 1 and len(calls[0].args) == 1 and unparse(calls[0].args[0]) == g.params()[0]
    if ok:
        from ..cfg import lexical_guard
        gd = lexical_guard(g.module, calls[0], g.node)
        ok = gd == [("isinstance(%s, str)" % g.params()[0], True)]
    rep.ob("X4-fmtstr-delegates-to-from_str", g.where(), g.scope, "isinstance(string, str) -> FmtStr.from_str(string)", ok,
           "fmtstr() must hand every str to FmtStr.from_str")
    rets = [n for n in g.own_nodes() if isinstance(n, ast.Return)]
    ok = len(rets) == 1 and isinstance(rets[0].value, ast.Call) and unparse(rets[0].value.func).endswith(".copy_with_new_atts")
    rep.ob("X4-fmtstr-returns-restyled-copy", g.where(), g.scope, unparse(rets[0])[:80] if rets else "<none>", ok,
           "fmtstr() must return string.copy_with_new_atts(**atts)")
    counts["from_str_outcomes"] = len(outs)


def check(src, rep):
    rep.explanation = EXPLANATION
    rep.not_decided = NOT_DECIDED
    rep.assumptions = ["int() accepts every string of Unicode decimal digits; re.match/re.sub semantics",
                       "implicit exceptions other than the ones modelled (KeyError on dict lookup, int()) do not occur in "
                       "str/list primitives"]
    rep.trusted_base = ["CPython ast and re._parser", "sa/consteval.py", "sa/absint.py", "sa/regexast.py"]
    fold = Folder(src, fuel=10 ** 9)
    counts = {}
    tm = rep.guard(tokenizer.rules_tokenizer, src, rep, fold, "X2", counts)
    rep.guard(tokenizer.rules_parse_loop, src, rep, "X2")
    if tm is not None:
        rep.guard(rule_x1, src, rep, fold, tm, counts)
    rep.guard(rule_x3, src, rep, fold, counts)
    rep.guard(rule_x4, src, rep, fold, counts)
    rep.extracted["counts"] = counts
    rep.floor("tokenizer patterns", counts.get("tokenizer_patterns", 0), 2)
    rep.floor("token shapes pushed through token_type", counts.get("token_shapes", 0), 300)
    rep.floor("CSI final bytes", counts.get("csi_final_bytes", 0), 63)
