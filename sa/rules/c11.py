"""C11 - width_aware_splitlines wraps to the column limit without losing anything (bounded; DESIGN.md section 3, C11)."""
import itertools

import wcwidth as _wc

from ..fold import new_interp
from ..models import cells, runs_of
from ..objinterp import Obj
from ..report import AnalysisError
from .c14 import mk

EXPLANATION = (
    "BOUNDED catalogue under a stated assumption about character widths.  FmtStr.width_aware_splitlines (the generator, "
    "ChunkSplitter.request and whatever they call) is abstractly interpreted, with the compiled width functions replaced by the "
    "pure-Python `wcwidth` package, for every text of up to 5 characters (thorough 6) over {a, b, a double-width character, a "
    "combining character}, as one run, cut into two runs at every position and with an empty run inserted, and every columns in "
    "2..5.  The clauses of the statement are checked on the OUTPUT (no second implementation of the wrapping): every piece is a "
    "FmtStr; no line is wider than `columns`, every line but the last is exactly `columns` wide, no line is empty; with the padding "
    "removed the lines, concatenated, are exactly the characters of the value in order with their formatting; the only additions "
    "are single spaces at the end of a line that is one column short, where the next character is double-width, formatted like "
    "that character; columns < 2 raises ValueError; two iterators over values that share runs, consumed alternately (the generator "
    "body is then evaluated lazily, one yield at a time), give what each gives alone."
)
NOT_DECIDED = "the compiled extension's real width table (the stand-in agrees with it on the alphabet used); longer texts, larger limits."

A1, A2 = {"fg": 31}, {"bg": 44, "bold": True}
WIDE, COMB = "Ｅ", "́"

GROUPS = {
    "S1-lines-exactly-as-wide-as-the-limit": "widths of the lines over the catalogue",
    "S2-nothing-lost-nothing-reordered": "characters and formatting of the lines over the catalogue",
    "S3-padding-only-before-a-straddling-wide-character": "padding spaces over the catalogue",
    "S4-narrow-limit-rejected": "columns < 2",
    "S5-iterators-do-not-disturb-each-other": "two iterators over values sharing runs, consumed alternately",
}


def width(s):
    return sum(max(0, _wc.wcwidth(c)) for c in s)


def check(src, rep):
    from ..par import pmap
    rep.explanation = EXPLANATION
    rep.not_decided = NOT_DECIDED
    rep.assumptions = ["cwcwidth.wcwidth / wcswidth agree with the `wcwidth` package on the catalogue's alphabet (narrow ASCII, U+FF25 wide, U+0301 combining)"]
    rep.trusted_base = ["CPython ast", "sa/consteval.py", "sa/absint.py", "sa/objinterp.py", "the wcwidth package"]
    it = new_interp(src, check_views=True)
    f = src.func("formatstring", "FmtStr.width_aware_splitlines")
    maxlen = 6 if rep.tier == "thorough" else 5
    jobs = []
    for n in range(0, maxlen + 1):
        for tup in itertools.product("ab" + WIDE + COMB, repeat=n):
            text = "".join(tup)
            if text.startswith(COMB) or tup.count("b") > 1 or (n > 4 and tup.count("a") > 2):
                continue
            layouts = [[(text, A1)]]
            for cut in range(1, len(text)):
                if text[cut] == COMB and text[cut:].strip(COMB):
                    continue         # a run of ONLY combining characters is a legitimate run; one that starts with one and goes on is not built
                layouts.append([(text[:cut], A1), (text[cut:], A2)])
            if text:
                layouts.append([("", A2), (text, A1)])
                layouts.append([(text[:1], A1), ("", {}), (text[1:], A2)] if len(text) > 1 and text[1] != COMB else [(text, A1), ("", A2)])
            for runs in layouts:
                for columns in (2, 3, 4, 5):
                    jobs.append((text, runs, columns, 1))
            if 1 <= len(text) <= (3 if rep.tier == "thorough" else 2) and not text.startswith(COMB):
                # the same run object several times in a row: what `f * k` and `f + f` build
                for k in (2, 3, 5):
                    for columns in (2, 3, 4):
                        jobs.append((text, [(text, A1)], columns, k))

    def one(job):
        text, runs, columns, times = job
        cl = cells(runs) * times
        v = mk(it, *runs)
        desc = "%r as runs %s .width_aware_splitlines(%d)" % (text, [t for t, _ in runs], columns)
        if times > 1:
            m = it.callm(v, "__mul__", times)
            if m[0] != "ok" or not isinstance(m[1], Obj):
                return ("error", "building (%r) * %d is outside the evaluated subset: %s" % (text, times, m), "")
            v = m[1]
            if cells(runs_of(v)) != cl:
                return None          # repetition itself is C06's business
            desc = "(%r * %d, the same run object %d times) .width_aware_splitlines(%d)" % (text, times, times, columns)
        r = it.callm(v, "width_aware_splitlines", columns)
        if r[0] == "opaque":
            return ("error", "%s outside the evaluated subset: %s" % (desc, r[1]), "")
        if r[0] != "ok":
            return ("S2-nothing-lost-nothing-reordered", desc, "raises %s" % (r[1],))
        try:
            pieces = it.folder.v_iter(r[1]) if not isinstance(r[1], list) else r[1]
        except Exception as e:
            nm = getattr(e, "name", None)
            if nm is None:
                return ("error", "%s: iterating the result is outside the evaluated subset: %s" % (desc, e), "")
            return ("S2-nothing-lost-nothing-reordered", desc, "raises %s while producing the lines" % nm)
        if not all(isinstance(x, Obj) and x.cls == "FmtStr" for x in pieces):
            return ("S2-nothing-lost-nothing-reordered", desc, "gives %s" % (pieces,))
        why = it._views(pieces)
        if why is not None:
            return ("S2-nothing-lost-nothing-reordered", desc, "a line of %s" % why.replace("the result", "the result", 1))
        lines = [cells(runs_of(x)) for x in pieces]
        ltxt = ["".join(c for c, _ in ln) for ln in lines]
        for i, ln in enumerate(ltxt):
            w = width(ln)
            if w > columns or not ln or (i + 1 < len(ltxt) and w != columns):
                return ("S1-lines-exactly-as-wide-as-the-limit", desc, "lines %r have the widths %s: every line but the last must be exactly %d wide, none wider, none empty"
                        % (ltxt, [width(x) for x in ltxt], columns))
        # walk the lines against the original cells; what does not match must be a legitimate padding space
        k = 0
        for i, ln in enumerate(lines):
            for j, cell in enumerate(ln):
                if k < len(cl) and cell == cl[k]:
                    k += 1
                    continue
                nxt = cl[k] if k < len(cl) else None
                legit = cell[0] == " " and j == len(ln) - 1 and nxt is not None and _wc.wcwidth(nxt[0]) == 2 and cell[1] == nxt[1] and \
                    width(ltxt[i][:-1]) == columns - 1 and i + 1 < len(lines)
                if cell[0] == " " and not legit:
                    return ("S3-padding-only-before-a-straddling-wide-character", desc,
                            "lines %r: the space at the end of line %d is not a padding for a double-width character that would straddle the boundary (next character %r)"
                            % (ltxt, i, nxt[0] if nxt else None))
                if not legit:
                    return ("S2-nothing-lost-nothing-reordered", desc, "lines %r: character %r%s where the value has %r%s"
                            % (ltxt, cell[0], dict(cell[1]), nxt[0] if nxt else None, dict(nxt[1]) if nxt else ""))
        if k != len(cl):
            return ("S2-nothing-lost-nothing-reordered", desc, "lines %r hold %d of the value's %d characters" % (ltxt, k, len(cl)))
        return None
    results = pmap(one, jobs, min_chunk=32)
    bad = {}
    for job, res in zip(jobs, results):
        rep.case(True)
        if res is None:
            continue
        if res[0] == "error":
            rep.errors.append(res[1])
            break
        bad.setdefault(res[0], []).append(res[1:])
    # two iterators over values that share runs, consumed alternately: each gives what it gives when consumed alone
    def lines_of(ch):
        out = []
        while True:
            r = ch.next()
            if r[0] == "stop":
                return out, r[1]
            out.append("".join(c for c, _ in cells(runs_of(r[1]))))

    inter = [([("abcdefgh", A1), ("ij", A2)], 3, 4), ([("a" + WIDE + "bc" + WIDE, A1)], 2, 3), ([("abc", A1), ("", A2), ("defg", A2)], 2, 5)]
    for runs, c1, c2 in inter:
        alone = []
        for c in (c1, c2):
            r = it.callm(mk(it, *runs), "width_aware_splitlines", c)
            alone.append(["".join(ch for ch, _ in cells(runs_of(x))) for x in (it.folder.v_iter(r[1]) if not isinstance(r[1], list) else r[1])]
                         if r[0] == "ok" else r)
        v = mk(it, *runs)
        h = it.callm(v, "__add__", "")          # another value built from the same runs
        for label, second in (("the same value", v), ("a value built from it with +", h[1] if h[0] == "ok" else v)):
            g1, g2 = it.lazy(v, "width_aware_splitlines", c1), it.lazy(second, "width_aware_splitlines", c2)
            o1, o2, d1, d2 = [], [], False, False
            while not (d1 and d2):
                for g, o, which in ((g1, o1, 1), (g2, o2, 2)):
                    if (which == 1 and d1) or (which == 2 and d2):
                        continue
                    r = g.next()
                    if r[0] == "value":
                        o.append("".join(c for c, _ in cells(runs_of(r[1]))))
                    elif which == 1:
                        d1 = True
                    else:
                        d2 = True
            rep.case(True)
            if [o1, o2] != alone:
                bad.setdefault("S5-iterators-do-not-disturb-each-other", []).append(
                    ("%r wrapped at %d and (%s) at %d, the two iterators consumed alternately" % ("".join(t for t, _ in runs), c1, label, c2),
                     "they give %s and %s; consumed one after the other they give %s and %s" % (o1, o2, alone[0], alone[1])))
    for cols in (1, 0, -1):
        v = mk(it, ("ab", A1))
        r = it.callm(v, "width_aware_splitlines", cols)
        if r[0] == "ok" and not isinstance(r[1], list):
            try:
                it.folder.v_iter(r[1])
            except Exception as e:
                r = ("raise", getattr(e, "name", "?"))
        if r != ("raise", "ValueError"):
            bad.setdefault("S4-narrow-limit-rejected", []).append(("'ab'.width_aware_splitlines(%d)" % cols, "gives %s, expected ValueError" % (r,)))
        rep.case(True)
    for rule, group in GROUPS.items():
        items = bad.get(rule, [])
        if items:
            items.sort(key=lambda x: len(x[0]))
            rep.ob(rule, f.where(), "formatstring:FmtStr", group, False, "%s: %s (%d cases of the catalogue fail this rule)" % (items[0][0], items[0][1], len(items)),
                   witness={"call": items[0][0], "failing": len(items)})
        else:
            rep.ob(rule, f.where(), "formatstring:FmtStr", group, True)
    rep.extracted["counts"] = {"cases": len(jobs)}
    rep.floor("cases", len(jobs), 1000)
