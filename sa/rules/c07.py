"""C07 - CursorAwareWindow keeps history intact and accounts for every scroll (DESIGN.md section 3, C07)."""
import itertools

from .. import termmodel
from ..fold import new_interp
from ..report import AnalysisError
from ..winmodel import Rig
from .c02 import Pool, expected_cells, rows_of, show

EXPLANATION = (
    "CursorAwareWindow (its own __init__, __enter__ with the cursor position query, render_to_terminal, scroll_down, "
    "__exit__ and everything they call) is abstractly interpreted with blessed.Terminal, the streams and Cbreak replaced by "
    "stubs; every string the window writes is fed to the reference terminal model (sa/termmodel.py), which also answers "
    "the cursor position query.  For a catalogue of terminal sizes, initial screens (0 .. more than a screenful of "
    "pre-existing lines; the cursor on the line after the output or moved up onto a row that already holds output) and "
    "histories of renders (for every ordered pair of arrays A, B of the pool: A, A again, B, A; arrays of height 0 .. beyond the "
    "screen, rows shared between renders, rows differing only in formatting, empty rows, plain str rows, full-width rows, arrays that continue a "
    "scrolled one; keep_last_line / hide_cursor on and off) followed by __exit__, the model is compared with an "
    "independent statement of the property in absolute line numbers (scrollback + screen): W = window top, S = lines "
    "scrolled so far; a render of n rows scrolls d = max(0, W+n-(S+height)) lines, returns max(0, d-(W-S)), leaves every "
    "line above W exactly as it was, shows array row i on line W+i (also the rows that moved into the scrollback), leaves "
    "every line below blank and unformatted and the cursor on line W+cursor_pos[0], column cursor_pos[1]; afterwards "
    "W = max(W, S+d).  Leaving the context leaves every line above W as it was."
)
NOT_DECIDED = ("histories longer than three renders and terminals larger than the catalogue's; rows wider than the terminal (the "
               "class writes them unbounded by design); terminal resizes between renders (C18 covers the cursor-diff accounting); "
               "what a real terminal does with the control strings (the reference model is an assumption).")

GROUPS = {
    "S0-enter-finds-the-window-top": "entering the context on each initial screen",
    "S1-scrolls-exactly-what-does-not-fit": "lines scrolled by each render of the history catalogue",
    "S1-returns-rows-pushed-off-the-top": "value returned by each render of the history catalogue",
    "S2-history-above-the-window-untouched": "lines above the window after each render of the history catalogue",
    "S2-array-shown-from-window-top-rest-blank": "lines from the window top down after each render of the history catalogue",
    "S3-cursor-on-designated-cell": "cursor after each render of the history catalogue",
    "S4-exit-leaves-history-intact": "lines above the window after leaving the context",
}


def initial_screens(h, w, tier):
    """(description, builder(screen))"""
    out = []
    ps = [0, 1, h - 1, h, h + 2] if tier == "thorough" else [0, 1, h, h + 2]
    for p in sorted(set(x for x in ps if x >= 0)):
        def mk(scr, p=p):
            for i in range(p):
                scr.feed(("old%d" % i)[:w] + "\r\n")
        out.append(("%d old line(s), cursor on the line after them" % p, mk))
    for p, k in ((h, 0), (h - 1, 1), (h + 2, h - 2)):
        if 0 <= k < h and p > k:
            def mk2(scr, p=p, k=k):
                for i in range(p):
                    scr.feed(("old%d" % i)[:w] + ("\r\n" if i < p - 1 else ""))
                scr.feed(termmodel.move(k, min(1, w - 1)))
            out.append(("%d old line(s), cursor moved up to row %d" % (p, k), mk2))
    return out


def array_pool(pool, h, w, tier):
    fs = pool.fs

    def rows(start, n, variant):
        out = []
        for i in range(start, start + n):
            if variant == "full":
                out.append(fs((str(i % 10) * w)))
            elif variant == "red-odd" and i % 2:
                out.append(fs(("r%d" % i)[:w], "red"))
            elif variant == "gaps":
                out.append(fs("") if i % 2 == 0 else ("s%d" % i)[:w])       # empty FmtStr rows and plain str rows
            elif variant == "wide":
                out.append(fs("\u4f60"[:(w - 1) // 2]))               # a double-width character, narrower than the terminal
            elif variant == "wide-longer":
                out.append(fs("\u4f60\u597d"[:(w - 1) // 2]))         # the same line extended by another one
            elif variant == "accent":
                out.append(fs("e\u0301"[:w - 1]))                 # fewer code points than columns (the window counts len(line))
            elif variant == "accent-longer":
                out.append(fs("e\u0301x"[:w - 1]))
            elif variant == "padded":
                out.append(fs((("p%d" % i) + " " * w)[:w]))       # exactly as wide as the terminal, ending in plain blanks
            elif variant == "bg":
                out.append(fs(("r%d" % i)[:max(1, w - 1)], bg="blue", bold=True))
            else:
                out.append(fs(("r%d" % i)[:w]))
        return out
    ns = [0, 1, h - 1, h, h + 1, h + 3] if tier == "quick" else [0, 1, 2, h - 1, h, h + 1, h + 3]
    specs = []
    for n in sorted(set(x for x in ns if x >= 0)):
        specs.append((0, n, "plain"))
        if n:
            specs.append((0, n, "red-odd"))
            specs.append((0, n, "gaps"))
        if n in (1, h):
            specs.append((0, n, "padded"))
        if n == 1:
            for v_ in ("wide", "wide-longer", "accent", "accent-longer"):
                specs.append((0, n, v_))
        if n >= h:
            specs.append((1, n, "plain"))
            specs.append((0, n, "full"))
        if tier == "thorough" and n:
            specs.append((0, n, "bg"))
            specs.append((2, n, "red-odd"))
    return [("%d row(s) %s from r%d" % (n, v, st), (lambda st=st, n=n, v=v: rows(st, n, v))) for st, n, v in specs]


def run_history(it, h, w, init, steps, keep_last_line, hide_cursor):
    scr = termmodel.Screen(h, w)
    init[1](scr)
    rig = Rig(it, "CursorAwareWindow", h, w, screen=scr, init_kwargs={"keep_last_line": keep_last_line, "hide_cursor": hide_cursor})
    trail = ["%dx%d terminal, %s%s%s" % (h, w, init[0], ", keep_last_line" if keep_last_line else "", "" if hide_cursor else ", hide_cursor=False")]
    W = len(scr.scrollback) + scr.r
    before_all = [list(r) for r in scr.absolute()]
    r = rig.call("__enter__")
    if r[0] != "ok":
        return ("S0-enter-finds-the-window-top", "; ".join(trail), "__enter__ raised %s" % (r[1],))
    if [list(x) for x in scr.absolute()] != before_all or len(scr.scrollback) + scr.r != W:
        return ("S0-enter-finds-the-window-top", "; ".join(trail), "entering the context changed the screen or moved the cursor")
    for name, thunk, curkind in steps:
        array = thunk()
        rows = rows_of(array)
        n = len(rows)
        S = len(scr.scrollback)
        d = max(0, W + n - (S + h))
        S2 = S + d
        want_ret = max(0, d - (W - S))
        first_visible = max(0, S2 - W)
        cr = (n - 1 if curkind == 0 else first_visible) if n else 0
        cc = [0, w - 1, w // 2][curkind % 3] if n else 0
        cc = min(cc, max(0, len(expected_cells(rows[cr])) if n else 0))
        cc = min(cc, w - 1)
        above = [list(x) for x in scr.absolute()[:W]]
        scr.mark()
        r = rig.call("render_to_terminal", array, (cr, cc))
        trail.append("render %s cursor_pos=%s" % (name, (cr, cc)))
        hist = "; ".join(trail)
        if r[0] != "ok":
            return ("S2-array-shown-from-window-top-rest-blank", hist, "the render raised %s" % (r[1],))
        ab = scr.absolute()
        if scr.scrolls != d:
            return ("S1-scrolls-exactly-what-does-not-fit", hist, "the screen scrolled %d line(s); %d row(s) of the array do not fit below the window top"
                    % (scr.scrolls, d))
        if [list(x) for x in ab[:W]] != above:
            k = [i for i in range(W) if list(ab[i]) != above[i]][0]
            return ("S2-history-above-the-window-untouched", hist, "line %d above the window (%r) now reads %r"
                    % (k, show([above[k]])[0], show([ab[k]])[0]))
        want = []
        for i in range(n):
            line = expected_cells(rows[i])[:w]
            want.append(line + [termmodel.BLANK] * (w - len(line)))
        while W + len(want) < len(ab):
            want.append([termmodel.BLANK] * w)
        got = [list(x) for x in ab[W:]]
        if got != want:
            return ("S2-array-shown-from-window-top-rest-blank", hist,
                    "from the window top (line %d; %d line(s) are in the scrollback) the terminal shows %s, expected %s ('^' marks formatted cells)"
                    % (W, S2, show(got), show(want)))
        if r[1] != want_ret:
            return ("S1-returns-rows-pushed-off-the-top", hist, "returned %r; %d array row(s) were pushed off the top of the screen" % (r[1], want_ret))
        W = max(W, S2)
        # the cell cursor_pos designates: line (window top before this render) + cursor_pos[0]
        target_abs = len(above) + cr
        if target_abs >= S2 and (len(scr.scrollback) + scr.r, scr.c) != (target_abs, cc):
            return ("S3-cursor-on-designated-cell", hist, "the cursor is on screen cell %s, cursor_pos designates %s"
                    % ((scr.r, scr.c), (target_abs - S2, cc)))
        if scr.pending:
            return ("S3-cursor-on-designated-cell", hist, "the cursor is left with a deferred wrap pending")
    above = [list(x) for x in scr.absolute()[:W]]
    r = rig.call("__exit__", None, None, None)
    hist = "; ".join(trail) + "; __exit__"
    if r[0] != "ok":
        return ("S4-exit-leaves-history-intact", hist, "__exit__ raised %s" % (r[1],))
    if [list(x) for x in scr.absolute()[:W]] != above:
        return ("S4-exit-leaves-history-intact", hist, "leaving the context altered a line above the window")
    if not scr.visible:
        return ("S4-exit-leaves-history-intact", hist, "leaving the context left the cursor hidden")
    return None


def rule_semantic(src, rep, counts):
    from ..par import pmap
    it = new_interp(src)
    pool = Pool(it)
    f = src.func("window", "CursorAwareWindow.render_to_terminal")
    sizes = [(3, 4), (2, 3)] if rep.tier == "quick" else [(3, 4), (2, 3), (4, 5), (1, 2)]
    jobs = []
    for (h, w) in sizes:
        arrs = array_pool(pool, h, w, rep.tier)
        inits = initial_screens(h, w, rep.tier)
        for i, j in itertools.product(range(len(arrs)), repeat=2):
            for k in range(len(inits)):
                if rep.tier == "quick" and (i + 2 * j + k) % 3:
                    continue
                jobs.append((h, w, i, j, k, (i + j + k) % 2 == 0, (i + k) % 3 != 0))

    for (h, w) in sizes:
        for k in range(len(initial_screens(h, w, rep.tier))):
            jobs.append((h, w, "in place", None, k, k % 2 == 0, k % 3 != 0))

    def one(job):
        h, w, i, j, k, keep, hide = job
        if i == "in place":
            # the caller keeps ONE list and edits it between renders: the window must show what the list holds now
            shared = [pool.fs("ab"[:w]), pool.fs("cd"[:w], "red")][:max(1, h - 1)]

            def edit1():
                shared[0] = pool.fs("xy"[:w], "bold")
                return shared

            def edit2():
                shared[-1] = pool.fs("gh"[:w])
                return shared
            steps = [("a list L", lambda: shared, 1), ("the same list after L[0] = bold 'xy'", edit1, 1),
                     ("the same list after its last row was replaced", edit2, 1), ("the same list, unchanged", lambda: shared, 1)]
            try:
                return run_history(it, h, w, initial_screens(h, w, rep.tier)[k], steps, keep, hide)
            except AnalysisError as e:
                return ("error", str(e), "")
        arrs = array_pool(pool, h, w, rep.tier)
        init = initial_screens(h, w, rep.tier)[k]
        steps = [(arrs[i][0], arrs[i][1], i % 2), (arrs[i][0], arrs[i][1], (i + 1) % 2), (arrs[j][0], arrs[j][1], (j + 1) % 2), (arrs[i][0], arrs[i][1], 0)]
        try:
            return run_history(it, h, w, init, steps, keep, hide)
        except AnalysisError as e:
            return ("error", str(e), "")
    results = pmap(one, jobs, min_chunk=8)
    bad = {}
    n = 0
    for job, res in zip(jobs, results):
        n += 1
        rep.case(True, {"terminal": job[:2], "arrays": job[2:4], "initial_screen": job[4]} if n % 397 == 1 else None)
        if res is None:
            continue
        if res[0] == "error":
            raise AnalysisError(res[1])
        bad.setdefault(res[0], []).append(res[1:])
    for rule, group in GROUPS.items():
        items = bad.get(rule, [])
        if items:
            items.sort(key=lambda x: len(x[0]))
            hist, why = items[0]
            rep.ob(rule, f.where(), f.scope, group, False, "%s: %s (%d of %d histories fail this rule)" % (hist, why, len(items), n),
                   witness={"history": hist, "failing_histories": len(items)})
        else:
            rep.ob(rule, f.where(), f.scope, group, True)
    counts["histories"] = n


def check(src, rep):
    rep.explanation = EXPLANATION
    rep.not_decided = NOT_DECIDED
    rep.assumptions = ["the reference terminal model (sa/termmodel.py) describes the terminal: a line feed on the bottom row scrolls by one, "
                       "save/restore cursor, the cursor position report",
                       "blessed returns the xterm capability strings for the capabilities the window names"]
    rep.trusted_base = ["CPython ast", "sa/consteval.py", "sa/absint.py", "sa/objinterp.py", "sa/termmodel.py", "sa/winmodel.py", "sa/sgr.py"]
    counts = {}
    rep.guard(rule_semantic, src, rep, counts)
    rep.extracted["counts"] = counts
    rep.floor("render histories", counts.get("histories", 0), 100)
