"""C07 - CursorAwareWindow keeps history intact and accounts for every scroll (DESIGN.md section 3, C07: P*, S1..S5)."""
import ast

from ..cfg import enumerate_paths, lexical_guard, single_defs
from ..report import AnalysisError
from ..srcmodel import is_self_attr, unparse
from . import render

EXPLANATION = (
    "Path rules over terminal-effect tokens of CursorAwareWindow.render_to_terminal, scroll_down, __enter__, __exit__.  "
    "P1-P5, P7, P8 as for C02 on the non-scrolling part (rows zip(rows_for_use[:shared], array[:shared]) with "
    "rows_for_use = range(top_usable_row, height), shared = min of both lengths; the rest of the rows are blanked, the rest "
    "of the lines are scrolled for).  S1 scroll accounting: every path through the surplus-line loop has exactly one scroll, "
    "exactly one of {self.top_usable_row -= 1, offscreen_scrolls += 1} with the decrement guarded by a test of that same "
    "attribute being > 0, one re-keying of the record by -1, then move(height-1, 0), text, record[height-1] = line; the "
    "function returns offscreen_scrolls (initialised to 0) on every path; top_usable_row is written only by __enter__, the "
    "cursor-diff code and this loop.  S2 every MOVE addresses a row of rows_for_use, height-1 or the recorded cursor row - "
    "never an absolute row above the window.  S3 the recorded cursor row is the affine form cursor_pos[0] - "
    "offscreen_scrolls + self.top_usable_row (clamped at 0 only), the column is cursor_pos[1], and the final MOVE goes "
    "exactly there.  S4 __exit__ emits only move_down (under keep_last_line), move_x(0), clear_eos, clear_eol - nothing "
    "that addresses or clears rows above the cursor.  S5 scroll_down is move_down inside `with self.t.location(...)` at "
    "the bottom row."
)
NOT_DECIDED = "terminal scrolling semantics, scrollback content, correctness of top_usable_row as a number across SIGWINCH."


def check(src, rep):
    rep.explanation = EXPLANATION
    rep.not_decided = NOT_DECIDED
    rep.assumptions = ["blessed capabilities do what their names say; a line feed on the bottom row scrolls the screen by one",
                       "t.location() saves and restores the cursor"]
    rep.trusted_base = ["CPython ast", "sa/cfg.py", "sa/rules/render.py"]
    counts = {}
    rep.guard(rule_render, src, rep, counts)
    rep.guard(rule_exit, src, rep, counts)
    rep.guard(rule_scroll_down, src, rep, counts)
    rep.guard(rule_enter, src, rep, counts)
    rep.extracted["counts"] = counts
    rep.floor("row loops", counts.get("loops", 0), 3)
    rep.floor("loop-body paths", counts.get("paths", 0), 6)


def _linear(e, defs):
    """Affine form {term_text: coefficient} of an expression built from +, -, names, attributes, subscripts, constants;
    None when it is not affine in its leaves (after expanding single-definition locals)."""
    if isinstance(e, ast.Name) and e.id in defs:
        return _linear(defs[e.id], defs)
    if isinstance(e, ast.BinOp) and isinstance(e.op, (ast.Add, ast.Sub)):
        a, b = _linear(e.left, defs), _linear(e.right, defs)
        if a is None or b is None:
            return None
        out = dict(a)
        for k, v in b.items():
            out[k] = out.get(k, 0) + (v if isinstance(e.op, ast.Add) else -v)
        return {k: v for k, v in out.items() if v != 0}
    if isinstance(e, ast.UnaryOp) and isinstance(e.op, ast.USub):
        a = _linear(e.operand, defs)
        return None if a is None else {k: -v for k, v in a.items()}
    if isinstance(e, ast.Constant) and isinstance(e.value, int):
        return {"1": e.value} if e.value else {}
    if isinstance(e, (ast.Name, ast.Attribute, ast.Subscript)):
        return {unparse(e): 1}
    if isinstance(e, ast.Call) and isinstance(e.func, ast.Name) and e.func.id == "len" and len(e.args) == 1 and not e.keywords:
        return {unparse(e): 1}
    return None


def rule_render(src, rep, counts):
    f = src.func("window", "CursorAwareWindow.render_to_terminal")
    h, w = render.size_locals(f)
    tf = render.text_funcs(src, f)
    loops = [n for n in f.node.body if isinstance(n, ast.For)]
    if len(loops) != 3:
        raise AnalysisError("CursorAwareWindow.render_to_terminal: expected three top-level loops, found %d" % len(loops))
    content, blank, scroll = loops
    counts["loops"] = 3
    defs = single_defs(f.node)
    arr = f.params()[1]
    cp = f.params()[2]
    recs = [n for n in ast.walk(content) if isinstance(n, ast.Assign) and isinstance(n.targets[0], ast.Subscript)]
    if not recs:
        raise AnalysisError("content loop records nothing")
    current = unparse(recs[0].targets[0].value)
    # ---- the split of rows and lines
    it = content.iter
    if not (isinstance(it, ast.Call) and unparse(it.func) == "zip" and len(it.args) == 2 and isinstance(content.target, ast.Tuple)):
        raise AnalysisError("content loop is not `for row, line in zip(rows, lines)`")
    rowvar, linevar = [unparse(x) for x in content.target.elts]
    rows_e, lines_e = it.args

    def sl(e):
        if isinstance(e, ast.Subscript) and isinstance(e.slice, ast.Slice) and e.slice.step is None:
            return unparse(e.value), unparse(e.slice.lower) if e.slice.lower else None, unparse(e.slice.upper) if e.slice.upper else None
        return None
    r_sl, l_sl = sl(rows_e), sl(lines_e)
    ok = r_sl is not None and l_sl is not None and r_sl[1] is None and l_sl[1] is None and r_sl[2] == l_sl[2] and l_sl[0] == arr
    rows_name = r_sl[0] if r_sl else None
    shared = r_sl[2] if r_sl else None
    rf = defs.get(rows_name)
    ok_rows = rf is not None and unparse(rf).replace(" ", "") in ("list(range(self.top_usable_row,%s))" % h, "range(self.top_usable_row,%s)" % h)
    sd = defs.get(shared) if shared else None
    ok_shared = sd is not None and isinstance(sd, ast.Call) and unparse(sd.func) == "min" and \
        {unparse(a) for a in sd.args} == {"len(%s)" % arr, "len(%s)" % rows_name}
    rep.ob("S2-window-rows-from-top-usable-row", f.where(content), f.scope,
           "%s = %s; %s = %s; zip(%s, %s)" % (rows_name, unparse(rf) if rf is not None else "?", shared,
                                               unparse(sd) if sd is not None else "?", unparse(rows_e), unparse(lines_e)),
           ok and ok_rows and ok_shared,
           "the rows the window may draw on are range(top_usable_row, height); the first min(len(array), len(rows)) lines go "
           "onto the first rows in order: anything else draws above the window's first row or misplaces lines")
    nd, ns = render.check_content_loop(rep, f, content, rowvar, linevar, w, current, tf, "")
    # ---- blank loop over the rest of the rows
    bi = defs.get(unparse(blank.iter)) if isinstance(blank.iter, ast.Name) else blank.iter
    ok = bi is not None and sl(bi) == (rows_name, shared, None) and isinstance(blank.target, ast.Name)
    rep.ob("P4-blank-range", f.where(blank), f.scope, "for %s in %s = %s" % (unparse(blank.target), unparse(blank.iter), unparse(bi) if bi is not None else "?"),
           ok, "the rows to blank are the window rows not covered by the array: %s[%s:]" % (rows_name, shared))
    render.check_blank_loop(rep, f, blank, unparse(blank.target), current, tf, "")
    # ---- scroll loop
    si = defs.get(unparse(scroll.iter)) if isinstance(scroll.iter, ast.Name) else scroll.iter
    ok = si is not None and sl(si) == (arr, shared, None) and isinstance(scroll.target, ast.Name)
    rep.ob("S1-surplus-lines", f.where(scroll), f.scope, "for %s in %s = %s" % (unparse(scroll.target), unparse(scroll.iter), unparse(si) if si is not None else "?"),
           ok, "the lines to scroll for are exactly the array lines that did not fit: %s[%s:]" % (arr, shared))
    sline = unparse(scroll.target)
    paths = [p for p in enumerate_paths(scroll.body) if p.feasible()]
    counts["paths"] = len(paths) + len(enumerate_paths(content.body)) + len(enumerate_paths(blank.body))
    rets = [n for n in f.own_nodes() if isinstance(n, ast.Return)]
    if len(rets) != 1 or not isinstance(rets[0].value, ast.Name):
        rep.ob("S1-returns-offscreen-count", f.where(), f.scope, "return statements: %s" % [unparse(r) for r in rets], False,
               "render_to_terminal must return the number of lines scrolled off the top on every path")
        off = None
    else:
        off = rets[0].value.id
    for p in paths:
        toks = render.path_tokens(p, tf)
        desc = render._show(toks)
        where = f.where(scroll)
        n_scroll = sum(1 for t in toks if t[0] == "SCROLL")
        stm = [t[1] for t in toks if t[0] == "STMT"]
        dec = [s for s in stm if isinstance(s, ast.AugAssign) and unparse(s.target) == "self.top_usable_row"]
        inc = [s for s in stm if isinstance(s, ast.AugAssign) and isinstance(s.target, ast.Name) and s.target.id == off]
        dec_ok = len(dec) == 1 and isinstance(dec[0].op, ast.Sub) and isinstance(dec[0].value, ast.Constant) and dec[0].value.value == 1
        inc_ok = len(inc) == 1 and isinstance(inc[0].op, ast.Add) and isinstance(inc[0].value, ast.Constant) and inc[0].value.value == 1
        exactly_one = (dec_ok and not inc) or (inc_ok and not dec)
        rep.ob("S1-one-scroll-one-account", where, f.scope, desc, n_scroll == 1 and exactly_one,
               "each surplus line scrolls the screen once and must be accounted for exactly once: either the window's top row "
               "moves up (self.top_usable_row -= 1) or a line left the screen (%s += 1); this path has %d scroll(s), %d/%d" %
               (off, n_scroll, len(dec), len(inc)))
        # the guard of the decrement tests the same location
        conds = [(t[1], t[2]) for t in toks if t[0] == "COND"]
        if dec_ok:
            g = [(unparse(c), v) for c, v in conds]
            ok = ("self.top_usable_row > 0", True) in g or ("0 < self.top_usable_row", True) in g or \
                ("self.top_usable_row <= 0", False) in g or ("self.top_usable_row >= 1", True) in g
            rep.ob("S1-top-row-decrement-guarded-by-itself", where, f.scope, desc, ok,
                   "self.top_usable_row may only be decremented under a test that this same attribute is > 0 (tests here: %s); "
                   "a test of a stale copy lets it go negative and miscounts the lines pushed off screen" % g)
        if inc_ok and not dec:
            g = [(unparse(c), v) for c, v in conds]
            ok = ("self.top_usable_row > 0", False) in g or ("0 < self.top_usable_row", False) in g or \
                ("self.top_usable_row <= 0", True) in g or ("self.top_usable_row >= 1", False) in g
            rep.ob("S1-offscreen-counted-only-at-top", where, f.scope, desc, ok,
                   "a line counts as pushed off screen exactly when the window already starts at row 0 (tests here: %s)" % g)
        # re-key, then draw on the bottom row
        rekey = [s for s in stm if isinstance(s, ast.Assign) and unparse(s.targets[0]) == current and isinstance(s.value, ast.DictComp)]
        rk_ok = False
        if len(rekey) == 1:
            dc = rekey[0].value
            g0 = dc.generators[0]
            rk_ok = len(dc.generators) == 1 and not g0.ifs and unparse(g0.iter) == "%s.items()" % current and \
                isinstance(g0.target, ast.Tuple) and len(g0.target.elts) == 2 and \
                unparse(dc.key) == "%s - 1" % unparse(g0.target.elts[0]) and unparse(dc.value) == unparse(g0.target.elts[1])
        rep.ob("S1-record-rekeyed-by-scroll", where, f.scope, desc, rk_ok,
               "after a scroll every recorded row moved up by one: the record must be re-keyed {k - 1: v}, no entry dropped")
        term = [t for t in toks if t[0] in ("MOVE", "TEXT", "CLEAR_EOL", "CLEAR_BOL", "CLEAR_EOS", "CLEAR_ALL", "OTHER", "MOVE_X", "HOME")]
        recs2 = [t for t in toks if t[0] == "REC" and t[1] == current]
        ok = [t[0] for t in term] == ["MOVE", "TEXT"] and term[0][1:] == ("%s - 1" % h, "0") and unparse(term[1][1]) == sline and \
            len(recs2) == 1 and recs2[0][2] == "%s - 1" % h and recs2[0][3] == sline
        # order: scroll before move/text; rekey before record
        order = [t[0] if t[0] != "STMT" else ("REKEY" if t[1] in rekey else "S") for t in toks if t[0] in ("SCROLL", "MOVE", "TEXT", "REC", "STMT")]
        seq = [x for x in order if x in ("SCROLL", "REKEY", "MOVE", "TEXT", "REC")]
        ok = ok and seq == ["SCROLL", "REKEY", "MOVE", "TEXT", "REC"]
        rep.ob("S1-surplus-line-drawn-on-bottom-row", where, f.scope, desc, ok,
               "after scrolling, the surplus line is drawn by move(%s - 1, 0) + text and recorded under %s - 1 (sequence %s)" % (h, h, seq))
    inits = [n for n in f.node.body if isinstance(n, ast.Assign) and off is not None and unparse(n.targets[0]) == off]
    rep.ob("S1-returns-offscreen-count", f.where(rets[0]) if rets else f.where(), f.scope, "%s = 0 ... return %s" % (off, off),
           off is not None and len(inits) == 1 and isinstance(inits[0].value, ast.Constant) and inits[0].value.value == 0 and
           inits[0].lineno < scroll.lineno and rets[0] is f.node.body[-1],
           "the count of lines pushed off screen must start at 0 before the scroll loop and be returned at the end")
    # who may write top_usable_row
    allowed = {"CursorAwareWindow.__enter__", "CursorAwareWindow._get_cursor_vertical_diff_once", "CursorAwareWindow.render_to_terminal"}
    for g in src.all_funcs():
        for node in g.own_nodes():
            tg = node.targets if isinstance(node, ast.Assign) else [node.target] if isinstance(node, (ast.AugAssign, ast.AnnAssign)) else []
            for t in tg:
                for a in ast.walk(t):
                    if isinstance(a, ast.Attribute) and a.attr == "top_usable_row" and isinstance(a.ctx, ast.Store):
                        ok = g.qualname in allowed and g.module.name == "window"
                        if g.qualname == "CursorAwareWindow.render_to_terminal":
                            ok = ok and any(x is node for x in ast.walk(scroll))
                        rep.ob("S1-who-may-write-top-usable-row", g.where(node), g.scope, unparse(node), ok,
                               "top_usable_row is written outside __enter__, the cursor-diff code and the scroll loop")
    render.check_invalidation(src, rep, f, h, w, content, "")
    render.check_commit(src, rep, f, current, loops, "")
    # ---- S2: rows addressed
    for n in f.own_nodes():
        if isinstance(n, ast.Expr):
            t = render.token_of(n, tf)
            if t and t[0] == "MOVE":
                row = t[1]
                ok = row in (rowvar, unparse(blank.target), "%s - 1" % h, "self._last_cursor_row")
                rep.ob("S2-moves-stay-inside-window", f.where(n), f.scope, unparse(n), ok,
                       "a MOVE addresses row `%s`, which is not a row of the window, the bottom row or the recorded cursor row: "
                       "content above the window's first row could be overwritten" % row)
            if t and t[0] in ("OTHER", "CLEAR_EOS", "CLEAR_ALL", "HOME", "MOVE_UP"):
                rep.ob("S2-no-unmodelled-or-upward-effects", f.where(n), f.scope, unparse(n), False,
                       "render_to_terminal emits %s, which can touch rows outside the window" % t[0])
    # ---- S3: cursor
    rowst = [n for n in f.node.body if isinstance(n, ast.Assign) and unparse(n.targets[0]) == "self._last_cursor_row"]
    colst = [n for n in f.node.body if isinstance(n, ast.Assign) and unparse(n.targets[0]) == "self._last_cursor_column"]
    ok = len(rowst) == 1 and len(colst) == 1
    why = "the cursor row/column are not recorded exactly once"
    if ok:
        v = rowst[0].value
        inner = v
        clamp = False
        if isinstance(v, ast.Call) and unparse(v.func) == "max" and len(v.args) == 2 and any(isinstance(a, ast.Constant) and a.value == 0 for a in v.args):
            inner = [a for a in v.args if not (isinstance(a, ast.Constant) and a.value == 0)][0]
            clamp = True
        lin = _linear(inner, {k: d for k, d in defs.items() if k != off})
        want = {"%s[0]" % cp: 1, off: -1, "self.top_usable_row": 1}
        ok = lin == want and rowst[0].lineno > scroll.lineno
        why = "the recorded cursor row is `%s` = %s; the cell cursor_pos designates is on screen row cursor_pos[0] - %s + " \
              "self.top_usable_row (only a clamp at 0 is allowed around it)" % (unparse(v), lin if lin is not None else "a non-affine expression", off)
        ok = ok and unparse(colst[0].value) == "%s[1]" % cp
    rep.ob("S3-cursor-row-is-affine-in-offsets", f.where(rowst[0]) if rowst else f.where(), f.scope,
           unparse(rowst[0]) if rowst else "<none>", ok, why)
    toks = [(st, render.token_of(st, tf)) for st in f.node.body]
    toks = [(st, t) for st, t in toks if t is not None and t[0] not in ("HIDE", "SHOW")]
    ok = bool(toks) and toks[-1][1] == ("MOVE", "self._last_cursor_row", "self._last_cursor_column") and rowst and \
        toks[-1][0].lineno > rowst[0].lineno and toks[-1][0].lineno > scroll.lineno
    rep.ob("S3-cursor-placed-last-at-recorded-cell", f.where(toks[-1][0]) if toks else f.where(), f.scope,
           unparse(toks[-1][0]) if toks else "<none>", ok,
           "the last terminal effect must be move(self._last_cursor_row, self._last_cursor_column), after the scrolling")


def rule_exit(src, rep, counts):
    f = src.func("window", "CursorAwareWindow.__exit__")
    tf = set()
    allowed = {"MOVE_DOWN", "MOVE_X", "CLEAR_EOS", "CLEAR_EOL"}
    n = 0
    for st in f.own_nodes():
        if not isinstance(st, ast.Expr):
            continue
        t = render.token_of(st, tf)
        if t is None:
            continue
        n += 1
        ok = t[0] in allowed
        if t[0] == "MOVE_X":
            ok = t[1:] == ("0",)
        if t[0] == "MOVE_DOWN":
            g = lexical_guard(f.module, st, f.node)
            ok = g == [("self.keep_last_line", True)]
        rep.ob("S4-exit-clears-only-downward", f.where(st), f.scope, unparse(st), ok,
               "on leaving, only move_down (under keep_last_line), move_x(0), clear_eos and clear_eol may be emitted; `%s` can "
               "address or clear rows above the cursor (terminal history)" % render._show([t]))
    counts["exit_tokens"] = n
    if n < 3:
        raise AnalysisError("CursorAwareWindow.__exit__: fewer terminal effects than expected (%d)" % n)


def rule_scroll_down(src, rep, counts):
    f = src.func("window", "BaseWindow.scroll_down")
    withs = [n for n in f.node.body if isinstance(n, ast.With)]
    ok = len(withs) == 1 and len(withs[0].items) == 1 and isinstance(withs[0].items[0].context_expr, ast.Call) and \
        unparse(withs[0].items[0].context_expr.func) == "self.t.location"
    toks = []
    if ok:
        for st in withs[0].body:
            t = render.token_of(st, set())
            if t:
                toks.append(t)
        call = withs[0].items[0].context_expr
        kw = {k.arg: k.value for k in call.keywords}
        y = kw.get("y", call.args[1] if len(call.args) > 1 else None)
        big = isinstance(y, ast.Constant) and isinstance(y.value, int) and y.value >= 10000
        ok = toks == [("MOVE_DOWN",)] and big
    outside = [render.token_of(st, set()) for st in f.node.body if not isinstance(st, ast.With)]
    outside = [t for t in outside if t]
    rep.ob("S5-scroll-is-linefeed-at-bottom-with-cursor-restored", f.where(), f.scope,
           "with self.t.location(x=0, y=<bottom>): write(move_down)", ok and not outside,
           "scroll_down must save the cursor, go to the bottom row, emit one move_down (line feed) and restore the cursor; found "
           "%s inside and %s outside the location() block" % (toks, outside))


def rule_enter(src, rep, counts):
    f = src.func("window", "CursorAwareWindow.__enter__")
    st = [n for n in f.own_nodes() if isinstance(n, ast.Assign) and any(
        isinstance(a, ast.Attribute) and a.attr == "top_usable_row" and isinstance(a.ctx, ast.Store) for t in n.targets for a in ast.walk(t))]
    ok = len(st) == 1 and isinstance(st[0].targets[0], ast.Tuple) and unparse(st[0].targets[0].elts[0]) == "self.top_usable_row" and \
        unparse(st[0].value) == "self.get_cursor_position()"
    rep.ob("S2-window-starts-at-cursor-row", f.where(st[0]) if st else f.where(), f.scope, unparse(st[0]) if st else "<none>", ok,
           "on entering, the window's first usable row must be the row the cursor is on (first component of "
           "get_cursor_position()): everything above it is history")
