"""C20 - key naming modes and config-file key names are mutually consistent (DESIGN.md section 3, C20: N1..N5)."""
import string

from ..keymodel import ENCODINGS, KeyModel
from ..report import AnalysisError

EXPLANATION = (
    "N1 keys(CURSES_NAMES) is a subset of keys(CURTSIES_NAMES) on the folded tables.  N2 mode independence: get_key is "
    "abstractly interpreted (object-aware evaluator) on the table-derived sequence set of C03 for utf8/ascii/latin-1, both "
    "`full` values and all three naming modes; for every reachable case the three modes must agree on the KIND of answer "
    "(ask for more / a key / failure), i.e. they cut the stream at the same places.  N3 _key_name is total: for every key "
    "of both tables, every encoding and every mode it returns a non-empty name.  N4 bytes naming returns exactly the bytes "
    "of the keypress; curtsies/curses naming return the table name, else the decoded character, else xHH for an "
    "undecodable byte.  N5 KeyMap.__getitem__ is abstractly interpreted for the whole config-name domain of the property "
    "(C-a..C-z, M-<every printable ASCII character>, F1..F12, the SPECIALS, the unbound key '') - every name it produces must "
    "be a value of the folded CURTSIES_NAMES (a name the decoder can produce), the unbound key maps to (), and a catalogue of "
    "invalid names raises KeyError."
)
NOT_DECIDED = "that bytes.decode cuts at the same points across encodings (it is the encoding, not the naming mode, that matters there)."


def check(src, rep):
    rep.explanation = EXPLANATION
    rep.not_decided = NOT_DECIDED
    rep.assumptions = ["Python codecs for utf8/ascii/latin-1"]
    rep.trusted_base = ["CPython ast", "sa/consteval.py", "sa/absint.py", "sa/objinterp.py", "sa/keymodel.py"]
    km = KeyModel(src)
    counts = {}
    rep.guard(rule_n1, src, rep, km, counts)
    rep.guard(rule_modes, src, rep, km, counts)
    rep.guard(rule_key_name_total, src, rep, km, counts)
    rep.guard(rule_config, src, rep, km, counts)
    rep.guard(rule_inputs_side_by_side, src, rep, km, counts)
    rep.extracted["counts"] = counts
    rep.floor("mode-independence cases", counts.get("mode_cases", 0), 3000)
    rep.floor("config key names", counts.get("config_names", 0), 130)


def rule_inputs_side_by_side(src, rep, km, counts):
    """N6: the naming mode belongs to the Input object: several Inputs with different modes in one process, fed the same bytes
    one after the other (in every order), each name their keys in their own mode."""
    import itertools
    from .. import osmodel
    from ..consteval import Record
    from ..objinterp import NativeFunc, Obj
    it = km.it
    f = src.func("input", "Input.__init__")
    want = {"CURTSIES": ["<UP>", "a", "<F1>"], "CURSES": ["KEY_UP", "a", "KEY_F(1)"], "BYTES": [b"\x1b[A", b"a", b"\x1bOP"]}
    data = b"\x1b[Aa\x1bOP"
    n = 0
    for order in itertools.permutations(["CURTSIES", "CURSES", "BYTES"]):
        it.folder.overrides.clear()
        it.folder.__dict__.pop("_class_attrs", None)
        osm = osmodel.OS()
        osmodel.install(it, osm)
        got = {}
        for mode in order:
            inp = it.new("input", "Input", in_stream=Record(fileno=NativeFunc(lambda a, k: 0), name="<stdin>"), keynames=km.modes[mode],
                         paste_threshold=None)
            mark = it.checkpoint()
            r = it.callm(inp, "unget_bytes", data)
            keys = []
            for _ in range(3):
                r = it.callm(inp, "send", 0)
                if r[0] == "opaque":
                    raise AnalysisError("Input.send outside the evaluated subset: %s" % r[1])
                keys.append(r[1] if r[0] == "ok" else r)
            if it.dirty(mark):
                raise AnalysisError("Input.send: %s" % it.dirty(mark))
            got[mode] = keys
            n += 1
            rep.case(True)
        bad = {m: got[m] for m in order if got[m] != want[m]}
        rep.ob("N6-naming-mode-belongs-to-the-input-object", f.where(), "input:Input", "Inputs created in the order %s, each fed ESC[A a ESC O P" % (order,),
               not bad, "the Input(s) %s returned %s; expected %s" % (sorted(bad), bad, {m: want[m] for m in bad}), witness={"order": list(order)})
    # keynames is a public attribute: ONE Input switched through the modes names its keys in the mode in place at the time
    it.folder.overrides.clear()
    it.folder.__dict__.pop("_class_attrs", None)
    osm = osmodel.OS()
    osmodel.install(it, osm)
    inp = it.new("input", "Input", in_stream=Record(fileno=NativeFunc(lambda a, k: 0), name="<stdin>"), keynames=km.modes["CURTSIES"], paste_threshold=None)
    if "keynames" not in inp.fields:
        raise AnalysisError("Input keeps no public attribute keynames")
    got = {}
    for mode in ("CURTSIES", "BYTES", "CURSES", "CURTSIES"):
        inp.fields["keynames"] = km.modes[mode]
        mark = it.checkpoint()
        it.callm(inp, "unget_bytes", data)
        keys = []
        for _ in range(3):
            r = it.callm(inp, "send", 0)
            if r[0] == "opaque":
                raise AnalysisError("Input.send outside the evaluated subset: %s" % r[1])
            keys.append(r[1] if r[0] == "ok" else r)
        if it.dirty(mark):
            raise AnalysisError("Input.send: %s" % it.dirty(mark))
        got.setdefault(mode, []).append(keys)
        n += 1
        rep.case(True)
    bad = {m: v for m, v in got.items() if any(x != want[m] for x in v)}
    rep.ob("N6-naming-mode-belongs-to-the-input-object", f.where(), "input:Input", "one Input whose keynames attribute is set to each mode in turn, fed ESC[A a ESC O P each time",
           not bad, "after assigning keynames the Input returned %s; expected %s" % (bad, {m: want[m] for m in bad}), witness={"order": ["CURTSIES", "BYTES", "CURSES", "CURTSIES"]})
    # a burst read in one go comes back as a paste event: its keypresses are named in the Input's own mode too, and are cut alike
    burst = b"print \x1b[A\xc3\xa9x"
    want = {"CURTSIES": ["p", "r", "i", "n", "t", "<SPACE>", "<UP>", "\xe9", "x"],
            "BYTES": [b"p", b"r", b"i", b"n", b"t", b" ", b"\x1b[A", b"\xc3\xa9", b"x"]}
    got = {}
    for mode in ("CURTSIES", "CURSES", "BYTES"):
        it.folder.overrides.clear()
        it.folder.__dict__.pop("_class_attrs", None)
        osm = osmodel.OS()
        osmodel.install(it, osm)
        inp = it.new("input", "Input", in_stream=Record(fileno=NativeFunc(lambda a, k: 0), name="<stdin>"), keynames=km.modes[mode])
        mark = it.checkpoint()
        r = it.callm(inp, "__enter__")
        if r[0] != "ok":
            raise AnalysisError("Input.__enter__ gives %s" % (r,))
        osm.data.setdefault(0, []).append(burst)
        r = it.callm(inp, "send", 0)
        if r[0] == "opaque":
            raise AnalysisError("Input.send outside the evaluated subset: %s" % r[1])
        if it.dirty(mark):
            raise AnalysisError("Input.send: %s" % it.dirty(mark))
        ev = r[1] if r[0] == "ok" else r
        got[mode] = list(ev.fields.get("events", [])) if isinstance(ev, Obj) and ev.cls == "PasteEvent" else ev
        it.callm(inp, "__exit__", None, None, None)
        n += 1
        rep.case(True)
    problems = []
    for mode in ("CURTSIES", "BYTES"):
        if got[mode] != want[mode]:
            problems.append("%s naming gives %r, expected %r" % (mode, got[mode], want[mode]))
    if not (isinstance(got["CURSES"], list) and len(got["CURSES"]) == len(want["BYTES"])):
        problems.append("CURSES naming cuts the burst into %s keypress(es): %r; the other modes into %d" % (len(got["CURSES"]) if isinstance(got["CURSES"], list) else "?", got["CURSES"], len(want["BYTES"])))
    rep.ob("N6-paste-events-are-named-in-the-inputs-mode", f.where(), "input:Input", "a 13-byte burst read in one go under each naming mode",
           not problems, "; ".join(problems), witness={"burst": repr(burst)})
    it.folder.overrides.clear()
    counts["side_by_side"] = n


def rule_n1(src, rep, km, counts):
    missing = sorted(set(km.curses) - set(km.curtsies))
    rep.ob("N1-curses-subset-of-curtsies", "curtsies/events.py", "events:<module>",
           "keys(CURSES_NAMES) (%d) within keys(CURTSIES_NAMES) (%d)" % (len(km.curses), len(km.curtsies)), not missing,
           "sequences %s have a curses-style name but no curtsies name" % missing[:6], witness={"missing": [repr(m) for m in missing[:8]]})


def _kind(r):
    if r[0] == "raise":
        return "failure"
    if r[0] == "ok" and r[1] is None:
        return "more"
    return "key"


def rule_modes(src, rep, km, counts):
    f = src.func("events", "get_key")
    g = src.func("events", "_key_name")
    seqs = km.sequences(thorough=rep.tier == "thorough")
    n = bad = badn = 0
    work = [(seq, enc, full) for enc in ENCODINGS for seq in seqs
            if len(seq) <= km.max_size + 1 and km.reachable(seq, enc) for full in (False, True)]
    from ..par import pmap
    results = pmap(lambda w: {m: km.get_key(w[0], w[1], m, w[2]) for m in ("CURTSIES", "CURSES", "BYTES")}, work)
    for (seq, enc, full), res in zip(work, results):
            if True:
                for m, r in res.items():
                    if r[0] == "opaque":
                        raise AnalysisError("get_key outside the evaluated subset for %r (%s): %s" % (seq, m, r[1]))
                kinds = {m: _kind(r) for m, r in res.items()}
                n += 1
                rep.case(kinds["CURTSIES"] != "failure", {"seq": repr(seq), "encoding": enc, "full": full,
                                                          "answers": {m: str(r) for m, r in res.items()}} if n % 2111 == 1 else None)
                # curses naming of a multi-byte undecodable sequence without a curses name is unnameable by design
                # (NotImplementedError); that is a failure of naming, not of cutting, and only arises outside valid input
                exp = km.expected(seq, enc, full)
                if len(set(kinds.values())) != 1 and exp[0] != "dontcare":
                    bad += 1
                    if bad <= 3:
                        rep.ob("N2-modes-cut-at-the-same-places", f.where(), f.scope, "%r, %s, full=%s" % (seq, enc, full), False,
                               "the naming modes disagree on where the keypress ends: %s (answers %s)" % (kinds, {m: str(r) for m, r in res.items()}),
                               witness={"seq": repr(seq), "encoding": enc, "full": full, "kinds": kinds})
                    continue
                if kinds["CURTSIES"] == "key" and exp[0] != "dontcare":
                    for m in ("CURTSIES", "CURSES", "BYTES"):
                        if kinds[m] != "key":
                            continue
                        want = km.expected_name(seq, enc, m)
                        if want is not None and res[m][1] != want:
                            badn += 1
                            if badn <= 3:
                                rep.ob("N4-name-per-mode", g.where(), g.scope, "%r, %s, mode %s" % (seq, enc, m), False,
                                       "%s naming gives %r, expected %r (%s)" % (m, res[m][1], want,
                                       "exactly the bytes of the keypress" if m == "BYTES" else "table name, else the character, else xHH"),
                                       witness={"seq": repr(seq), "encoding": enc, "mode": m})
    if not bad:
        rep.ob("N2-modes-cut-at-the-same-places", f.where(), f.scope, "%d (sequence, encoding, full) cases x 3 modes" % n, True)
    if not badn:
        rep.ob("N4-name-per-mode", g.where(), g.scope, "names of every recognised case in all three modes", True)
    counts["mode_cases"] = n


def rule_key_name_total(src, rep, km, counts):
    g = src.func("events", "_key_name")
    n = bad = 0
    for enc in ENCODINGS:
        for seq in sorted(km.keys):
            for m in ("CURTSIES", "CURSES", "BYTES"):
                if m == "CURTSIES" and seq not in km.curtsies and not km.decodable(seq, enc):
                    continue
                r = km.it.call1("events", "_key_name", seq, enc, km.modes[m])
                if r[0] == "opaque":
                    raise AnalysisError("_key_name outside the evaluated subset: %s" % r[1])
                n += 1
                rep.case(True)
                ok = r[0] == "ok" and r[1] is not None and len(r[1]) > 0
                if not ok:
                    bad += 1
                    if bad <= 3:
                        rep.ob("N3-key-name-total", g.where(), g.scope, "table key %r, %s, mode %s" % (seq, enc, m), False,
                               "_key_name gives %s for a table sequence: the key cannot be reported in this mode" % (r,),
                               witness={"seq": repr(seq), "encoding": enc, "mode": m})
    if not bad:
        rep.ob("N3-key-name-total", g.where(), g.scope, "%d (table key, encoding, mode) cases" % n, True)
    counts["key_name_cases"] = n


def rule_config(src, rep, km, counts):
    f = src.func("configfile_keynames", "KeyMap.__getitem__")
    it = km.it
    specials = it.folder.const("configfile_keynames", "SPECIALS", dict)
    producible = set(km.curtsies.values())
    mark = it.checkpoint()
    obj = it.new("configfile_keynames", "KeyMap")
    if it.dirty(mark):
        raise AnalysisError("constructing KeyMap: %s" % it.dirty(mark))
    domain = []
    domain += ["C-%s" % c for c in string.ascii_lowercase]
    domain += ["M-%s" % chr(c) for c in range(0x20, 0x7f)]
    domain += ["F%d" % i for i in range(1, 13)]
    domain += sorted(specials)
    n = 0
    for key in domain:
        n += 1
        r = it.call1("configfile_keynames", "KeyMap.__getitem__", obj, key)
        if r[0] == "opaque":
            raise AnalysisError("KeyMap.__getitem__ outside the evaluated subset for %r: %s" % (key, r[1]))
        rep.case(True, {"config_key": key, "names": str(r[1])} if key in ("C-a", "M-x", "F5", "C-[") else None)
        if r[0] != "ok" or not isinstance(r[1], tuple) or not r[1]:
            rep.ob("N5-config-key-maps-to-names", f.where(), f.scope, "keymap[%r]" % key, False,
                   "a valid configuration key name gives %s instead of a tuple of key names" % (r,), witness={"key": key})
            continue
        dead = [x for x in r[1] if x not in producible]
        rep.ob("N5-config-names-producible", f.where(), f.scope, "keymap[%r] -> %s%s" % (key, list(r[1]), ", never produced: %s" % dead if dead else ""), not dead,
               "the decoder never produces %s (the bytes of that key are named %s): a binding to %s is silently dead"
               % (dead, _what_instead(km, key), key), witness={"key": key, "names": list(r[1]), "dead": dead})
    r = it.call1("configfile_keynames", "KeyMap.__getitem__", obj, "")
    rep.ob("N5-unbound-key-maps-to-nothing", f.where(), f.scope, "keymap['']", r == ("ok", ()),
           "an unbound key must map to (), got %s" % (r,))
    for bad in ("X-a", "Fx", "F", "bogus", "C", "M", "a", "Ctrl-a", "f1"):
        r = it.call1("configfile_keynames", "KeyMap.__getitem__", obj, bad)
        if r[0] == "opaque":
            raise AnalysisError("KeyMap.__getitem__ outside the evaluated subset for %r: %s" % (bad, r[1]))
        rep.ob("N5-invalid-config-name-rejected", f.where(), f.scope, "keymap[%r]" % bad, r == ("raise", "KeyError"),
               "an invalid configuration key name must raise KeyError, got %s" % (r,))
    counts["config_names"] = n


def _what_instead(km, key):
    if key.startswith("C-") and len(key) == 3:
        b = bytes([ord(key[2]) & 0x1f])
        return "%r" % km.curtsies.get(b)
    if key.startswith("M-") and len(key) == 3:
        return "%r / %r" % (km.curtsies.get(b"\x1b" + key[2].encode()), km.curtsies.get(bytes([ord(key[2]) + 0x80])))
    return "?"
