"""C01 - str(FmtStr) displays exactly its characters and formatting, then resets.

Writer model: Chunk.color_str / Chunk.__str__ / FmtStr.__str__ are abstractly interpreted (whatever tables, helper
functions or loops they use) over the whole attribute space and judged by an independent SGR reference machine
(DESIGN.md section 3, C01).
"""
import ast
import re

from .. import sgr
from ..consteval import PlainText, SymStr, Unknown
from ..fold import new_interp
from ..models import Writer, mk_fmtstr
from ..objinterp import Obj
from ..report import AnalysisError
from ..srcmodel import unparse

EXPLANATION = (
    "The SGR writer is a closed template program over compile-time tables.  (W) the wrapper tables one_arg_xforms / "
    "two_arg_xforms are folded and each entry is applied to symbolic text and value: it must be [SGR open] text [SGR close], "
    "keys must be exactly the STYLES keys and {fg,bg}, a style opens with its own table code, and seq() must build "
    "ESC[<n>m and nothing else.  (F) Chunk.color_str is abstractly interpreted (constant-propagation domain, fully "
    "symbolic text) for EVERY attribute set of the quantifier - fg in {absent,30..37} x bg in {absent,40..47} x each of six "
    "styles in {absent,True,False}: 59049 sets in thorough, 5184 + explicit-False sets in quick - and the resulting token "
    "stream is run through an independent ECMA-48 SGR reference machine: the graphic state at the text must be exactly "
    "the set's truthy attributes, the state at the end must be the default, every token must be an SGR sequence, the text "
    "appears once.  A decision that depends on the text (an atom that cannot be decided from the attributes) is explored "
    "both ways and each outcome is judged.  (J) str(FmtStr) is interpreted for values of 0-3 runs (empty runs, runs sharing "
    "and not sharing attributes, each combination drawn from a small attribute pool) and must be exactly the "
    "concatenation, in order, of the runs' own strings - so, every run starting and ending in the default state, runs "
    "compose and adjacency needs no further enumeration.  (S) the memoised terminal string cannot go stale (C13's rules "
    "for _unicode / chunks)."
)
NOT_DECIDED = ("text that itself contains ESC (excluded by the property); what a real terminal does with the sequences "
               "(the ECMA-48 subset encoded in sa/sgr.py is the oracle).")


def _tok(s):
    """Tokenise a template string with symbolic pieces: ('SGR', [codes|'v']) / ('S',) / ('JUNK', text)."""
    out = []
    pos = 0
    pat = re.compile("\x1b\\[((?:[0-9]+|v)(?:;(?:[0-9]+|v))*)?m|s", re.S)
    for m in pat.finditer(s):
        if m.start() > pos:
            out.append(("JUNK", s[pos:m.start()]))
        if m.group(0) == "s":
            out.append(("S",))
        else:
            ps = m.group(1) or ""
            out.append(("SGR", [("v" if x == "v" else int(x)) for x in ps.split(";")] if ps else []))
        pos = m.end()
    if pos < len(s):
        out.append(("JUNK", s[pos:]))
    return out


def _show(toks):
    return " ".join("TEXT" if t[0] == "S" else ("SGR%s" % t[1] if t[0] == "SGR" else "JUNK(%r)" % t[1]) for t in toks)


def wrapper_templates(src, rep, it):
    fold = it.folder
    env = fold.module("formatstring")
    tc = fold.const("termformatconstants", "STYLES", dict)
    one = env.get("one_arg_xforms")
    two = env.get("two_arg_xforms")
    if not isinstance(one, dict) or not isinstance(two, dict):
        raise AnalysisError("one_arg_xforms/two_arg_xforms do not fold to dicts: %r %r" % (type(one), type(two)))
    where = "curtsies/formatstring.py"
    rep.ob("W1-wrapper-keys", where, "formatstring:<module>", "keys(one_arg_xforms) == keys(STYLES)",
           set(one) == set(tc), "style table and wrapper table disagree: only in STYLES %s, only in one_arg_xforms %s"
           % (sorted(set(tc) - set(one)), sorted(set(one) - set(tc))))
    rep.ob("W1-wrapper-keys", where, "formatstring:<module>", "keys(two_arg_xforms) == {fg, bg}",
           set(two) == {"fg", "bg"}, "two_arg_xforms must wrap exactly fg and bg, has %s" % sorted(two))
    S = SymStr("s")
    V = SymStr("v")
    templates = {}
    for table, tname, args in ((one, "one_arg_xforms", [S]), (two, "two_arg_xforms", [S, V])):
        for k, fn in sorted(table.items()):
            scope = "formatstring:%s[%r]" % (tname, k)
            try:
                out = fold.v_call(fn, list(args), {}, None, {})
            except Unknown as e:
                raise AnalysisError("%s[%r]: wrapper not evaluable: %s" % (tname, k, e))
            except Exception as e:
                rep.ob("W2-wrapper-template", where, scope, "%s[%r]" % (tname, k), False,
                       "calling the wrapper with (text%s) raises %s" % (", value" if len(args) == 2 else "", getattr(e, "name", e)))
                continue
            if not isinstance(out, str):
                rep.ob("W2-wrapper-template", where, scope, "%s[%r]" % (tname, k), False, "wrapper returns %r, not a string" % (out,))
                continue
            toks = _tok(out)
            shape = [t[0] for t in toks]
            ok = shape.count("S") == 1 and "JUNK" not in shape and shape[0] == "SGR" and shape[-1] == "SGR"
            rep.ob("W2-wrapper-template", where, scope, "%s[%r] -> %s" % (tname, k, _show(toks)), ok,
                   "wrapper must be <SGR open> text <SGR close> and nothing else; got %s" % _show(toks))
            templates[k] = out
            if ok and len(args) == 1:
                opens = [t[1] for t in toks[:shape.index("S")]]
                rep.ob("W3-style-opens-own-code", where, scope, "open codes %s for style %r (STYLES[%r] = %r)" % (opens, k, k, tc.get(k)),
                       opens == [[tc.get(k)]], "style %r is opened with %s instead of its own code %r" % (k, opens, tc.get(k)))
            if ok and len(args) == 2:
                opens = [t[1] for t in toks[:shape.index("S")]]
                rep.ob("W3-colour-opens-its-value", where, scope, "open codes %s" % opens, opens == [["v"]],
                       "the colour wrapper must open with the colour value it is given")
    seqf = fold.module("termformatconstants").get("seq")
    try:
        seq_out = fold.v_call(seqf, [V], {}, None, {})
    except Unknown as e:
        raise AnalysisError("termformatconstants.seq is not evaluable: %s" % e)
    toks = _tok(seq_out) if isinstance(seq_out, str) else []
    rep.ob("W4-seq-is-sgr", "curtsies/termformatconstants.py", "termformatconstants:seq", repr(seq_out).replace("v", "{num}"),
           [t[0] for t in toks] == ["SGR"] and toks[0][1] == ["v"], "seq(n) must be exactly ESC [ n m; got %s" % _show(toks))
    rep.extracted["wrapper_templates"] = {k: _show(_tok(v)) for k, v in templates.items()}
    return templates


def judge_stream(stream, want):
    """None when the stream displays the text with exactly `want` and ends in the default state; else the problem."""
    toks = sgr.tokenize(stream)
    state = sgr.DEFAULT
    at_text = None
    ntext = 0
    for t in toks:
        if t[0] == "JUNK":
            return "emits %r, which is neither the text nor an SGR sequence" % t[1]
        if t[0] == "TEXT":
            at_text = state
            ntext += 1
        else:
            try:
                state = sgr.apply_params(state, t[1])
            except sgr.Unsupported as e:
                return "emits SGR code %s, which is not one of the colour/style/reset codes" % e
    if ntext != 1:
        return "the text appears %d times" % ntext
    if at_text != want:
        return "text is displayed with %s, the run's attributes are %s" % (_st(at_text), _st(want))
    if state != sgr.DEFAULT:
        return "graphic state after the run is %s, not the default" % _st(state)
    return None


def enumerate_model(src, rep, it, writer):
    f = writer.f
    bad = 0
    n = 0
    first_bad = {}
    for fg, bg, styles in sgr.attribute_sets(rep.tier):
        atts = dict(styles)
        if fg is not None:
            atts["fg"] = fg
        if bg is not None:
            atts["bg"] = bg
        want = sgr.expected_state(fg, bg, styles)
        outs = writer.outcomes(atts)
        n += 1
        sample = None
        for o in outs:
            stream = None
            if o.opaque or o.term != "return" or not isinstance(o.value, str):
                if o.term == "raise":
                    problem = "color_str raises %s" % o.value
                else:
                    raise AnalysisError("Chunk.color_str leaves the evaluated subset for %s: %s" % (atts, o.opaque or o))
            else:
                stream = o.value
                problem = judge_stream(stream, want)
            if problem:
                bad += 1
                key = problem.split(",")[0][:60]
                if key not in first_bad:
                    first_bad[key] = {"attributes": atts, "stream": _printable(stream), "assuming": o.assumptions, "problem": problem}
            elif sample is None and stream is not None:
                sample = {"attributes": atts, "stream": _printable(stream), "state_at_text": _st(want)}
        rep.case(want != sgr.DEFAULT, sample if n % 997 == 1 else None)
    rep.exhaustive = True
    where = f.where()
    if bad:
        for key, w in list(first_bad.items())[:6]:
            rep.ob("F2-model-enumeration", where, f.scope, "writer model: %s" % key, False,
                   "%s (attribute set %s%s); %d deviating (set, outcome) pairs in total"
                   % (w["problem"], w["attributes"], (" assuming " + str(w["assuming"])) if w["assuming"] else "", bad), witness=w)
    else:
        rep.ob("F2-model-enumeration", where, f.scope, "writer model: %d attribute sets x reference SGR machine" % n, True)
    rep.extracted["attribute_sets"] = n
    rep.extracted["deviations"] = bad


PROBE_TEXTS = ["\u0301x", "\u0301", "\u200dx", "\ufe0fa", "e\u0301", "\u212b\u1100\u1161", "\uf900", "a\n", "\n", "a\r\nb", "a\rb", "a\x0bb", "a\x0cb", "a\u2028b", "\tx ", "   ", " a", "a ", "\u00e9\u2713\uff25", "x" * 40, "0", "m", "[31m"]
PROBE_ATTS = [{"fg": 31}, {"bg": 44}, {"bold": True}, {"dark": True}, {"italic": True}, {"underline": True}, {"blink": True}, {"invert": True},
              {"fg": 32, "bg": 41, "bold": True}, {"bg": 47, "underline": False}, {}]


def concrete_probes(src, rep, it):
    """The enumeration above leaves the text fully symbolic, so code that INSPECTS the text is an unknown atom there.  Here the
    writer is interpreted on concrete awkward texts (line boundaries of every kind, blanks, wide and accented characters, text
    that looks like parameters): with the SGR sequences removed the output must be exactly the text, every character of it
    displayed with exactly the run's attributes, default state at the end."""
    import re as _re
    f = src.func("formatstring", "Chunk.color_str")
    sgr_re = _re.compile("\x1b\\[([0-9;]*)m")
    n = 0
    bad = []
    for atts in PROBE_ATTS:
        want = sgr.expected_state(atts.get("fg"), atts.get("bg"), {k: v for k, v in atts.items() if k not in ("fg", "bg")})
        for text in PROBE_TEXTS:
            chunk = it.new("formatstring", "Chunk", text, dict(atts))
            r = it.call1("formatstring", "Chunk.color_str", chunk)
            if r[0] == "opaque":
                raise AnalysisError("Chunk.color_str outside the evaluated subset on concrete text %r: %s" % (text, r[1]))
            n += 1
            rep.case(True)
            if r[0] != "ok" or not isinstance(r[1], str):
                bad.append((atts, text, "color_str gives %s" % (r,)))
                continue
            out = r[1]
            shown = []
            state = sgr.DEFAULT
            pos = 0
            problem = None
            for m in sgr_re.finditer(out):
                shown.extend((ch, state) for ch in out[pos:m.start()])
                try:
                    state = sgr.apply_params(state, [int(x) if x else 0 for x in m.group(1).split(";")] if m.group(1) else [])
                except sgr.Unsupported as e:
                    problem = "emits SGR code %s" % e
                pos = m.end()
            shown.extend((ch, state) for ch in out[pos:])
            got_text = "".join(ch for ch, _ in shown)
            if problem is None and got_text != text:
                problem = "the characters displayed are %r, the run's text is %r" % (got_text, text)
            if problem is None and any(st != want for _, st in shown):
                k = [i for i, (_, st) in enumerate(shown) if st != want][0]
                problem = "character %d (%r) is displayed with %s, the run's attributes are %s" % (k, shown[k][0], _st(shown[k][1]), _st(want))
            if problem is None and state != sgr.DEFAULT:
                problem = "graphic state after the run is %s, not the default" % _st(state)
            if problem:
                bad.append((atts, text, problem))
    if bad:
        atts, text, problem = bad[0]
        rep.ob("F3-concrete-text-probes", f.where(), f.scope, "writer on concrete texts (line boundaries, blanks, wide characters, parameter look-alikes)", False,
               "run %r with attributes %s: %s (%d of %d probes deviate)" % (text, atts, problem, len(bad), n),
               witness={"text": text, "attributes": atts})
    else:
        rep.ob("F3-concrete-text-probes", f.where(), f.scope, "writer on concrete texts (line boundaries, blanks, wide characters, parameter look-alikes)", True)
    rep.extracted["concrete_probes"] = n


def derived(src, rep, it):
    """str() of values arrived at through a history (every public operation on base values that were looked at first): what a
    terminal shows for it must be the value's own runs, default state at the end."""
    from ..derive import derived_values
    from ..models import view_problem
    f = src.func("formatstring", "FmtStr.__str__")
    bad = []
    vals = derived_values(it)
    for how, v in vals:
        rep.case(True)
        why = v[1] if isinstance(v, tuple) else view_problem(it, v)
        if why is not None:
            bad.append((how, why))
    rep.extracted["derived_values"] = len(vals)
    if len(vals) < 80:
        raise AnalysisError("only %d derived values could be built" % len(vals))
    if bad:
        bad.sort(key=lambda x: len(x[0]))
        rep.ob("J4-derived-values-display-their-own-runs", f.where(), f.scope, "str() of every value of the derived pool", False,
               "%s: %s (%d of %d derived values)" % (bad[0][0], bad[0][1], len(bad), len(vals)), witness={"made by": bad[0][0]})
    else:
        rep.ob("J4-derived-values-display-their-own-runs", f.where(), f.scope, "str() of every value of the derived pool", True)


def _st(state):
    if state is None:
        return "<text never reached>"
    fg, bg, st = state
    return "fg=%s bg=%s styles=%s" % (fg, bg, sorted(st))


def _printable(s):
    if s is None:
        return None
    return s.replace("\x1b", "ESC").replace(sgr.TEXT, "<text>")


POOL = [{}, {"fg": 31}, {"bg": 44, "bold": True}, {"fg": 31, "underline": True, "bold": False}, {"fg": 31, "bold": True}, {"fg": 31, "bg": 44}]


def _judge_multi(stream, runs):
    """None when `stream` displays the texts of `runs` in order, each with exactly its attributes, and ends in the default state."""
    import re as _re
    tok = _re.compile("\x1b\\[([0-9;]*)m|(\ue000.\ue001)", _re.S)
    state = sgr.DEFAULT
    seen = []
    pos = 0
    for m in tok.finditer(stream):
        if m.start() != pos:
            return "emits %r, which is neither a run's text nor an SGR sequence" % stream[pos:m.start()]
        pos = m.end()
        if m.group(2):
            seen.append((m.group(2), state))
        else:
            try:
                state = sgr.apply_params(state, [int(x) if x else 0 for x in m.group(1).split(";")] if m.group(1) else [])
            except sgr.Unsupported as e:
                return "emits SGR code %s" % e
    if pos != len(stream):
        return "emits %r, which is neither a run's text nor an SGR sequence" % stream[pos:]
    if [t for t, _ in seen] != [t for t, _ in runs]:
        return "the texts displayed are %s, the runs are %s" % ([t[1] for t, _ in seen], [t[1] for t, _ in runs])
    for (t, st), (_, a) in zip(seen, runs):
        want = sgr.expected_state(a.get("fg"), a.get("bg"), {k: v for k, v in a.items() if k not in ("fg", "bg")})
        if st != want:
            return "run %s is displayed with %s, its attributes are %s" % (t[1], _st(st), _st(want))
    if state != sgr.DEFAULT:
        return "graphic state after the string is %s, not the default" % _st(state)
    return None


def joining(src, rep, it, writer):
    """str(FmtStr) == concatenation of the runs' own strings, in order, nothing added, nothing dropped."""
    g = src.func("formatstring", "FmtStr.__str__")
    texts = [PlainText("A"), PlainText("B"), PlainText("C"), ""]
    layouts = [[]]
    for a in POOL:
        layouts.append([(texts[0], a)])
    for a in POOL:
        for b in POOL:
            layouts.append([(texts[0], a), (texts[1], b)])
    layouts += [[(texts[0], POOL[1]), ("", POOL[2]), (texts[1], POOL[1])], [("", {}), (texts[0], POOL[2])],
                [(texts[0], POOL[2]), (texts[1], POOL[1]), (texts[2], POOL[3])], [(texts[0], POOL[1]), (texts[1], POOL[1]), (texts[2], POOL[1])]]
    n = bad = 0
    for runs in layouts:
        n += 1
        obj = mk_fmtstr(it, *runs)
        r = it.call1("formatstring", "FmtStr.__str__", obj)
        if r[0] == "opaque":
            raise AnalysisError("FmtStr.__str__ outside the evaluated subset: %s" % r[1])
        parts = []
        for t, a in runs:
            c = it.new("formatstring", "Chunk", t, dict(a))
            rc = it.call1("formatstring", "Chunk.__str__", c)
            if rc[0] != "ok" or not isinstance(rc[1], str):
                raise AnalysisError("Chunk.__str__ outside the evaluated subset: %s" % (rc,))
            parts.append(rc[1])
            # a run's own string is its color_str
            s2 = writer.stream(a)
            if s2 is not None and t != "":
                exp = s2.replace(sgr.TEXT, str(t))
                if rc[1] != exp:
                    rep.ob("J1-chunk-str-is-color_str", g.where(), "formatstring:Chunk.__str__", "run %s" % (a,), False,
                           "str(run) is %r, its color_str is %r" % (_printable(rc[1]), _printable(exp)))
        want = "".join(parts)
        rep.case(bool(runs))
        # what must hold is what is DISPLAYED: every run's text, in order, each with exactly its own attributes, default state
        # at the end, nothing else emitted.  (Byte-for-byte concatenation of the runs' strings is one way to get there, not
        # the only one: eliding a redundant off/on pair between equal colours is fine as long as the display is the same.)
        problem = None
        if r[0] != "ok" or not isinstance(r[1], str):
            problem = "str(f) gives %s" % (r,)
        else:
            problem = _judge_multi(r[1], [(str(t), a) for t, a in runs if t != ""])
        r2 = it.call1("formatstring", "FmtStr.__str__", obj)
        if problem is None and r2 != r:
            problem = "a second str(f) gives %r" % (r2,)
        if problem:
            bad += 1
            if bad <= 3:
                rep.ob("J3-str-displays-every-run-with-its-own-attributes", g.where(), g.scope, "%d runs %s" % (len(runs), [a for _, a in runs]), False,
                       "str(f) is %r: %s (the runs' own strings concatenated are %r)"
                       % (_printable(r[1]) if r[0] == "ok" else r, problem, _printable(want)), witness={"runs": str(runs)})
    if not bad:
        rep.ob("J3-str-displays-every-run-with-its-own-attributes", g.where(), g.scope, "%d run layouts (0-3 runs, empty runs, shared/unshared attributes)" % n, True)
    rep.ob("J1-chunk-str-is-color_str", g.where(), "formatstring:Chunk.__str__", "str(run) == color_str for every run of the layouts", True)


def cache_coherence(src, rep):
    """The terminal string is memoised in FmtStr._unicode: str(f) is what C01 talks about only while that slot and the
    run list it was computed from cannot change behind it.  These are C13's rules I1/I2/I3 restricted to the `_unicode`
    slot and to `chunks`; they are cited here because a stale or foreign-written cache makes str(f) display other
    characters/formatting than f has."""
    from . import c13
    from ..report import Report
    tmp = Report("C01", rep.tier, rep.repo)
    counts = {}
    c13.rule_i1(src, tmp, "formatstring", counts)
    c13.rule_alias(src, tmp, {"chunks"}, c13.LIST_MUT, "I2-no-inplace-on-shared-chunks",
                   "the list is (or may alias) the run list of an existing FmtStr", counts)
    c13.rule_i3(src, tmp, "formatstring", counts)
    for o in tmp.obligations:
        txt = o.construct + " " + o.detail
        if o.rule.startswith("I2") or "_unicode" in txt or ".chunks" in txt or "__str__" in o.scope:
            o.rule = "S-" + o.rule
            rep.obligations.append(o)
    rep.errors.extend(tmp.errors)


def check(src, rep):
    rep.explanation = EXPLANATION
    rep.not_decided = NOT_DECIDED
    rep.assumptions = ["ECMA-48 SGR subset as encoded in sa/sgr.py: 0 resets all; 1,2,3,4,5,7 set a style; 30-37/40-47 set a "
                       "colour; 39/49 reset one colour", "str concatenation/format semantics"]
    rep.trusted_base = ["CPython ast module", "sa/consteval.py", "sa/absint.py", "sa/objinterp.py (evaluators)",
                        "sa/sgr.py (reference SGR machine)"]
    it = new_interp(src)
    writer = Writer(src, it)
    templates = rep.guard(wrapper_templates, src, rep, it)
    rep.guard(enumerate_model, src, rep, it, writer)
    rep.guard(concrete_probes, src, rep, it)
    rep.guard(joining, src, rep, it, writer)
    rep.guard(derived, src, rep, it)
    rep.guard(cache_coherence, src, rep)
    rep.floor("wrapper templates", len(templates or {}), 6)
    rep.floor("attribute sets enumerated", rep.model_cases, 5000)
