"""C01 - str(FmtStr) displays exactly its characters and formatting, then resets.

Writer model: wrapper templates + fold order extracted from source, enumerated over the whole attribute space against an
independent SGR reference machine; structural rules for the joining of runs (DESIGN.md section 3, C01).
"""
import ast

from .. import sgr
from ..absint import BlockEval
from ..consteval import Folder, Lam, Record, SymStr, TOP, Unknown
from ..report import AnalysisError
from ..srcmodel import is_self_attr, unparse

EXPLANATION = (
    "The SGR writer is a closed template program over compile-time tables.  (1) Wrapper tables one_arg_xforms / "
    "two_arg_xforms are folded with symbolic text and value: each must be [SGR open] text [SGR close], keys must be "
    "exactly the STYLES keys and {fg,bg}, and seq() must build ESC[<n>m and nothing else.  (3,4) Chunk.color_str is "
    "abstractly interpreted (constant-propagation domain, symbolic text) for EVERY attribute set of the quantifier - "
    "fg in {absent,30..37} x bg in {absent,40..47} x each of six styles in {absent,True,False}: 59049 sets in thorough, "
    "5184 + explicit-False sets in quick - and the resulting token stream is run through an independent ECMA-48 SGR "
    "reference machine: the graphic state at the text must be exactly the set's truthy attributes, the state at the end "
    "must be the default, and every token must be an SGR sequence.  Because every run starts and ends in the default "
    "state, runs compose: adjacency needs no further enumeration.  A decision that depends on the text (an atom the "
    "folder cannot decide from the attributes) is explored both ways and each outcome is judged.  (5) FmtStr.__str__ "
    "joins str(run) of every run of self.chunks, unfiltered and in order, with the empty separator; Chunk.__str__ "
    "returns color_str for str values."
)
NOT_DECIDED = ("text that itself contains ESC (excluded by the property); what a real terminal does with the sequences "
               "(the ECMA-48 subset encoded in sa/sgr.py is the oracle); memoisation of the result (C13).")


def _module_env(fold, name):
    return dict(fold.module(name))


def wrapper_templates(src, rep, fold):
    env = _module_env(fold, "formatstring")
    tc = fold.const("termformatconstants", "STYLES", dict)
    one = env.get("one_arg_xforms")
    two = env.get("two_arg_xforms")
    m = src.module("formatstring")
    if not isinstance(one, dict) or not isinstance(two, dict):
        raise AnalysisError("one_arg_xforms/two_arg_xforms are not foldable dict displays: %r %r" % (type(one), type(two)))
    rep.ob("W1-wrapper-keys", "curtsies/formatstring.py", "formatstring:<module>", "keys(one_arg_xforms) == keys(STYLES)",
           set(one) == set(tc), "style table and wrapper table disagree: only in STYLES %s, only in one_arg_xforms %s"
           % (sorted(set(tc) - set(one)), sorted(set(one) - set(tc))))
    rep.ob("W1-wrapper-keys", "curtsies/formatstring.py", "formatstring:<module>", "keys(two_arg_xforms) == {fg, bg}",
           set(two) == {"fg", "bg"}, "two_arg_xforms must wrap exactly fg and bg, has %s" % sorted(two))
    templates = {}
    S = SymStr("s")
    V = SymStr("v")
    for table, tname, nargs in ((one, "one_arg_xforms", 1), (two, "two_arg_xforms", 2)):
        for k, lam in sorted(table.items()):
            where = "curtsies/formatstring.py:%d" % (lam.node.lineno if isinstance(lam, Lam) else 0)
            scope = "formatstring:%s[%r]" % (tname, k)
            if not isinstance(lam, Lam):
                raise AnalysisError("%s[%r] is not a lambda" % (tname, k))
            names = [a.arg for a in lam.node.args.args]
            if len(names) != nargs:
                rep.ob("W2-wrapper-template", where, scope, unparse(lam.node), False,
                       "wrapper takes %d parameters, the fold calls it with %d" % (len(names), nargs))
                continue
            e2 = dict(lam.env)
            e2[names[0]] = S
            if nargs == 2:
                e2[names[1]] = V
            try:
                out = fold.expr(lam.node.body, e2)
            except Unknown as e:
                raise AnalysisError("%s[%r]: template not foldable: %s" % (tname, k, e))
            toks = _tok(out)
            shape = [t[0] for t in toks]
            n_text = shape.count("S")
            junk = [t for t in toks if t[0] == "JUNK"]
            ok = n_text == 1 and not junk and shape and shape[0] == "SGR" and shape[-1] == "SGR"
            rep.ob("W2-wrapper-template", where, scope, unparse(lam.node.body), ok,
                   "wrapper must be <SGR open> text <SGR close> and nothing else; got %s" % _show(toks))
            templates[k] = (nargs, out)
            # the opening code of a style wrapper is the table's code for ITS OWN key
            if nargs == 1 and ok:
                opens = [t[1] for t in toks[:shape.index("S")]]
                rep.ob("W3-style-opens-own-code", where, scope, "open codes %s for style %r (STYLES[%r] = %r)" % (opens, k, k, tc.get(k)),
                       opens == [[tc.get(k)]], "style %r is opened with %s instead of its own code %r" % (k, opens, tc.get(k)))
            if nargs == 2 and ok:
                opens = [t[1] for t in toks[:shape.index("S")]]
                rep.ob("W3-colour-opens-its-value", where, scope, "open codes %s" % opens, opens == [["v"]],
                       "the colour wrapper must open with the colour value it is given")
    # seq itself
    seq_out = None
    try:
        e3 = _module_env(fold, "termformatconstants")
        seq_out = fold.expr(ast.parse("seq(X)", mode="eval").body, dict(e3, X=V))
    except Unknown as e:
        raise AnalysisError("termformatconstants.seq is not a foldable single-return function: %s" % e)
    toks = _tok(seq_out)
    rep.ob("W4-seq-is-sgr", "curtsies/termformatconstants.py", "termformatconstants:seq", repr(seq_out).replace("v", "{num}"),
           [t[0] for t in toks] == ["SGR"] and toks[0][1] == ["v"],
           "seq(n) must be exactly ESC [ n m; got %s" % _show(toks))
    rep.extracted["wrapper_templates"] = {k: _show(_tok(v[1])) for k, v in templates.items()}
    return templates


def _tok(s):
    """Tokenise a template string with symbolic pieces: ('SGR', [codes|'v']) / ('S',) / ('JUNK', text)."""
    import re
    out = []
    pos = 0
    pat = re.compile("\x1b\\[((?:[0-9]+|v)(?:;(?:[0-9]+|v))*)?m|s", re.S)
    for m in pat.finditer(s):
        if m.start() > pos:
            out.append(("JUNK", s[pos:m.start()]))
        if m.group(0) == "s":
            out.append(("S",))
        else:
            ps = m.group(1) or ""
            out.append(("SGR", [("v" if x == "v" else int(x)) for x in ps.split(";")] if ps else []))
        pos = m.end()
    if pos < len(s):
        out.append(("JUNK", s[pos:]))
    return out


def _show(toks):
    return " ".join("TEXT" if t[0] == "S" else ("SGR%s" % t[1] if t[0] == "SGR" else "JUNK(%r)" % t[1]) for t in toks)


def fold_structure(src, rep):
    f = src.func("formatstring", "Chunk.color_str")
    loops = [n for n in f.node.body if isinstance(n, ast.For)]
    if len(loops) != 1:
        raise AnalysisError("Chunk.color_str: expected exactly one top-level for loop, found %d" % len(loops))
    it = loops[0].iter
    ok = isinstance(it, ast.Call) and isinstance(it.func, ast.Name) and it.func.id == "sorted" and len(it.args) == 1 and \
        not any(k.arg in ("key", "reverse") for k in it.keywords) and isinstance(it.args[0], ast.Call) and \
        isinstance(it.args[0].func, ast.Attribute) and it.args[0].func.attr == "items" and \
        is_self_attr(it.args[0].func.value) and it.args[0].func.value.attr in ("_atts", "atts")
    if not ok:
        raise AnalysisError("Chunk.color_str iterates over `%s`; only sorted(self._atts.items()) is modelled (an "
                            "iteration order that depends on construction history would need every permutation)" % unparse(it))
    rep.ob("F1-fold-order-deterministic", f.where(loops[0]), f.scope, "for %s in %s" % (unparse(loops[0].target), unparse(it)), True)
    return f


def enumerate_model(src, rep, fold, f):
    env0 = _module_env(fold, "formatstring")
    be = BlockEval(fold, max_states=64)
    T = SymStr(sgr.TEXT)
    bad = 0
    n = 0
    first_bad = {}
    for fg, bg, styles in sgr.attribute_sets(rep.tier):
        atts = dict(styles)
        if fg is not None:
            atts["fg"] = fg
        if bg is not None:
            atts["bg"] = bg
        want = sgr.expected_state(fg, bg, styles)
        env = dict(env0)
        env["self"] = Record(_s=T, s=T, _atts=dict(atts), atts=dict(atts))
        outs = be.run_function(f.node, env)
        n += 1
        nontrivial = want != sgr.DEFAULT
        sample = None
        for o in outs:
            problem = None
            stream = None
            if o.opaque or o.term != "return" or not isinstance(o.value, str):
                problem = "color_str leaves the modelled subset: %s" % (o.opaque or o.term)
                if o.term == "raise":
                    problem = "color_str raises %s" % o.value
            else:
                stream = o.value
                toks = sgr.tokenize(stream)
                state = sgr.DEFAULT
                at_text = None
                ntext = 0
                for t in toks:
                    if t[0] == "JUNK":
                        problem = "emits %r, which is neither the text nor an SGR sequence" % t[1]
                        break
                    if t[0] == "TEXT":
                        at_text = state
                        ntext += 1
                    else:
                        try:
                            state = sgr.apply_params(state, t[1])
                        except sgr.Unsupported as e:
                            problem = "emits SGR code %s, which is not one of the colour/style/reset codes" % e
                            break
                if problem is None and ntext != 1:
                    problem = "the text appears %d times" % ntext
                if problem is None and at_text != want:
                    problem = "text is displayed with %s, the run's attributes are %s" % (_st(at_text), _st(want))
                if problem is None and state != sgr.DEFAULT:
                    problem = "graphic state after the run is %s, not the default" % _st(state)
            if problem:
                bad += 1
                key = problem.split(",")[0][:60]
                if key not in first_bad:
                    first_bad[key] = {"attributes": atts, "stream": _printable(stream), "assuming": o.assumptions, "problem": problem}
            elif sample is None and stream is not None:
                sample = {"attributes": atts, "stream": _printable(stream), "state_at_text": _st(want)}
        rep.case(nontrivial, sample if n % 997 == 1 else None)
    rep.exhaustive = True
    where = f.where()
    if bad:
        for key, w in list(first_bad.items())[:6]:
            rep.ob("F2-model-enumeration", where, f.scope, "writer model: %s" % key, False,
                   "%s (attribute set %s%s); %d deviating (set, outcome) pairs in total"
                   % (w["problem"], w["attributes"], (" assuming " + str(w["assuming"])) if w["assuming"] else "", bad), witness=w)
    else:
        rep.ob("F2-model-enumeration", where, f.scope,
               "writer model: %d attribute sets x reference SGR machine" % n, True)
    rep.extracted["attribute_sets"] = n
    rep.extracted["deviations"] = bad


def _st(state):
    if state is None:
        return "<text never reached>"
    fg, bg, st = state
    return "fg=%s bg=%s styles=%s" % (fg, bg, sorted(st))


def _printable(s):
    if s is None:
        return None
    return s.replace("\x1b", "ESC").replace(sgr.TEXT, "<text>")


def joining(src, rep, fold):
    # Chunk.__str__ returns color_str for str values
    f = src.func("formatstring", "Chunk.__str__")
    be = BlockEval(fold, max_states=16)
    marker = SymStr("C")
    env = _module_env(fold, "formatstring")
    env["self"] = Record(color_str=marker, _s=SymStr(sgr.TEXT))
    outs = be.run_function(f.node, env)
    ok = bool(outs) and all(o.term == "return" and o.value == marker and not o.opaque for o in outs
                            if not any("bytes" in a[0] and a[1] for a in o.assumptions))
    rep.ob("J1-chunk-str-is-color_str", f.where(), f.scope, "Chunk.__str__ -> self.color_str", ok,
           "Chunk.__str__ does not return color_str unchanged for a str value: outcomes %s" % outs)
    # FmtStr.__str__: "".join(str(fs) for fs in self.chunks)
    g = src.func("formatstring", "FmtStr.__str__")
    joins = [n for n in g.own_nodes() if isinstance(n, ast.Call) and isinstance(n.func, ast.Attribute) and n.func.attr == "join"]
    if len(joins) != 1:
        raise AnalysisError("FmtStr.__str__: expected exactly one join, found %d" % len(joins))
    j = joins[0]
    sep_ok = isinstance(j.func.value, ast.Constant) and j.func.value.value == ""
    rep.ob("J2-join-empty-separator", g.where(j), g.scope, unparse(j.func), sep_ok,
           "runs are joined with separator %s: characters that are not in the FmtStr appear between runs" % unparse(j.func.value))
    a = j.args[0] if j.args else None
    ok = False
    why = "argument of join is not a comprehension over self.chunks"
    if isinstance(a, (ast.GeneratorExp, ast.ListComp)) and len(a.generators) == 1:
        gen = a.generators[0]
        src_ok = is_self_attr(gen.iter, "chunks")
        filt_ok = not gen.ifs
        el = a.elt
        tv = gen.target.id if isinstance(gen.target, ast.Name) else None
        el_ok = tv is not None and unparse(el) in ("str(%s)" % tv, "%s.color_str" % tv, "%s.__str__()" % tv)
        ok = src_ok and filt_ok and el_ok
        why = ("iterates over `%s`, not self.chunks in order; " % unparse(gen.iter) if not src_ok else "") + \
              ("filters runs with `%s`; " % " and ".join(unparse(i) for i in gen.ifs) if not filt_ok else "") + \
              ("joins `%s`, not str(run)" % unparse(el) if not el_ok else "")
    rep.ob("J3-join-all-runs-in-order", g.where(j), g.scope, unparse(j)[:120], ok, why)


def cache_coherence(src, rep):
    """The terminal string is memoised in FmtStr._unicode: str(f) is what C01 talks about only while that slot and the
    run list it was computed from cannot change behind it.  These are C13's rules I1/I2/I3 restricted to the `_unicode`
    slot and to `chunks`; they are cited here because a stale or foreign-written cache makes str(f) display other
    characters/formatting than f has."""
    from . import c13
    from ..report import Report
    tmp = Report("C01", rep.tier, rep.repo)
    counts = {}
    c13.rule_i1(src, tmp, "formatstring", counts)
    c13.rule_alias(src, tmp, {"chunks"}, c13.LIST_MUT, "I2-no-inplace-on-shared-chunks",
                   "the list is (or may alias) the run list of an existing FmtStr", counts)
    c13.rule_i3(src, tmp, "formatstring", counts)
    for o in tmp.obligations:
        txt = o.construct + " " + o.detail
        if o.rule.startswith("I2") or "_unicode" in txt or ".chunks" in txt or "__str__" in o.scope:
            o.rule = "S-" + o.rule
            rep.obligations.append(o)


def check(src, rep):
    rep.explanation = EXPLANATION
    rep.not_decided = NOT_DECIDED
    rep.assumptions = ["ECMA-48 SGR subset as encoded in sa/sgr.py: 0 resets all; 1,2,3,4,5,7 set a style; 30-37/40-47 set a "
                       "colour; 39/49 reset one colour",
                       "sorted() on str keys is deterministic; str concatenation/format semantics"]
    rep.trusted_base = ["CPython ast module", "sa/consteval.py (constant folder)", "sa/absint.py (decision-list evaluator)",
                        "sa/sgr.py (reference SGR machine)"]
    fold = Folder(src, fuel=10 ** 10)
    templates = rep.guard(wrapper_templates, src, rep, fold)
    f = rep.guard(fold_structure, src, rep)
    if f is not None:
        rep.guard(enumerate_model, src, rep, fold, f)
    rep.guard(joining, src, rep, fold)
    rep.guard(cache_coherence, src, rep)
    rep.floor("wrapper templates", len(templates or {}), 8)
    rep.floor("attribute sets enumerated", rep.model_cases, 5184)
