"""C15 - str methods on a FmtStr agree with str on its text (DESIGN.md section 3, C15: narrow - D1..D6)."""
import ast

from ..objinterp import Obj, ObjInterp
from ..report import AnalysisError
from ..srcmodel import unparse
from .c14 import mk, runs_of

EXPLANATION = (
    "The string methods of FmtStr (and FmtStr.__getitem__, shared_atts, fmtstr and everything else they call) are abstractly "
    "interpreted on model values and every answer is compared with CPython's own str method applied to the plain text (the "
    "oracle), formatting cell by cell: D1-D3 the generic delegation (FmtStr.__getattr__) on a curated list of str methods and "
    "argument tuples (upper, lower, strip, center, replace, find, count, startswith, endswith, zfill, title, isdigit, rsplit, "
    "index) on values with shared and non-shared formatting - same text or same non-text answer (same exception for bad "
    "arguments), text answers carry exactly the shared formatting, an attribute str does not have raises AttributeError; D3 shared_atts is exactly the formatting every "
    "character has (layouts with empty runs); D4 join over every list of up to 3 items drawn from item kinds (empty, plain "
    "str, one-run, two-run) for several separators agrees with str.join on the texts and keeps each character's formatting, "
    "non-strings raise TypeError; D5 ljust / rjust for widths below, at and above the length, default and explicit fill "
    "characters; D6 split with explicit separators present / absent / adjacent / at the ends, literal and regex, maxsplit, "
    "against an independent reference (str.split / re.split on the text, formatting per character); splitlines "
    "(keepends=False) on newline-only texts."
)
NOT_DECIDED = ("argument tuples and values outside the catalogue (bounded claim: the implementations are index arithmetic over "
               "runtime strings); splitlines(keepends=True) and line boundaries other than \\n (the pinned implementation deviates "
               "there; see DESIGN.md section 4); split() without a separator.")

DELEGATED = [
    ("upper", (), {}), ("lower", (), {}), ("strip", (), {}), ("strip", ("h",), {}), ("center", (9,), {}), ("center", (9, "*"), {}),
    ("replace", ("l", "L"), {}), ("find", ("l",), {}), ("count", ("l",), {}), ("startswith", ("he",), {}), ("endswith", ("x",), {}),
    ("zfill", (8,), {}), ("title", (), {}), ("isdigit", (), {}), ("rsplit", ("l",), {}), ("index", ("o",), {}),
]


def rule_generated(src, rep, counts):
    """The quantifier's "generated pool": every text up to a length bound over a small alphabet, given as a two-run value cut at
    every position, through split / splitlines / ljust / rjust / a few delegated methods, against str on the text."""
    import itertools
    import re as _re
    from ..fold import new_interp
    from ..models import cells
    from ..par import pmap
    it = new_interp(src, check_views=True)
    f = src.func("formatstring", "FmtStr.split")
    maxlen = 4 if rep.tier == "thorough" else 3
    A1, A2 = {"fg": 31}, {"bg": 44, "bold": True}

    def values(alphabet):
        for n in range(0, maxlen + 1):
            for tup in itertools.product(alphabet, repeat=n):
                text = "".join(tup)
                for cut in sorted({0, len(text) // 2, len(text)}):
                    runs = [(text[:cut], A1), (text[cut:], A2)] if text else [("", {})]
                    yield text, [r for r in runs if r[0] or not text][:2] or [("", {})]
                    if 0 < cut < len(text):
                        # the same characters arrived at through a history: an operand whose views were memoised, then +
                        yield text, [(text[:cut], {}), (text[cut:], A2), "str + looked-at value"]
                        yield text, [(text[:cut], A1), (text[cut:], {}), "looked-at value + str"]
    jobs = []
    for text, runs in values("a, "):
        for sep, regex in ((",", False), (" ", False), ("a", False), (",,", False), (", ", False), (",+", True), ("a|,", True), (r"\s*,\s*", True)):
            jobs.append(("split", text, runs, (sep, regex)))
        for w in range(0, len(text) + 3):
            for fill in (None, "*"):
                jobs.append(("ljust", text, runs, (w, fill)))
                jobs.append(("rjust", text, runs, (w, fill)))
        for meth, args in (("strip", ()), ("strip", ("a",)), ("replace", (",", ";")), ("find", (",",)), ("count", ("a",)), ("upper", ()),
                           ("title", ()), ("center", (len(text) + 3,)), ("startswith", ("a",))):
            jobs.append(("deleg", text, runs, (meth, args)))
    for text, runs in values("a\n\r"):
        for keep in (False, True):
            jobs.append(("splitlines", text, runs, (keep,)))

    def shared_of(runs):
        live = [a for t, a in runs if t] or [a for t, a in runs]
        sh = dict(live[0])
        for a in live[1:]:
            sh = {k: v for k, v in sh.items() if a.get(k, object()) == v}
        return sh

    def one(job):
        kind, text, runs, arg = job
        build = None
        if len(runs) == 3 and isinstance(runs[2], str):
            from .c06 import _look
            build, runs = runs[2], runs[:2]
            if build == "str + looked-at value":
                r0 = it.callm(_look(it, mk(it, runs[1])), "__radd__", runs[0][0])
            else:
                r0 = it.callm(_look(it, mk(it, runs[0])), "__add__", runs[1][0])
            if r0[0] == "incoherent":
                return ("G-delegated" if kind == "deleg" else {"split": "G-split", "splitlines": "G-splitlines"}.get(kind, "G-just"),
                        "%r built as %s" % (text, build), r0[1])
            if r0[0] != "ok" or not isinstance(r0[1], Obj) or cells(runs_of(r0[1])) != cells(runs):
                return None          # concatenation itself is C06's business
            obj = r0[1]
        else:
            obj = mk(it, *runs)
        orig = cells([r for r in runs])
        try:
            if kind == "split":
                sep, regex = arg
                r = it.call1("formatstring", "FmtStr.split", obj, sep, regex=True) if regex else it.call1("formatstring", "FmtStr.split", obj, sep)
                want = _re.split(sep, text) if regex else text.split(sep)
                pieces = True
            elif kind == "splitlines":
                r = it.call1("formatstring", "FmtStr.splitlines", obj, arg[0])
                want = text.splitlines(arg[0])
                pieces = True
            elif kind in ("ljust", "rjust"):
                w, fill = arg
                r = it.callm(obj, kind, w) if fill is None else it.callm(obj, kind, w, fill)
                want = getattr(text, kind)(w) if fill is None else getattr(text, kind)(w, fill)
                pieces = False
            else:
                meth, args = arg
                try:
                    m = it.folder.obj_attr(obj, meth)
                    r = ("ok", it.folder.v_call(m, list(args), {}, None, {}))
                except Exception as e:
                    if getattr(e, "name", None) is None:
                        return ("error", "delegation of .%s outside the evaluated subset: %s" % (meth, e))
                    r = ("raise", e.name)
                try:
                    want = getattr(text, meth)(*args)
                except Exception as e:
                    want = ("raise", type(e).__name__)
                pieces = False
        except AnalysisError as e:
            return ("error", str(e))
        if r[0] == "opaque":
            return ("error", "%s outside the evaluated subset: %s" % (kind, r[1]))
        call = "%r (runs %s%s) .%s%r" % (text, [t for t, _ in runs], ", built as " + build if build else "", kind if kind != "deleg" else arg[0], arg if kind != "deleg" else arg[1])
        rule = {"split": "G-split", "splitlines": "G-splitlines", "ljust": "G-just", "rjust": "G-just", "deleg": "G-delegated"}[kind]
        if isinstance(want, tuple) and want and want[0] == "raise":
            return None if r == want else (rule, call, "FmtStr gives %s, str raises %s" % (_show(r), want[1]))
        if r[0] != "ok":
            return (rule, call, "FmtStr raises %s, str gives %r" % (r[1], want))
        if pieces:
            got = r[1]
            if not isinstance(got, list) or ["".join(t for t, _ in runs_of(x)) for x in got] != want:
                return (rule, call, "FmtStr gives %s, str gives %r" % (_show(r), want))
            # pieces keep each character's own formatting: they are, in order, slices of the original cells
            if kind == "split":
                spans, pos = [], 0
                for m in _re.finditer(arg[0] if arg[1] else _re.escape(arg[0]), text):
                    spans.append((pos, m.start()))
                    pos = m.end()
                spans.append((pos, len(text)))
            else:
                spans, pos = [], 0
                for kept, line in zip(text.splitlines(True), text.splitlines()):
                    spans.append((pos, pos + len(kept if arg[0] else line)))
                    pos += len(kept)
            if [text[a:b] for a, b in spans] != want:
                return ("error", "reference spans disagree with str for %s" % call)
            for (a, b), x in zip(spans, got):
                if cells(runs_of(x)) != orig[a:b]:
                    return (rule, call, "the pieces do not keep each character's own formatting: %s" % _show(r))
            return None
        if isinstance(want, str):
            if not isinstance(r[1], Obj) or "".join(t for t, _ in runs_of(r[1])) != want:
                return (rule, call, "FmtStr gives %s, str gives %r" % (_show(r), want))
            sh = shared_of(runs)
            keep_ok = all(a == sh for t, a in runs_of(r[1]) if t) if kind == "deleg" or arg[1] is not None else True
            if kind in ("ljust", "rjust") and arg[1] is None:
                # the letter of the statement: the result carries the formatting shared by all characters, and shows no
                # formatting that no character of the original had (the padding may carry less than the text does)
                got_cells = cells(runs_of(r[1]))
                at = (len(want) - len(text)) if kind == "rjust" else 0
                had = {kv for _, e in orig for kv in e}
                body = got_cells[at:at + len(text)]
                keep_ok = all(set(sh.items()) <= set(e) for _, e in body) and all(set(e) <= had for _, e in got_cells)
            if not keep_ok:
                return (rule, call, "text right, formatting wrong: %s (shared formatting %s)" % (_show(r), sh))
            return None
        return None if r[1] == want else (rule, call, "FmtStr gives %s, str gives %r" % (_show(r), want))
    results = pmap(one, jobs, min_chunk=32)
    bad = {}
    for job, res in zip(jobs, results):
        rep.case(True)
        if res is None:
            continue
        if res[0] == "error":
            raise AnalysisError(res[1])
        bad.setdefault(res[0], []).append(res[1:])
    for rule, group in (("G-split", "split on the generated pool"), ("G-splitlines", "splitlines on the generated pool"),
                        ("G-just", "ljust / rjust on the generated pool"), ("G-delegated", "delegated methods on the generated pool")):
        items = bad.get(rule, [])
        if items:
            items.sort(key=lambda y: len(y[0]))
            rep.ob(rule + "-agrees-with-str", f.where(), "formatstring:FmtStr", group, False, "%s: %s (%d cases fail)" % (items[0][0], items[0][1], len(items)),
                   witness={"call": items[0][0]})
        else:
            rep.ob(rule + "-agrees-with-str", f.where(), "formatstring:FmtStr", group, True)
    counts["generated_cases"] = len(jobs)


def rule_derived(src, rep, counts):
    """The same methods on receivers arrived at through a history: every value of the derived pool (public operations on base
    values that were looked at first), also after the caller edited the dict a shared_atts read had returned, and join given a
    one-shot iterator."""
    from ..derive import derived_values
    from ..fold import new_interp
    from ..models import cells
    it = new_interp(src, check_views=True)
    f = src.func("formatstring", "FmtStr.__getattr__") if ("formatstring", "FmtStr.__getattr__") in src.funcs else src.func("formatstring", "FmtStr.split")
    dv = derived_values(it)
    bad = []
    n = 0

    def text_of(v):
        return "".join(t for t, _ in runs_of(v))

    def call(v, meth, args):
        try:
            m = it.folder.obj_attr(v, meth)
            r = it.folder.v_call(m, list(args), {}, None, {})
            why = it._views(r)
            return ("incoherent", why) if why else ("ok", r)
        except Exception as e:
            if getattr(e, "name", None) is None:
                raise AnalysisError("%s on a derived receiver is outside the evaluated subset: %s" % (meth, e))
            return ("raise", e.name)

    def compare(how, v, edited=False):
        text = text_of(v)
        for meth, args in (("upper", ()), ("strip", ()), ("split", (" ",)), ("splitlines", ()), ("splitlines", (True,)), ("ljust", (len(text) + 2, "*")),
                           ("center", (len(text) + 3,)), ("find", ("a",)), ("count", ("1",)), ("replace", ("a", "A"))):
            r = call(v, meth, args)
            try:
                want = getattr(text, meth)(*args)
            except Exception as e:
                want = ("raise", type(e).__name__)
            if r[0] == "ok":
                got = [text_of(x) for x in r[1]] if isinstance(r[1], list) else text_of(r[1]) if isinstance(r[1], Obj) else r[1]
            else:
                got = r
            if got != want:
                return "%s.%s%r gives %s, str gives %r" % (how, meth, args, got if r[0] == "ok" else "%s %s" % r, want)
            if edited and r[0] == "ok" and isinstance(r[1], Obj) and isinstance(want, str):
                had = {kv for _, e in cells(runs_of(v)) for kv in e}
                extra = {kv for _, e in cells(runs_of(r[1])) for kv in e} - had
                if extra:
                    return "%s.%s%r shows the formatting %s, which no character of the receiver had" % (how, meth, args, sorted(extra))
        return None
    for how, v in dv:
        n += 1
        rep.case(True)
        if isinstance(v, tuple):
            bad.append((how, v[1]))
            continue
        why = compare(how, v)
        if why:
            bad.append((how, why))
    # the caller edits what a shared_atts read returned, then uses the value
    for runs in ([("ab", {"fg": 31, "bg": 44}), ("c d", {"bg": 44})], [("x", {"bold": True})]):
        v = mk(it, *runs)
        try:
            d = it.folder.obj_attr(v, "shared_atts")
        except Exception as e:
            raise AnalysisError("shared_atts outside the evaluated subset: %s" % e)
        if isinstance(d, dict):
            d["underline"] = True
            for k in [k for k in d if k != "underline"][:1]:
                del d[k]
        n += 1
        rep.case(True)
        why = compare("(runs %s, after the caller edited the dict shared_atts had returned)" % (runs,), v, edited=True)
        if why is None:
            for meth, args in (("upper", ()), ("center", (9,)), ("ljust", (9, "*"))):
                r = call(v, meth, args)
                sh = dict(runs[0][1])
                for _, a in runs[1:]:
                    sh = {k: x for k, x in sh.items() if a.get(k) == x}
                if r[0] == "ok" and isinstance(r[1], Obj) and any(dict(e) != sh for _, e in cells(runs_of(r[1])) if True):
                    got = sorted({kv for _, e in cells(runs_of(r[1])) for kv in e})
                    if set(got) != set(sh.items()):
                        why = "(runs %s, after the caller edited the dict shared_atts had returned).%s%r carries %s; the formatting shared by all characters is %s" % (runs, meth, args, got, sh)
                        break
        if why:
            bad.append(("shared_atts edited by the caller", why))
    # join consumes its argument once: a one-shot iterator gives the same result as a list
    sep = mk(it, (", ", {"fg": 31}))
    items = ["a", mk(it, ("b", {"bold": True})), "c"]
    r1 = it.callm(sep, "join", list(items))
    r2 = it.callm(mk(it, (", ", {"fg": 31})), "join", iter(list(items)))
    n += 1
    rep.case(True)
    if r1[0] == "opaque" or r2[0] == "opaque":
        raise AnalysisError("join of an iterator is outside the evaluated subset: %s" % (r2,))
    if r1[0] != "ok" or r2[0] != "ok" or cells(runs_of(r1[1])) != cells(runs_of(r2[1])):
        bad.append(("join of a one-shot iterator", "', '.join(iter(items)) gives %s, ', '.join(list(items)) gives %s; str.join accepts any iterable once"
                    % (_show(r2), _show(r1))))
    counts["derived_receivers"] = n
    if bad:
        bad.sort(key=lambda x: len(x[1]))
        rep.ob("G-receivers-with-a-history-agree-with-str", f.where(), "formatstring:FmtStr", "methods on receivers of the derived pool", False,
               "%s: %s (%d of %d receivers)" % (bad[0][0], bad[0][1], len(bad), n), witness={"receiver": bad[0][0]})
    else:
        rep.ob("G-receivers-with-a-history-agree-with-str", f.where(), "formatstring:FmtStr", "methods on receivers of the derived pool", True)


def check(src, rep):
    rep.explanation = EXPLANATION
    rep.not_decided = NOT_DECIDED
    rep.assumptions = ["str methods themselves (CPython) are the reference"]
    rep.trusted_base = ["CPython ast", "sa/cfg.py", "sa/objinterp.py"]
    counts = {}
    rep.guard(rule_getattr, src, rep, counts)
    rep.guard(rule_join, src, rep, counts)
    rep.guard(rule_just, src, rep, counts)
    rep.guard(rule_split, src, rep, counts)
    rep.guard(rule_shared_complete, src, rep, counts)
    rep.guard(rule_generated, src, rep, counts)
    rep.guard(rule_derived, src, rep, counts)
    rep.extracted["counts"] = counts
    rep.floor("generated pool cases", counts.get("generated_cases", 0), 1500)
    rep.floor("delegated method samples", counts.get("delegated", 0), 30)


def rule_getattr(src, rep, counts):
    f = src.func("formatstring", "FmtStr.__getattr__")
    h = f
    # interpreted samples
    it = ObjInterp(src)
    samples = {
        "uniform red": [("hello", {"fg": 31})],
        "two runs sharing red": [("hel", {"fg": 31, "bold": True}), ("lo", {"fg": 31})],
        "nothing shared": [("he", {"fg": 31}), ("llo", {"bg": 44})],
        "plain": [("hello", {})],
    }
    n = 0
    for label, runs in samples.items():
        text = "".join(t for t, _ in runs)
        shared = dict(runs[0][1])
        for t, a in runs[1:]:
            shared = {k: v for k, v in shared.items() if a.get(k, object()) == v}
        for name, args, kwargs in DELEGATED:
            obj = mk(it, *runs)
            try:
                meth = it.folder.obj_attr(obj, name)
                got = ("ok", it.folder.v_call(meth, list(args), dict(kwargs), None, {}))
            except Exception as e:
                nm = getattr(e, "name", None)
                if nm is None:
                    raise AnalysisError("delegation of .%s outside the evaluated subset: %s" % (name, e))
                got = ("raise", nm)
            try:
                want = ("ok", getattr(text, name)(*args, **kwargs))
            except Exception as e:
                want = ("raise", type(e).__name__)
            n += 1
            rep.case(True, {"value": label, "call": "%s%r" % (name, args), "answer": str(got)[:80]} if n % 17 == 1 else None)
            ok = False
            if want[0] == "raise":
                ok = got == want
            elif isinstance(want[1], str):
                ok = got[0] == "ok" and isinstance(got[1], Obj) and "".join(t for t, _ in runs_of(got[1])) == want[1] and \
                    all(a == shared for _, a in runs_of(got[1]))
            elif isinstance(want[1], list):
                ok = got[0] == "ok" and isinstance(got[1], list) and len(got[1]) == len(want[1]) and \
                    all(isinstance(g, Obj) and "".join(t for t, _ in runs_of(g)) == w and all(a == shared for _, a in runs_of(g))
                        for g, w in zip(got[1], want[1]))
            else:
                ok = got == want
            if not ok:
                rep.ob("D2-delegated-answer-agrees-with-str", h.where(), h.scope, "%s: .%s%r" % (label, name, args), False,
                       "FmtStr gives %s, str gives %r (text results must carry exactly the shared attributes %s)" %
                       (_show(got), want[1] if want[0] == "ok" else want, shared))
    rep.ob("D2-delegated-answer-agrees-with-str", h.where(), h.scope, "%d (value, method, arguments) samples" % n, True)
    counts["delegated"] = n
    # an attribute str does not have raises AttributeError (otherwise hasattr() / copy / pickle protocols break)
    for name in ("no_such_method", "__deepcopy__", "__getstate_hook__"):
        obj = mk(it, ("hello", {"fg": 31}))
        try:
            it.folder.obj_attr(obj, name)
            got = "an attribute"
        except Exception as e:
            got = getattr(e, "name", None)
            if got is None:
                raise AnalysisError("lookup of .%s outside the evaluated subset: %s" % (name, e))
        rep.ob("D1-unknown-attribute-raises-AttributeError", f.where(), f.scope, "fmtstr('hello').%s" % name, got == "AttributeError",
               "an attribute that str does not have must raise AttributeError; the lookup gives %s" % got)
        rep.case(True)


def _show(got):
    if got[0] == "ok" and isinstance(got[1], Obj):
        return "FmtStr%s" % runs_of(got[1])
    if got[0] == "ok" and isinstance(got[1], list):
        return [(_show(("ok", g))) for g in got[1]]
    return got


def rule_join(src, rep, counts):
    """join is abstractly interpreted on every item list of length 0..3 over the item KINDS (empty / non-empty plain str,
    empty / non-empty FmtStr): the text must be str.join of the texts and every character keeps its formatting - the
    separator goes between every two items by position, whatever is empty."""
    from ..fold import new_interp
    from ..models import cells
    import itertools
    it = new_interp(src, check_views=True)
    f = src.func("formatstring", "FmtStr.join")
    kinds = {"empty str": lambda: "", "str": lambda: "ab", "empty FmtStr": lambda: mk(it, ("", {})),
             "FmtStr": lambda: mk(it, ("c", {"fg": 32}), ("d", {"bold": True}))}
    seps = [[(",", {"fg": 31})], [("", {})], [("-", {}), ("+", {"bg": 44})]]
    n = bad = 0
    for sep_runs in seps:
        for k in range(0, 4):
            for combo in itertools.product(kinds, repeat=k):
                items = [kinds[c]() for c in combo]
                sep = mk(it, *sep_runs)
                r = it.call1("formatstring", "FmtStr.join", sep, list(items))
                if r[0] == "opaque":
                    raise AnalysisError("FmtStr.join outside the evaluated subset: %s" % r[1])
                n += 1
                rep.case(k > 1)
                exp_cells = []
                for i, x in enumerate(items):
                    if i:
                        exp_cells += cells(sep_runs)
                    exp_cells += cells(runs_of(x)) if isinstance(x, Obj) else cells([(x, {})])
                ok = r[0] == "ok" and isinstance(r[1], Obj) and cells(runs_of(r[1])) == exp_cells
                if not ok:
                    bad += 1
                    if bad <= 3:
                        sep_t = "".join(t for t, _ in sep_runs)
                        rep.ob("D4-join-agrees-with-str", f.where(), f.scope, "%r.join(%s)" % (sep_t, list(combo)), False,
                               "FmtStr gives %s; str.join gives %r with every character keeping its formatting" %
                               (_show(r), sep_t.join("".join(t for t, _ in runs_of(x)) if isinstance(x, Obj) else x for x in items)),
                               witness={"separator": str(sep_runs), "items": list(combo)})
    if not bad:
        rep.ob("D4-join-agrees-with-str", f.where(), f.scope, "%d (separator, item-kind list) cases" % n, True)
    r = it.call1("formatstring", "FmtStr.join", mk(it, (",", {})), [1, 2])
    rep.ob("D4-join-rejects-non-strings", f.where(), f.scope, "','.join([1, 2])", r == ("raise", "TypeError"), "join of non-strings must raise TypeError, got %s" % (r,))
    counts["join_cases"] = n


def rule_just(src, rep, counts):
    """ljust/rjust are abstractly interpreted on model values for widths below / at / above the length (the classes of the
    property's quantifier), for narrow, double-width and combining characters, with and without a fill character: the
    text must be str.ljust/rjust of the text and every original character keeps its formatting."""
    from ..fold import new_interp
    from ..models import cells
    it = new_interp(src, check_views=True)
    texts = ["ab", "\uff25a", "a\u0301b", "x"]
    layouts = []
    for t in texts:
        layouts.append([(t, {"fg": 31})])
        if len(t) > 1:
            layouts.append([(t[:1], {"fg": 31, "bg": 44}), (t[1:], {"bg": 44})])
    layouts.append([("ab", {}), ("", {"bold": True}), ("cd", {})])
    n = bad = 0
    for name in ("ljust", "rjust"):
        f = src.func("formatstring", "FmtStr." + name)
        for runs in layouts:
            text = "".join(t for t, _ in runs)
            for w in sorted({0, len(text) - 1, len(text), len(text) + 1, len(text) + 3}):
                for fill in (None, "*"):
                    obj = mk(it, *runs)
                    args = (w,) if fill is None else (w, fill)
                    r = it.call1("formatstring", "FmtStr." + name, obj, *args)
                    if r[0] == "opaque":
                        raise AnalysisError("FmtStr.%s outside the evaluated subset: %s" % (name, r[1]))
                    want = getattr(text, name)(*args)
                    n += 1
                    rep.case(w > len(text))
                    ok = r[0] == "ok" and isinstance(r[1], Obj) and "".join(t for t, _ in runs_of(r[1])) == want
                    kept = True
                    if ok and fill is None:
                        # the original characters keep their own formatting
                        got_cells = cells(runs_of(r[1]))
                        orig = cells(runs)
                        seg = got_cells[:len(orig)] if name == "ljust" else got_cells[len(got_cells) - len(orig):]
                        kept = [(u, tuple(x for x in e if x[0] != "bg")) for u, e in seg] == \
                            [(u, tuple(x for x in e if x[0] != "bg")) for u, e in orig]
                    if not (ok and kept):
                        bad += 1
                        if bad <= 4:
                            rep.ob("D5-just-agrees-with-str", f.where(), f.scope, "%s%r on %s" % (name, args, runs), False,
                                   "FmtStr gives %s; str.%s gives %r (padding counts CHARACTERS; display columns differ for wide, "
                                   "combining and control characters)%s" % (_show(r), name, want, "" if kept else "; the original characters lose their formatting"),
                                   witness={"runs": str(runs), "args": args})
        if not bad:
            rep.ob("D5-just-agrees-with-str", f.where(), f.scope, "%s over %d (value, width, fill) cases" % (name, n), True)
    counts["just_cases"] = n


def rule_split(src, rep, counts):
    """split/splitlines are abstractly interpreted on a representative catalogue (separator absent / present / adjacent / at
    the ends / self-overlapping, literal vs regex, the same separator string used in both modes one after the other):
    piece texts must be those of the reference (str.split for literals, re.split for patterns, str.splitlines without
    keepends for newline-only text) and every character keeps its own formatting."""
    import re as _re
    from ..fold import new_interp
    from ..models import cells
    it = new_interp(src, check_views=True)
    f = src.func("formatstring", "FmtStr.split")
    layouts = [
        [("a,b", {"fg": 31})], [("a,", {"fg": 31}), (",,b", {"bg": 44})], [(",a,", {})], [("aaa", {"bold": True})], [("a b  c", {"fg": 34})],
        [("", {})], [("a.b", {"fg": 31})], [("x|y", {})], [("ab", {"fg": 31}), ("", {}), ("cd", {"fg": 32})],
    ]
    cases = []
    for runs in layouts:
        text = "".join(t for t, _ in runs)
        for sep, regex in ((",", False), (",,", False), ("aa", False), (".", False), (".", True), ("|", True), ("|", False), (None, False),
                           ("a+", True), (r"\s+", True)):
            cases.append((runs, text, sep, regex))
    n = bad = 0
    for runs, text, sep, regex in cases:
        obj = mk(it, *runs)
        if sep is None:
            r = it.call1("formatstring", "FmtStr.split", obj)
            want = _re.split(r"\s+", text)
        elif regex:
            r = it.call1("formatstring", "FmtStr.split", obj, sep, regex=True)
            want = _re.split(sep, text) if text or True else [""]
            # zero-width matches and capture groups are not in the catalogue
        else:
            r = it.call1("formatstring", "FmtStr.split", obj, sep)
            want = text.split(sep)
        if r[0] == "opaque":
            raise AnalysisError("FmtStr.split outside the evaluated subset: %s" % r[1])
        n += 1
        rep.case(len(want) > 1)
        ok = r[0] == "ok" and isinstance(r[1], list) and ["".join(t for t, _ in runs_of(x)) for x in r[1]] == want
        if ok:
            # formatting: concatenating the pieces' cells with the separators removed gives the original cells in order
            got = [c for x in r[1] for c in cells(runs_of(x))]
            orig = cells(runs)
            it2 = iter(orig)
            ok = all(any(c == o for o in it2) for c in got)
        if not ok:
            bad += 1
            if bad <= 4:
                rep.ob("D6-split-agrees-with-reference", f.where(), f.scope, "%r.split(%r%s)" % (text, sep, ", regex=True" if regex else ""), False,
                       "FmtStr gives %s; the reference gives %r" % ([("".join(t for t, _ in runs_of(x))) for x in r[1]] if r[0] == "ok" and isinstance(r[1], list) else r, want),
                       witness={"text": text, "sep": sep, "regex": regex})
    if not bad:
        rep.ob("D6-split-agrees-with-reference", f.where(), f.scope, "%d (text, separator, mode) cases" % n, True)
    counts["split_cases"] = n
    # splitlines, keepends False and True; \n and the other line boundaries str.splitlines knows
    g = src.func("formatstring", "FmtStr.splitlines")
    groups = [
        ("texts whose only line boundary is \\n, keepends=False", ("ab\n\n", "\n", "a\nb", "a\n", "", "a\n\nb", "\n\n\n", "abc"), False),
        ("texts whose only line boundary is \\n, keepends=True", ("ab\n\n", "\n", "a\nb", "a\n", "", "a\n\nb", "\n\n\n", "abc"), True),
        ("texts with \\r\\n / \\r line boundaries", ("a\r\nb", "a\rb", "a\r\n", "\r"), False),
        ("texts with \\r\\n / \\r line boundaries, keepends=True", ("a\r\nb", "a\rb", "a\r\n"), True),
        ("texts with the rarer line boundaries (\\v \\f \\x1c-\\x1e \\x85 \\u2028 \\u2029)", ("a\vb", "a\fb", "a\x1cb", "a\x85b", "a\u2028b", "a\u2029b"), False),
    ]
    m = 0
    for label, texts, keep in groups:
        fails = []
        for text in texts:
            runs = [(text[:1], {"fg": 31}), (text[1:], {"bold": True})] if len(text) > 1 else [(text, {"fg": 31})] if text else [("", {})]
            obj = mk(it, *runs)
            r = it.call1("formatstring", "FmtStr.splitlines", obj, keep) if keep else it.call1("formatstring", "FmtStr.splitlines", obj)
            if r[0] == "opaque":
                raise AnalysisError("FmtStr.splitlines outside the evaluated subset: %s" % r[1])
            want = text.splitlines(keep)
            m += 1
            rep.case(True)
            got = ["".join(t for t, _ in runs_of(x)) for x in r[1]] if r[0] == "ok" and isinstance(r[1], list) else r
            ok = got == want
            if ok:
                # every character of every piece keeps its own formatting
                pos = 0
                orig = cells(runs)
                for piece, x in zip(want, r[1]):
                    at = text.index(piece, pos) if piece else pos
                    if cells(runs_of(x)) != orig[at:at + len(piece)]:
                        ok = False
                        got = "pieces with other formatting than the characters had"
                    pos = at + len(piece)
            if not ok:
                fails.append((text, got, want))
        rep.ob("D6-splitlines-agrees-with-str", g.where(), g.scope, label, not fails,
               "%r.splitlines(%s) gives %s; str gives %r (%d of %d texts of this group differ)"
               % ((fails[0][0], "True" if keep else "", fails[0][1], fails[0][2], len(fails), len(texts)) if fails else ("", "", "", "", 0, 0)),
               witness={"text": fails[0][0], "keepends": keep} if fails else None)
    counts["splitlines_cases"] = m


def rule_shared_complete(src, rep, counts):
    """D3 wraps text answers with shared_atts: it must report EVERY attribute all characters share (when the first run is
    non-empty - with an empty first run the pinned code reports nothing, which is sound but incomplete and left alone)."""
    from ..fold import new_interp
    import itertools
    it = new_interp(src, check_views=True)
    f = src.func("formatstring", "FmtStr.shared_atts")
    dom = [{}, {"fg": 31}, {"fg": 31, "bold": True}, {"fg": 32, "bold": True}]
    n = bad = 0
    layouts = []
    for a, b in itertools.product(dom, repeat=2):
        layouts += [[("ab", a), ("cd", b)], [("ab", a), ("", b)], [("ab", a), ("", {}), ("cd", a)], [("ab", a), ("", b), ("cd", a)]]
    for runs in layouts:
        obj = mk(it, *runs)
        r = it.call1("formatstring", "FmtStr.shared_atts", obj)
        if r[0] == "opaque":
            raise AnalysisError("shared_atts outside the evaluated subset: %s" % r[1])
        res = dict(r[1].payload) if r[0] == "ok" and isinstance(r[1], Obj) else dict(r[1]) if r[0] == "ok" else None
        nonempty = [a for t, a in runs if t]
        want = dict(nonempty[0])
        for a in nonempty[1:]:
            want = {k: v for k, v in want.items() if k in a and a[k] == v}
        n += 1
        rep.case(bool(want))
        if res != want:
            bad += 1
            if bad <= 3:
                rep.ob("D3-shared-atts-exactly-the-shared-formatting", f.where(), f.scope, "runs %s" % runs, False,
                       "shared_atts gives %s; the formatting shared by all characters is %s (an empty run has no characters)" % (res if res is not None else r, want),
                       witness={"runs": str(runs)})
    if not bad:
        rep.ob("D3-shared-atts-exactly-the-shared-formatting", f.where(), f.scope, "%d layouts with a non-empty first run (empty runs elsewhere)" % n, True)
