"""C15 - str methods on a FmtStr agree with str on its text (DESIGN.md section 3, C15: narrow - D1..D6)."""
import ast

from ..cfg import enumerate_paths, lexical_guard, local_defs, single_defs
from ..objinterp import Obj, ObjInterp
from ..report import AnalysisError
from ..srcmodel import is_self_attr, unparse
from .c07 import _linear
from .c14 import mk, runs_of

EXPLANATION = (
    "NARROW claim.  D1 generic delegation (FmtStr.__getattr__): the callee is getattr(<plain text of self>, <same name>) called "
    "with the caller's *args/**kwargs unchanged, guarded by hasattr on the same object; D2 non-str/list answers are returned "
    "unchanged; D3 str answers (and list elements) are wrapped by fmtstr(x, **shared_atts) and nothing else - checked on "
    "the syntax tree and cross-checked by abstractly interpreting a curated list of delegated methods (upper, strip, center, "
    "replace, find, count, startswith, zfill, title, partition-free list results) on model values with shared and non-shared "
    "formatting.  D4 join inserts the separator by POSITION (before every item but the first), never depending on what has "
    "been accumulated or on an item being empty.  D5 ljust/rjust pad by width - len(text) CHARACTERS (affine form), pad "
    "nothing when that is not positive, delegate the fillchar form to str.ljust/rjust on the text with the shared "
    "attributes.  D6 split scans non-overlapping leftmost matches: literal separators are re.escape()d into the same "
    "finditer scan as regexes (or a find loop advancing by len(sep)); pieces are self[previous end:next start] in order; "
    "splitlines is split on newline."
)
NOT_DECIDED = ("value-level agreement of split/splitlines/join/ljust/rjust with CPython's str on arbitrary arguments (their "
               "implementation is index arithmetic over runtime strings and str's own implementation is not in this source); "
               "keepends handling.")

DELEGATED = [
    ("upper", (), {}), ("lower", (), {}), ("strip", (), {}), ("strip", ("h",), {}), ("center", (9,), {}), ("center", (9, "*"), {}),
    ("replace", ("l", "L"), {}), ("find", ("l",), {}), ("count", ("l",), {}), ("startswith", ("he",), {}), ("endswith", ("x",), {}),
    ("zfill", (8,), {}), ("title", (), {}), ("isdigit", (), {}), ("rsplit", ("l",), {}), ("index", ("o",), {}),
]


def check(src, rep):
    rep.explanation = EXPLANATION
    rep.not_decided = NOT_DECIDED
    rep.assumptions = ["str methods themselves (CPython) are the reference"]
    rep.trusted_base = ["CPython ast", "sa/cfg.py", "sa/objinterp.py"]
    counts = {}
    rep.guard(rule_getattr, src, rep, counts)
    rep.guard(rule_join, src, rep, counts)
    rep.guard(rule_just, src, rep, counts)
    rep.guard(rule_split, src, rep, counts)
    rep.extracted["counts"] = counts
    rep.floor("delegated method samples", counts.get("delegated", 0), 30)


def rule_getattr(src, rep, counts):
    f = src.func("formatstring", "FmtStr.__getattr__")
    att = f.params()[1]
    helper = [g for (m, qn), g in src.funcs.items() if m == "formatstring" and g.outer is f]
    if len(helper) != 1:
        raise AnalysisError("FmtStr.__getattr__: expected one nested helper")
    h = helper[0]
    a = h.node.args
    va, kw = (a.vararg.arg if a.vararg else None), (a.kwarg.arg if a.kwarg else None)
    calls = [n for n in h.own_nodes() if isinstance(n, ast.Call) and isinstance(n.func, ast.Call) and unparse(n.func.func) == "getattr"]
    ok = len(calls) == 1 and va and kw and not a.args and unparse(calls[0].func) == "getattr(self.s, %s)" % att and \
        len(calls[0].args) == 1 and isinstance(calls[0].args[0], ast.Starred) and unparse(calls[0].args[0].value) == va and \
        len(calls[0].keywords) == 1 and calls[0].keywords[0].arg is None and unparse(calls[0].keywords[0].value) == kw
    rep.ob("D1-same-method-same-arguments", h.where(calls[0]) if calls else h.where(), h.scope,
           unparse(calls[0]) if calls else "<none>", ok,
           "the delegated call must be getattr(self.s, <the requested name>)(*args, **kwargs) with the caller's arguments unchanged")
    guards = [n for n in f.node.body if isinstance(n, ast.If) and unparse(n.test) == "not hasattr(self.s, %s)" % att and
              any(isinstance(x, ast.Raise) and "AttributeError" in unparse(x) for x in n.body)]
    rep.ob("D1-unknown-attribute-raises-AttributeError", f.where(), f.scope, "if not hasattr(self.s, att): raise AttributeError", len(guards) == 1,
           "an attribute str does not have must raise AttributeError (otherwise hasattr()/copy/pickle protocols break)")
    rets = [n for n in f.own_nodes() if isinstance(n, ast.Return)]
    rep.ob("D1-returns-helper", f.where(), f.scope, "return %s" % h.name, len(rets) == 1 and unparse(rets[0].value) == h.name, "")
    # D3: wrap with shared_atts only
    for c in [n for n in h.own_nodes() if isinstance(n, ast.Call) and unparse(n.func) == "fmtstr"]:
        ok = len(c.args) == 1 and len(c.keywords) == 1 and c.keywords[0].arg is None and unparse(c.keywords[0].value) == "self.shared_atts"
        rep.ob("D3-text-results-wrapped-with-shared-atts-only", h.where(c), h.scope, unparse(c), ok,
               "a text result must be re-wrapped as fmtstr(text, **self.shared_atts): any other attribute source can show "
               "formatting that no character of the original had")
    # interpreted samples
    it = ObjInterp(src)
    samples = {
        "uniform red": [("hello", {"fg": 31})],
        "two runs sharing red": [("hel", {"fg": 31, "bold": True}), ("lo", {"fg": 31})],
        "nothing shared": [("he", {"fg": 31}), ("llo", {"bg": 44})],
        "plain": [("hello", {})],
    }
    n = 0
    for label, runs in samples.items():
        text = "".join(t for t, _ in runs)
        shared = dict(runs[0][1])
        for t, a in runs[1:]:
            shared = {k: v for k, v in shared.items() if a.get(k, object()) == v}
        for name, args, kwargs in DELEGATED:
            obj = mk(it, *runs)
            try:
                meth = it.folder.obj_attr(obj, name)
                got = ("ok", it.folder.v_call(meth, list(args), dict(kwargs), None, {}))
            except Exception as e:
                nm = getattr(e, "name", None)
                if nm is None:
                    raise AnalysisError("delegation of .%s outside the evaluated subset: %s" % (name, e))
                got = ("raise", nm)
            try:
                want = ("ok", getattr(text, name)(*args, **kwargs))
            except Exception as e:
                want = ("raise", type(e).__name__)
            n += 1
            rep.case(True, {"value": label, "call": "%s%r" % (name, args), "answer": str(got)[:80]} if n % 17 == 1 else None)
            ok = False
            if want[0] == "raise":
                ok = got == want
            elif isinstance(want[1], str):
                ok = got[0] == "ok" and isinstance(got[1], Obj) and "".join(t for t, _ in runs_of(got[1])) == want[1] and \
                    all(a == shared for _, a in runs_of(got[1]))
            elif isinstance(want[1], list):
                ok = got[0] == "ok" and isinstance(got[1], list) and len(got[1]) == len(want[1]) and \
                    all(isinstance(g, Obj) and "".join(t for t, _ in runs_of(g)) == w and all(a == shared for _, a in runs_of(g))
                        for g, w in zip(got[1], want[1]))
            else:
                ok = got == want
            if not ok:
                rep.ob("D2-delegated-answer-agrees-with-str", h.where(), h.scope, "%s: .%s%r" % (label, name, args), False,
                       "FmtStr gives %s, str gives %r (text results must carry exactly the shared attributes %s)" %
                       (_show(got), want[1] if want[0] == "ok" else want, shared))
    rep.ob("D2-delegated-answer-agrees-with-str", h.where(), h.scope, "%d (value, method, arguments) samples" % n, True)
    counts["delegated"] = n


def _show(got):
    if got[0] == "ok" and isinstance(got[1], Obj):
        return "FmtStr%s" % runs_of(got[1])
    if got[0] == "ok" and isinstance(got[1], list):
        return [(_show(("ok", g))) for g in got[1]]
    return got


def rule_join(src, rep, counts):
    f = src.func("formatstring", "FmtStr.join")
    loops = [n for n in f.node.body if isinstance(n, ast.For)]
    if len(loops) != 1:
        raise AnalysisError("FmtStr.join: expected one loop over the items")
    lp = loops[0]
    rets = [n for n in f.own_nodes() if isinstance(n, ast.Return)]
    acc = None
    if rets and isinstance(rets[0].value, ast.Call) and rets[0].value.args and isinstance(rets[0].value.args[0], ast.Starred):
        acc = unparse(rets[0].value.args[0].value)
    if acc is None:
        raise AnalysisError("FmtStr.join: result is not FmtStr(*<accumulated runs>)")
    defs = local_defs(f.node)
    # separator insertion sites
    sites = []
    for n in ast.walk(lp):
        if isinstance(n, ast.Call) and isinstance(n.func, ast.Attribute) and n.func.attr == "extend" and unparse(n.func.value) == acc and n.args:
            a = unparse(n.args[0])
            if a == "self.chunks":
                sites.append((n, "direct"))
            elif isinstance(n.args[0], ast.Name):
                ds = [unparse(d) if d is not None else None for d in defs.get(a, [])]
                if "self.chunks" in ds:
                    sites.append((n, "flagvar:" + a))
    if len(sites) != 1:
        rep.ob("D4-separator-inserted-by-position", f.where(lp), f.scope, "extend(<separator runs>) sites: %d" % len(sites), False,
               "join must add the separator's runs at exactly one place in the loop")
        return
    site, how = sites[0]
    g = lexical_guard(f.module, site, lp)
    ok = False
    why = ""
    if how.startswith("flagvar:"):
        var = how.split(":")[1]
        ds = [unparse(d) if d is not None else None for d in defs.get(var, [])]
        # before = [] ahead of the loop, before = self.chunks after the extend, unconditionally
        reass = [n for n in lp.body if isinstance(n, ast.Assign) and unparse(n.targets[0]) == var and unparse(n.value) == "self.chunks"]
        first_ext = [i for i, s in enumerate(lp.body) if any(x is site for x in ast.walk(s))]
        ok = sorted(x for x in ds if x) == ["[]", "self.chunks"] and not g and len(reass) == 1 and first_ext and \
            lp.body.index(reass[0]) > first_ext[0]
        why = "separator variable %s has definitions %s, guard %s" % (var, ds, g)
    else:
        # positional guard: index from enumerate > 0 / a first flag; NOT a test of the accumulator
        texts = [t for t, p in g]
        depends_on_acc = any(acc in t.replace("self.chunks", "") for t in texts)
        positional = False
        if isinstance(lp.target, ast.Tuple) and isinstance(lp.iter, ast.Call) and unparse(lp.iter.func) == "enumerate":
            idx = unparse(lp.target.elts[0])
            positional = any(t in (idx, "%s > 0" % idx, "%s != 0" % idx, "%s >= 1" % idx) and p for t, p in g)
        for t, p in g:
            nm = t if t.isidentifier() else None
            if nm and nm != acc:
                ds = defs.get(nm, [])
                consts = [d for d in ds if isinstance(d, ast.Constant) and isinstance(d.value, bool)]
                if len(consts) == len(ds) >= 2:
                    positional = True
        ok = positional and not depends_on_acc
        why = "the separator is added under %s" % (g,)
        if depends_on_acc:
            why += ": that tests what has been accumulated so far, so leading empty items get no separator after them " \
                   "(','.join(['', 'a']) is ',a')"
    rep.ob("D4-separator-inserted-by-position", f.where(site), f.scope, unparse(site), ok,
           "the separator must be inserted before every item except the first, by position; " + why,
           witness={"example": "fmtstr(',').join(['', 'a']).s must be ',a'"})
    # every item contributes: FmtStr items their runs, str items a run; anything else raises TypeError
    paths = enumerate_paths(lp.body)
    rep.ob("D4-items-kept-in-order", f.where(lp), f.scope, "%d paths through the item loop" % len(paths),
           all(p.term in (None, "raise") for p in paths), "an item is skipped (continue/break) in join")


def rule_just(src, rep, counts):
    for name in ("ljust", "rjust"):
        f = src.func("formatstring", "FmtStr." + name)
        width = f.params()[1]
        fill = f.params()[2]
        defs = single_defs(f.node)
        pad = defs.get("to_add")
        if pad is None:
            # find a local multiplied blank
            for k, v in defs.items():
                if isinstance(v, ast.BinOp) and isinstance(v.op, ast.Mult):
                    pad = v
        ok = False
        lin = None
        if isinstance(pad, ast.BinOp) and isinstance(pad.op, ast.Mult):
            cnt = pad.right if isinstance(pad.left, ast.Constant) else pad.left
            ch = pad.left if isinstance(pad.left, ast.Constant) else pad.right
            lin = _linear(cnt, {})
            ok = isinstance(ch, ast.Constant) and ch.value == " " and lin in ({width: 1, "len(self.s)": -1}, {width: 1, "len(self)": -1})
        rep.ob("D5-pad-counts-characters", f.where(), f.scope, "%s: pad = %s" % (name, unparse(pad) if pad is not None else "<none>"), ok,
               "str.%s pads to `width` CHARACTERS: the number of blanks must be width - len(text); found the count %s (display "
               "columns differ from characters for wide, combining and control characters)" % (name, lin))
        # fillchar branch delegates to str
        rets = [n for n in f.own_nodes() if isinstance(n, ast.Return)]
        fc = [r for r in rets if ("%s is not None" % fill, True) in lexical_guard(f.module, r, f.node)]
        ok = len(fc) == 1 and unparse(fc[0].value) == "fmtstr(self.s.%s(%s, %s), **self.shared_atts)" % (name, width, fill)
        rep.ob("D5-fillchar-delegates-to-str", f.where(fc[0]) if fc else f.where(), f.scope, unparse(fc[0]) if fc else "<none>", ok,
               "with a fill character the result must be str.%s on the text, wrapped with the shared attributes only" % name)
        # side: ljust appends, rjust prepends; nothing added when to_add is empty
        others = [r for r in rets if r not in fc]
        for r in others:
            v = r.value
            ok = isinstance(v, ast.IfExp) and unparse(v.test) == "to_add"
            side_ok = False
            if ok and isinstance(v.body, ast.BinOp) and isinstance(v.body.op, ast.Add):
                l, rr = unparse(v.body.left), unparse(v.body.right)
                padded = l if "to_add" in l else rr
                base = rr if "to_add" in l else l
                side_ok = ("to_add" in rr and name == "ljust") or ("to_add" in l and name == "rjust")
                side_ok = side_ok and unparse(v.orelse) == base
            rep.ob("D5-pad-on-the-right-side", f.where(r), f.scope, unparse(r), ok and side_ok,
                   "%s must add the padding %s the text and return the text unchanged when no padding is needed"
                   % (name, "after" if name == "ljust" else "before"))


def rule_split(src, rep, counts):
    f = src.func("formatstring", "FmtStr.split")
    sep, maxsplit, regex = f.params()[1:4]
    fi = [n for n in f.own_nodes() if isinstance(n, ast.Call) and (src.canon(n.func, f.module) or "") == "re.finditer"]
    esc = [n for n in f.own_nodes() if isinstance(n, ast.Call) and (src.canon(n.func, f.module) or "") == "re.escape"]
    finds = [n for n in f.own_nodes() if isinstance(n, ast.Call) and isinstance(n.func, ast.Attribute) and n.func.attr in ("find", "index")]
    if finds:
        # a hand-written scan: it must resume after the whole separator
        bad = None
        for n in finds:
            if len(n.args) == 2:
                lin = _linear(n.args[1], {})
                if lin is None or lin.get("len(%s)" % sep, 0) != 1:
                    bad = n
        rep.ob("D6-scan-is-non-overlapping", f.where(bad or finds[0]), f.scope, unparse(bad or finds[0]), bad is None,
               "the scan for a literal separator resumes at `%s`, not after the whole separator (i + len(sep)): overlapping "
               "occurrences are reported, so 'a,,,b'.split(',,') differs from str" % (unparse(bad.args[1]) if bad else ""),
               witness={"example": "fmtstr('a,,,b').split(',,') must give ['a', ',b']"})
    if not fi:
        if not finds:
            raise AnalysisError("FmtStr.split: neither re.finditer nor a find loop")
    else:
        # every finditer pattern is either the regex given, the whitespace default, or the escaped literal
        ok = True
        for n in esc:
            g = lexical_guard(f.module, n, f.node)
            ok = ok and unparse(n.args[0]) == sep and any(t == regex and not p for t, p in g)
        lit_ok = bool(esc) or bool(finds)
        rep.ob("D6-literal-separator-escaped", f.where(esc[0]) if esc else f.where(), f.scope,
               unparse(esc[0]) if esc else "<no re.escape>", ok and lit_ok,
               "a literal separator must be matched literally (re.escape(sep) when regex is False)")
    # pieces: self[start:end] for zip(chain((0,), ends), chain(starts, (len(s),)))
    rets = [n for n in f.own_nodes() if isinstance(n, ast.Return) and isinstance(n.value, ast.ListComp)]
    ok = False
    if len(rets) == 1:
        lc = rets[0].value
        g = lc.generators[0]
        ok = unparse(lc.elt) == "self[%s]" % ":".join(unparse(x) for x in g.target.elts) if isinstance(g.target, ast.Tuple) else False
        it = g.iter
        ok = ok and isinstance(it, ast.Call) and unparse(it.func) == "zip" and len(it.args) == 2 and not g.ifs
        if ok:
            a0, a1 = unparse(it.args[0]), unparse(it.args[1])
            ok = a0.startswith("chain((0,), ") and a1.startswith("chain(") and a1.endswith(", (len(s),))") and \
                ("end" in a0 or "for _, " in a0) and ("start" in a1 or ", _ in" in a1)
    rep.ob("D6-pieces-between-matches-in-order", f.where(rets[0]) if rets else f.where(), f.scope,
           unparse(rets[0])[:140].replace("\n", " ") if rets else "<none>", ok,
           "the pieces must be self[previous match end : next match start] from 0 to len(text), in order, none filtered")
    sl = src.func("formatstring", "FmtStr.splitlines")
    calls = [n for n in sl.own_nodes() if isinstance(n, ast.Call) and unparse(n.func) == "self.split"]
    ok = len(calls) == 1 and len(calls[0].args) == 1 and isinstance(calls[0].args[0], ast.Constant) and calls[0].args[0].value == "\n"
    rep.ob("D6-splitlines-splits-on-newline", sl.where(), sl.scope, unparse(calls[0]) if calls else "<none>", ok,
           "splitlines must split on the newline character")
