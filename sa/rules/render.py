"""E6 terminal-effect tokens and the render-protocol path rules shared by C02 (FullscreenWindow) and C07 (CursorAwareWindow)."""
import ast

from ..cfg import conjuncts, enumerate_paths, single_defs, local_defs
from ..report import AnalysisError
from ..srcmodel import is_self_attr, unparse

CACHE = "self._last_lines_by_row"
CAPS = {"clear_eol": "CLEAR_EOL", "clear_bol": "CLEAR_BOL", "clear_eos": "CLEAR_EOS", "clear": "CLEAR_ALL",
        "hide_cursor": "HIDE", "normal_cursor": "SHOW", "move_down": "MOVE_DOWN", "move_up": "MOVE_UP", "home": "HOME"}


def text_funcs(src, f):
    """Names of locals bound to the stdout transform (for_stdout = self.fmtstr_to_stdout_xform()), checked to be str()."""
    out = set()
    for n in f.own_nodes():
        if isinstance(n, ast.Assign) and isinstance(n.value, ast.Call) and unparse(n.value.func) == "self.fmtstr_to_stdout_xform" \
                and isinstance(n.targets[0], ast.Name):
            out.add(n.targets[0].id)
    return out


def token_of(stmt, textfuncs):
    """Terminal-effect token of one simple statement, or None."""
    if not (isinstance(stmt, ast.Expr) and isinstance(stmt.value, ast.Call)):
        return None
    c = stmt.value
    fn = unparse(c.func)
    if fn == "self.scroll_down":
        return ("SCROLL",)
    if fn != "self.write":
        return None
    if len(c.args) != 1:
        return ("OTHER", unparse(c))
    a = c.args[0]
    if isinstance(a, ast.Call):
        af = unparse(a.func)
        if af == "self.t.move":
            if len(a.args) == 1 and isinstance(a.args[0], ast.Starred):
                return ("MOVE", "*" + unparse(a.args[0].value))
            return ("MOVE",) + tuple(unparse(x) for x in a.args)
        if af == "self.t.move_x":
            return ("MOVE_X",) + tuple(unparse(x) for x in a.args)
        if af in textfuncs or af == "str":
            return ("TEXT", a.args[0]) if len(a.args) == 1 else ("OTHER", unparse(c))
        return ("OTHER", unparse(c))
    if isinstance(a, ast.Attribute) and unparse(a.value) == "self.t" and a.attr in CAPS:
        return (CAPS[a.attr],)
    return ("OTHER", unparse(c))


def path_tokens(path, textfuncs):
    """[(kind, ...)] along a path: terminal tokens, ('REC', key, value) cache records, ('COND', text, bool), ('STMT', text)."""
    out = []
    for ev in path.events:
        if ev[0] == "cond":
            out.append(("COND", ev[1], ev[2]))
        elif ev[0] == "stmt":
            st = ev[1]
            t = token_of(st, textfuncs)
            if t is not None:
                out.append(t)
            elif isinstance(st, ast.Assign) and len(st.targets) == 1 and isinstance(st.targets[0], ast.Subscript):
                out.append(("REC", unparse(st.targets[0].value), unparse(st.targets[0].slice), unparse(st.value)))
            elif isinstance(st, (ast.Continue, ast.Break, ast.Pass)):
                pass
            elif isinstance(st, ast.Expr) and isinstance(st.value, ast.Call) and unparse(st.value.func).startswith("logger."):
                pass
            else:
                out.append(("STMT", st))
        elif ev[0] == "loop":
            out.append(("LOOP", ev[1]))
        elif ev[0] == "with":
            out.append(("WITH", ev[1]))
    return out


def _expand(e, defs, depth=4):
    while isinstance(e, ast.Name) and e.id in defs and depth > 0:
        e = defs[e.id]
        depth -= 1
    return e


def is_cache_entry(e, rowvar, defs, cache=CACHE):
    """CACHE.get(row[, None]) or CACHE[row], after expanding single-definition locals."""
    e = _expand(e, defs)
    if isinstance(e, ast.Call) and unparse(e.func) == cache + ".get" and e.args and unparse(e.args[0]) == rowvar:
        return len(e.args) == 1 or (len(e.args) == 2 and isinstance(e.args[1], ast.Constant) and e.args[1].value is None)
    if isinstance(e, ast.Subscript) and unparse(e.value) == cache and unparse(e.slice) == rowvar:
        return True
    return False


def check_content_loop(rep, f, loop, rowvar, linevar, widthvar, current, textfuncs, prefix, bounded_text=None):
    """P1 draw sequence, P2 drawn => recorded, P3 skip soundness on one content loop.
    bounded_text: None (no bound required) or the width variable the TEXT argument must be sliced to."""
    defs = single_defs(loop) if False else {}
    # single definitions inside the loop body only
    counts = {}
    for n in ast.walk(loop):
        if isinstance(n, ast.Assign) and len(n.targets) == 1 and isinstance(n.targets[0], ast.Name):
            counts.setdefault(n.targets[0].id, []).append(n.value)
    defs = {k: v[0] for k, v in counts.items() if len(v) == 1}
    paths = [p for p in enumerate_paths(loop.body) if p.feasible()]
    scope = f.scope
    n_draw = n_skip = 0
    for p in paths:
        toks = path_tokens(p, textfuncs)
        term = [t for t in toks if t[0] in ("MOVE", "TEXT", "CLEAR_EOL", "CLEAR_BOL", "CLEAR_EOS", "CLEAR_ALL", "SCROLL", "OTHER",
                                            "HIDE", "SHOW", "MOVE_DOWN", "MOVE_UP", "MOVE_X", "HOME")]
        recs = [t for t in toks if t[0] == "REC" and t[1] == current]
        conds = [(t[1], t[2]) for t in toks if t[0] == "COND"]
        desc = _show(toks)
        where = f.where(loop)
        if p.term == "raise":
            continue
        # P2
        ok = len(recs) == 1 and recs[0][2] == rowvar and recs[0][3] == linevar
        rep.ob(prefix + "P2-row-recorded-on-every-path", where, scope, desc, ok,
               "every pass through the loop body - drawn or skipped - must record %s[%s] = %s; otherwise the cache forgets what "
               "the row shows (a later shorter array does not blank it) or remembers something else" % (current, rowvar, linevar))
        if any(t[0] == "TEXT" for t in term):
            n_draw += 1
            kinds = [t[0] for t in term]
            shape_ok = kinds[:2] == ["MOVE", "TEXT"] and kinds[2:] in ([], ["CLEAR_EOL"])
            mv = term[0] if term and term[0][0] == "MOVE" else None
            mv_ok = mv is not None and mv[1:] == (rowvar, "0")
            tx = term[1][1] if len(term) > 1 and term[1][0] == "TEXT" else None
            tx_txt = unparse(tx) if tx is not None else None
            if bounded_text:
                tx_ok = tx_txt in ("%s[:%s]" % (linevar, bounded_text), "%s[0:%s]" % (linevar, bounded_text))
            else:
                tx_ok = tx_txt in (linevar, "%s[:%s]" % (linevar, widthvar), "%s[0:%s]" % (linevar, widthvar))
            rep.ob(prefix + "P1-draw-sequence", where, scope, desc, shape_ok and mv_ok and tx_ok,
                   "a drawn row must be: move(%s, 0), the row's text, then clear_eol only; found %s" % (rowvar, _show(term)))
            has_clear = "CLEAR_EOL" in kinds
            guard = _len_lt_width(conds, linevar, widthvar)
            ok = (has_clear and guard is True) or (not has_clear and guard is False)
            rep.ob(prefix + "P1-clear-eol-iff-shorter-than-width", where, scope, desc, ok,
                   "clear_eol must follow the text exactly when len(%s) < %s: at full width the cursor sits in the pending-wrap "
                   "column and a clear erases the last cell; without a clear a shorter row leaves the tail of a longer one "
                   "(conditions on this path: %s)" % (linevar, widthvar, [(unparse(c), v) for c, v in conds]))
        else:
            n_skip += 1
            eqs = []
            for c, v in conds:
                for cj in (c.values if isinstance(c, ast.BoolOp) and isinstance(c.op, ast.And) else [c]):
                    if isinstance(cj, ast.Compare) and len(cj.ops) == 1 and isinstance(cj.ops[0], ast.Eq) and v:
                        l, r = cj.left, cj.comparators[0]
                        if unparse(l) == linevar and is_cache_entry(r, rowvar, defs):
                            eqs.append(cj)
                        elif unparse(r) == linevar and is_cache_entry(l, rowvar, defs):
                            eqs.append(cj)
            rep.ob(prefix + "P3-skip-only-on-equality-with-cached-row", where, scope, desc, bool(eqs) and not term,
                   "a row may be left untouched only when it equals what the cache says this same row shows "
                   "(%s == %s.get(%s)); this path skips under %s" % (linevar, CACHE, rowvar, [(unparse(c), v) for c, v in conds]))
    return n_draw, n_skip


def _len_lt_width(conds, linevar, widthvar):
    """True / False when the path took the true / false branch of `len(line) < width`; None when untested."""
    for c, v in conds:
        t = unparse(c)
        if t in ("len(%s) < %s" % (linevar, widthvar), "%s > len(%s)" % (widthvar, linevar)):
            return v
        if t in ("len(%s) >= %s" % (linevar, widthvar), "%s <= len(%s)" % (widthvar, linevar)):
            return not v
    return None


def check_blank_loop(rep, f, loop, rowvar, current, textfuncs, prefix):
    paths = [p for p in enumerate_paths(loop.body) if p.feasible()]
    for p in paths:
        toks = path_tokens(p, textfuncs)
        term = [t for t in toks if t[0] not in ("REC", "COND", "STMT")]
        recs = [t for t in toks if t[0] == "REC" and t[1] == current]
        conds = [(t[1], t[2]) for t in toks if t[0] == "COND"]
        desc = _show(toks)
        where = f.where(loop)
        if term:
            kinds = [t[0] for t in term]
            ok = kinds[:2] == ["MOVE", "CLEAR_EOL"] and kinds[2:] in ([], ["CLEAR_BOL"]) and term[0][1:] == (rowvar, "0") and \
                len(recs) == 1 and recs[0][2] == rowvar and recs[0][3] == "None"
            rep.ob(prefix + "P4-blank-row-sequence", where, scope_of(f), desc, ok,
                   "a row below the array must be blanked by move(%s, 0), clear_eol[, clear_bol] and recorded as %s[%s] = None"
                   % (rowvar, current, rowvar))
        else:
            ok = False
            for c, v in conds:
                if not v:
                    continue
                cj = {unparse(x) for x in (c.values if isinstance(c, ast.BoolOp) and isinstance(c.op, ast.And) else [c])}
                if cj == {CACHE, "%s not in %s" % (rowvar, CACHE)}:
                    ok = True
            rep.ob(prefix + "P5-blank-skipped-only-when-known-blank", where, scope_of(f), desc, ok and not recs,
                   "blanking may be skipped only when the cache is non-empty (nothing unknown on screen) and has no entry for "
                   "the row; this path skips under %s" % [(unparse(c), v) for c, v in conds])


def scope_of(f):
    return f.scope


def _show(toks):
    out = []
    for t in toks:
        if t[0] == "COND":
            out.append("[%s=%s]" % (unparse(t[1]), t[2]))
        elif t[0] == "TEXT":
            out.append("TEXT(%s)" % unparse(t[1]))
        elif t[0] == "STMT":
            out.append(unparse(t[1]).split("\n")[0][:50])
        elif t[0] in ("LOOP", "WITH"):
            out.append("<%s>" % t[0].lower())
        elif t[0] == "REC":
            out.append("%s[%s]=%s" % t[1:])
        else:
            out.append("%s%s" % (t[0], "(%s)" % ",".join(t[1:]) if len(t) > 1 else ""))
    return " ".join(out)


def size_locals(f):
    """(height local, width local) bound from self.height/self.t.height and self.width/self.t.width."""
    h = w = None
    for n in f.own_nodes():
        if isinstance(n, ast.Assign) and isinstance(n.targets[0], ast.Tuple) and isinstance(n.value, ast.Tuple) and \
                len(n.targets[0].elts) == len(n.value.elts):
            for t, v in zip(n.targets[0].elts, n.value.elts):
                if isinstance(t, ast.Name) and unparse(v) in ("self.height", "self.t.height"):
                    h = t.id
                if isinstance(t, ast.Name) and unparse(v) in ("self.width", "self.t.width"):
                    w = t.id
        elif isinstance(n, ast.Assign) and isinstance(n.targets[0], ast.Name):
            if unparse(n.value) in ("self.height", "self.t.height"):
                h = n.targets[0].id
            if unparse(n.value) in ("self.width", "self.t.width"):
                w = n.targets[0].id
            if isinstance(n.value, ast.Call) and unparse(n.value.func) == "self.get_term_hw":
                pass
    if h is None or w is None:
        raise AnalysisError("%s: cannot find the locals holding the terminal height and width" % f.qualname)
    return h, w


def check_invalidation(src, rep, f, h, w, first_loop, prefix):
    """P7: the cache is dropped when either dimension differs from the last render's, with the right value stored per dimension."""
    cb = src.func("window", "BaseWindow.on_terminal_size_change")
    params = cb.params()[1:]
    stores = {}
    resets = False
    for n in cb.own_nodes():
        if isinstance(n, ast.Assign) and is_self_attr(n.targets[0]):
            a = n.targets[0].attr
            if a in ("_last_rendered_height", "_last_rendered_width") and isinstance(n.value, ast.Name):
                stores[a] = n.value.id
            if a == "_last_lines_by_row" and isinstance(n.value, ast.Dict) and not n.value.keys:
                resets = True
    rep.ob(prefix + "P7-size-change-empties-cache", cb.where(), cb.scope, "self._last_lines_by_row = {}", resets,
           "on_terminal_size_change must empty the row cache: after a resize nothing is known about the screen")
    ifs = [n for n in f.node.body if isinstance(n, ast.If) and n.lineno < first_loop.lineno]
    found = None
    for n in ifs:
        calls = [c for st in n.body for c in ast.walk(st) if isinstance(c, ast.Call) and unparse(c.func) == "self.on_terminal_size_change"]
        if calls:
            found = (n, calls[0])
    if found is None:
        rep.ob(prefix + "P7-size-compared-before-cache-use", f.where(first_loop), f.scope, "<no size check before the row loops>", False,
               "the row cache is read without first comparing the terminal size with the size at the last render")
        return
    test, call = found[0].test, found[1]
    parts = test.values if isinstance(test, ast.BoolOp) and isinstance(test.op, ast.Or) else [test]
    cmp = {}
    for c in parts:
        if isinstance(c, ast.Compare) and len(c.ops) == 1 and isinstance(c.ops[0], ast.NotEq):
            l, r = unparse(c.left), unparse(c.comparators[0])
            for a, b in ((l, r), (r, l)):
                if b in ("self._last_rendered_height", "self._last_rendered_width"):
                    cmp[b[5:]] = a
    ok = cmp.get("_last_rendered_height") == h and cmp.get("_last_rendered_width") == w and not found[0].orelse
    rep.ob(prefix + "P7-both-dimensions-compared", f.where(found[0]), f.scope, unparse(test), ok,
           "the cache must be dropped when the height OR the width differs from the last render's (compared: %s; current "
           "height/width locals: %s/%s)" % (cmp, h, w))
    # argument -> parameter -> stored attribute must be the compared dimension
    args = [unparse(a) for a in call.args]
    ok = len(args) == len(params) == 2 and not call.keywords
    mapping = {}
    if ok:
        for a, p in zip(args, params):
            for attr, src_param in stores.items():
                if src_param == p:
                    mapping[attr] = a
        ok = mapping.get("_last_rendered_height") == h and mapping.get("_last_rendered_width") == w
    rep.ob(prefix + "P7-size-recorded-per-dimension", f.where(call), f.scope, unparse(call), ok,
           "the size recorded for the next comparison must be this render's height as height and width as width; here "
           "%s is stored (parameters %s, stores %s): a later resize to the swapped size is not noticed and stale rows are kept"
           % (mapping, params, stores), witness={"history": "render at h x w (h != w); resize to w x h leaving junk; render again"})


def check_commit(src, rep, f, current, loops, prefix):
    """P8: `current` is a fresh dict per call and becomes the cache after all row writes, unconditionally."""
    inits = [n for n in f.node.body if isinstance(n, (ast.Assign, ast.AnnAssign)) and
             unparse(n.targets[0] if isinstance(n, ast.Assign) else n.target) == current]
    ok = len(inits) == 1 and isinstance(inits[0].value, ast.Dict) and not inits[0].value.keys and inits[0].lineno < loops[0].lineno
    rep.ob(prefix + "P8-current-is-fresh", f.where(inits[0]) if inits else f.where(), f.scope,
           unparse(inits[0]) if inits else current, ok, "the map of what this render drew must start empty on every call")
    commits = [n for n in f.node.body if isinstance(n, ast.Assign) and unparse(n.targets[0]) == CACHE]
    ok = len(commits) == 1 and unparse(commits[0].value) == current and commits[0].lineno > loops[-1].lineno
    rep.ob(prefix + "P8-cache-committed-after-drawing", f.where(commits[0]) if commits else f.where(), f.scope,
           "%s = %s" % (CACHE, current), ok,
           "after the rows are written the cache must become exactly what this render recorded (top-level, unconditional, "
           "after the loops)")
    nested = [n for n in f.own_nodes() if isinstance(n, ast.Assign) and unparse(n.targets[0]) == CACHE and n not in commits]
    for n in nested:
        rep.ob(prefix + "P8-cache-committed-after-drawing", f.where(n), f.scope, unparse(n), False,
               "the cache is also assigned inside a branch/loop")


def who_writes_cache(src, rep, prefix):
    allowed = {"BaseWindow.__init__", "BaseWindow.on_terminal_size_change", "FullscreenWindow.render_to_terminal",
               "CursorAwareWindow.render_to_terminal"}
    n = 0
    for g in src.all_funcs():
        for node in g.own_nodes():
            tg = []
            if isinstance(node, ast.Assign):
                tg = node.targets
            elif isinstance(node, (ast.AugAssign, ast.AnnAssign)):
                tg = [node.target]
            elif isinstance(node, ast.Delete):
                tg = node.targets
            for t in tg:
                for a in ast.walk(t):
                    if isinstance(a, ast.Attribute) and a.attr == "_last_lines_by_row" and isinstance(a.ctx, (ast.Store, ast.Del)):
                        n += 1
                        rep.ob(prefix + "P8-who-may-write-cache", g.where(node), g.scope, unparse(node).split("\n")[0],
                               g.qualname in allowed and g.module.name == "window",
                               "the row cache is written outside __init__/on_terminal_size_change/render_to_terminal")
            if isinstance(node, ast.Call) and isinstance(node.func, ast.Attribute) and unparse(node.func.value) == CACHE and \
                    node.func.attr in ("pop", "clear", "update", "setdefault", "popitem", "__setitem__", "__delitem__"):
                n += 1
                rep.ob(prefix + "P8-who-may-write-cache", g.where(node), g.scope, unparse(node), False,
                       "the row cache is mutated in place; it must only be replaced by a completed render's record")
    return n
