"""C08 - Input returns every byte and triggered event exactly once, in order.

Queue discipline, no-drop dataflow, order-safe scheduling, wait-dominated-by-checks, wake-up protocol and paste
loop shape (DESIGN.md section 3, C08: rules Q1..Q10).
"""
import ast
import os

from ..cfg import CFG, G, conjuncts, lexical_guard, single_defs, local_defs
from ..consteval import Folder
from ..report import AnalysisError, Report, VERIF
from ..srcmodel import Source, is_self_attr, unparse

EXPLANATION_SEM = (
    "  Interpreted part (sa/rules/c08sem.py, a bounded catalogue): Input's own __enter__/send/_send/_wait_for_read_ready_or_timeout/"
    "_nonblocking_read/unget_bytes/trigger factories and their callbacks are interpreted against the reference OS model "
    "(select readiness from pending data, pipes, clock advanced by timeouts, SIGINT handler + wake-up byte) over 26 scripted "
    "histories: keys one by one and several per read, escape sequences, unget before / between / after arrivals, events "
    "from several triggers, thread-safe triggers firing before and WHILE a request is blocked (also a trigger created after "
    "a request has already waited), scheduled events with equal and different times, not yet due and due while keys wait, "
    "SIGINT between requests, timeouts 0 / small / None, bursts above and below the paste threshold (default, None, 1, "
    "100), a multi-kilobyte burst of multi-byte characters and escape sequences.  H1 the keypresses returned (pastes "
    "flattened) are exactly the keypresses the bytes decode to, in order; H2 every event comes back exactly once, per "
    "trigger in trigger order, one SigIntEvent per SIGINT; H3 scheduled events never early and in time order; H4 no request "
    "returns None or blocks forever while something is deliverable; H5 None not before the timeout; H6 a burst above the "
    "threshold comes back as one paste event."
)

EXPLANATION = (
    "Q1 who-may-mutate table for the six Input queues over the whole package (tail-in append/extend, head-out pop(0)/"
    "popleft, assignment only in __init__; sigints may pop() because its elements are indistinguishable); Q2 every popped "
    "value flows into a return or into the key decoder's buffer; Q3 the scheduled queue is sorted on the time component "
    "only (stable, never compares event objects), every head-pop of it is preceded by such a sort under an implied "
    "guard, and is guarded by a due test against the head's time; Q4 the blocking wait in _send is dominated by the "
    "empty branches of all three event queues, by a failed find_key() and is unreachable from a due scheduled event; "
    "Q5 wake-up protocol: append before os.write in the thread-safe callback, read end registered in readers, select "
    "reads stdin + wake-up fd + readers, interrupting queue re-tested after a trigger wake; Q6 READ_SIZE >= MAX_KEYPRESS_SIZE (the paste loop itself is decided by the interpreted histories: H1, H6); Q7 the wait reports 'timed out, nothing' only when select returned nothing; "
    "Q8 bytes enter the buffer one by one, all of them, in order; K7 find_key moves bytes pop(0)->append in one "
    "statement, full= is an emptiness test of the same buffer, a key ends the loop, leftovers raise; (the timeout a wait receives is decided by the interpreted histories below: H5)  "
    "scheduled the wait receives the caller's timeout unchanged."
)
NOT_DECIDED = ("actual interleavings and races between threads; the remaining-time arithmetic of the wait loop (float clock "
               "arithmetic); what select/os.read do.")

QUEUES = {
    # name: (in-ops, out-ops, other allowed ops)
    "unprocessed_bytes": ({"extend", "append"}, {"pop0", "popleft"}, set()),
    "queued_events": ({"append", "extend"}, {"pop0", "popleft"}, set()),
    "queued_interrupting_events": ({"append", "extend"}, {"pop0", "popleft"}, set()),
    "queued_scheduled_events": ({"append"}, {"pop0"}, {"sort"}),
    "sigints": ({"append"}, {"pop0", "popleft", "pop"}, set()),   # LIFO allowed: elements are indistinguishable SigIntEvent()
    "readers": ({"append"}, set(), set()),
}
READ_ONLY_METHODS = {"index", "count", "copy", "__len__", "__iter__", "__contains__", "__getitem__"}


def keyfinder(src):
    """The function that moves bytes from unprocessed_bytes into get_key (a closure of _send or a method of Input)
    and the texts by which it is called."""
    hits = []
    for (m, qn), g in src.funcs.items():
        if m != "input":
            continue
        if any(isinstance(n, ast.Call) and unparse(n.func).endswith("get_key") for n in g.own_nodes()) and \
                any(isinstance(n, ast.Attribute) and n.attr == "unprocessed_bytes" for n in g.own_nodes()):
            hits.append(g)
    if len(hits) != 1:
        raise AnalysisError("expected exactly one function feeding unprocessed_bytes to get_key, found %s" % [h.qualname for h in hits])
    g = hits[0]
    names = {g.name, "self." + g.name}
    return g, names


def _empty_edge(t, atom_text):
    """For a CFG test node whose condition is the single truthiness/emptiness atom of `atom_text`, the kind of the
    edge taken when it is EMPTY ('true' | 'false'), else None."""
    cj = conjuncts(t.ast)
    if len(cj) != 1:
        return None
    text, pol = cj[0]
    if text == atom_text:
        return "false" if pol else "true"
    if text in ("len(%s) == 0" % atom_text, "0 == len(%s)" % atom_text):
        return "true" if pol else "false"
    if text == "0 < len(%s)" % atom_text:
        return "false" if pol else "true"
    return None


def _queue_of(e):
    return e.attr if isinstance(e, ast.Attribute) and e.attr in QUEUES else None


def rule_q1_q2(src, rep, counts):
    n_mut = 0
    for f in src.all_funcs():
        mod = f.module
        for n in f.own_nodes():
            # assignment / deletion of the queue attribute itself
            tg = []
            if isinstance(n, ast.Assign):
                tg = n.targets
            elif isinstance(n, (ast.AnnAssign, ast.AugAssign)):
                tg = [n.target]
            elif isinstance(n, ast.Delete):
                tg = n.targets
            for t in tg:
                for a in ast.walk(t):
                    q = _queue_of(a)
                    if q and isinstance(a.ctx, (ast.Store, ast.Del)):
                        n_mut += 1
                        ok = f.name == "__init__" and isinstance(n, (ast.Assign, ast.AnnAssign)) and \
                            isinstance(getattr(n, "value", None), (ast.List,)) and not n.value.elts
                        if isinstance(n, ast.AugAssign):
                            ok = False
                        rep.ob("Q1-queue-assignment", f.where(n), f.scope, unparse(n).split("\n")[0], ok,
                               "queue %s is rebound/augmented outside an empty-list initialisation in __init__: pending "
                               "items are dropped or reordered" % q)
                    if isinstance(a, ast.Subscript) and isinstance(a.ctx, (ast.Store, ast.Del)) and _queue_of(a.value):
                        n_mut += 1
                        rep.ob("Q1-queue-discipline", f.where(n), f.scope, unparse(n).split("\n")[0], False,
                               "subscript store/delete on queue %s breaks first-in first-out delivery" % _queue_of(a.value))
            if isinstance(n, ast.Call) and isinstance(n.func, ast.Attribute) and _queue_of(n.func.value):
                q = _queue_of(n.func.value)
                m = n.func.attr
                if m in READ_ONLY_METHODS:
                    continue
                n_mut += 1
                ins, outs, other = QUEUES[q]
                op = m
                if m == "pop":
                    if len(n.args) == 1 and isinstance(n.args[0], ast.Constant) and n.args[0].value == 0:
                        op = "pop0"
                    elif not n.args:
                        op = "pop"
                    else:
                        op = "pop(%s)" % unparse(n.args[0])
                ok = op in ins or op in outs or op in other
                rep.ob("Q1-queue-discipline", f.where(n), f.scope, unparse(n), ok,
                       "operation %s on queue %s is not tail-in/head-out (allowed: %s): items would be delivered out of "
                       "order, twice or never" % (op, q, sorted(ins | outs | other)))
                if op in outs and ok:
                    rep.ob("Q2-popped-value-delivered", f.where(n), f.scope, unparse(n), _delivered(mod, f, n),
                           "the value taken from queue %s is neither returned nor handed to the key decoder: it is lost" % q)
    counts["queue_mutation_sites"] = n_mut


def _delivered(mod, f, call):
    """pop value -> Return (possibly through subscripts / tuples / conditional expr) or argument of X.append(...) where
    X is a local list later given to get_key; or assigned to a local that is returned."""
    node = call
    p = mod.parent.get(node)
    while isinstance(p, (ast.Subscript, ast.Tuple, ast.IfExp, ast.Starred)) or \
            (isinstance(p, ast.Call) and isinstance(p.func, ast.Name) and p.func.id == "cast"):
        if isinstance(p, ast.Subscript) and p.value is not node:
            return False
        node = p
        p = mod.parent.get(node)
    if isinstance(p, ast.Return):
        return True
    if isinstance(p, ast.Call) and isinstance(p.func, ast.Attribute) and p.func.attr == "append" and node in p.args and \
            isinstance(p.func.value, ast.Name):
        buf = p.func.value.id
        # the buffer must reach get_key
        for c in f.own_nodes():
            if isinstance(c, ast.Call) and unparse(c.func).endswith("get_key") and c.args and unparse(c.args[0]) == buf:
                return True
        return False
    if isinstance(p, (ast.Assign, ast.AnnAssign)):
        tg = p.targets[0] if isinstance(p, ast.Assign) else p.target
        if isinstance(tg, ast.Name):
            return any(isinstance(r, ast.Return) and r.value is not None and
                       any(isinstance(x, ast.Name) and x.id == tg.id for x in ast.walk(r.value)) for r in f.own_nodes())
    return False


def _key_is_time_component(call):
    for k in call.keywords:
        if k.arg == "key":
            v = k.value
            if isinstance(v, ast.Lambda) and len(v.args.args) == 1:
                a = v.args.args[0].arg
                b = v.body
                if isinstance(b, ast.Subscript) and isinstance(b.value, ast.Name) and b.value.id == a and \
                        isinstance(b.slice, ast.Constant) and b.slice.value == 0:
                    return True
            if isinstance(v, ast.Call) and unparse(v.func).endswith("itemgetter") and len(v.args) == 1 and \
                    isinstance(v.args[0], ast.Constant) and v.args[0].value == 0:
                return True
    return False


def rule_q3(src, rep, counts):
    q = "queued_scheduled_events"
    sorts = []
    pops = []
    appends = []
    for f in src.all_funcs():
        for n in f.own_nodes():
            if isinstance(n, ast.Call) and isinstance(n.func, ast.Attribute) and _queue_of(n.func.value) == q:
                if n.func.attr == "sort":
                    sorts.append((f, n))
                elif n.func.attr == "pop":
                    pops.append((f, n))
                elif n.func.attr == "append":
                    appends.append((f, n))
            if isinstance(n, ast.Call) and isinstance(n.func, ast.Name) and n.func.id in ("sorted", "min", "max") and n.args \
                    and _queue_of(n.args[0]) == q:
                sorts.append((f, n))
    # a pop that sits in a small helper method is judged at the helper's call sites
    moved = []
    for f, n in list(pops):
        has_sort = any(sf is f for sf, _ in sorts)
        if f.cls is not None and f.outer is None and not has_sort and f.name not in ("_send", "send"):
            sites = []
            for g in src.all_funcs():
                if g.cls is f.cls:
                    for c in g.own_nodes():
                        if isinstance(c, ast.Call) and unparse(c.func) == "self.%s" % f.name:
                            sites.append((g, c))
            if sites and not lexical_guard(f.module, n, f.node):
                pops.remove((f, n))
                moved.extend(sites)
    pops.extend(moved)
    counts["scheduled_sorts"] = len(sorts)
    counts["scheduled_pops"] = len(pops)
    # elements are (when, event) tuples: the appended value's first component is the time
    for f, n in appends:
        a = n.args[0] if n.args else None
        ok = isinstance(a, ast.Tuple) and len(a.elts) == 2 and isinstance(a.elts[0], ast.Name) and \
            a.elts[0].id in f.params()
        rep.ob("Q3-scheduled-element-shape", f.where(n), f.scope, unparse(n), ok,
               "scheduled events must be queued as (when, event) with `when` the callback's argument")
    for f, n in sorts:
        keyed = _key_is_time_component(n)
        rev = any(k.arg == "reverse" and not (isinstance(k.value, ast.Constant) and not k.value.value) for k in n.keywords)
        rep.ob("Q3-order-safe-sort", f.where(n), f.scope, unparse(n), keyed and not rev,
               "ordering (when, event) tuples without key=<time component> compares the event objects when two times are "
               "equal: ScheduledEvent defines no ordering, so send() raises TypeError for two events scheduled for the same "
               "time; with a key on the time only the stable sort keeps trigger order" if not keyed else
               "reverse ordering delivers the latest event first",
               witness={"history": "cb = inp.scheduled_event_trigger(E); cb(when=t); cb(when=t); inp.send(0)"} if not keyed else None)
    for f, n in pops:
        g_pop = set(lexical_guard(f.module, n, f.node))
        cands = [s for sf, s in sorts if sf is f and (s.lineno, s.col_offset) < (n.lineno, n.col_offset) and
                 isinstance(s.func, ast.Attribute) and s.func.attr == "sort"]
        ok = False
        for s in cands:
            g_sort = set(lexical_guard(f.module, s, f.node))
            if g_sort <= g_pop:
                ok = True
        rep.ob("Q3-pop-after-sort", f.where(n), f.scope, unparse(n), ok,
               "the head of the scheduled queue is taken although no in-place sort of the queue on the time component "
               "precedes it under a guard implied by the pop's guard %s: the head need not be the earliest event"
               % sorted(t for t, _ in g_pop))
        # due test: guarded by `<when> < time.time()` where <when> is the head's first component
        defs = local_defs(f.node)
        due = False
        for (t, pol) in g_pop:
            try:
                e = ast.parse(t, mode="eval").body
            except SyntaxError:
                continue
            if isinstance(e, ast.Compare) and len(e.ops) == 1 and pol:
                l, r = e.left, e.comparators[0]
                op = e.ops[0]
                if isinstance(op, (ast.Gt, ast.GtE)):
                    l, r = r, l
                    op = ast.Lt() if isinstance(op, ast.Gt) else ast.LtE()
                if isinstance(op, (ast.Lt, ast.LtE)) and unparse(r) == "time.time()" and isinstance(l, ast.Name):
                    # l must be bound only from the head element's first component
                    binds = _tuple_first_binds(f, l.id)
                    if binds and all(unparse(b) == "self.%s[0]" % q for b in binds):
                        due = True
        rep.ob("Q3-pop-only-when-due", f.where(n), f.scope, unparse(n), due,
               "a scheduled event is delivered without a `when < time.time()` test on the time of the queue's head: it can "
               "come out before its time")


def _tuple_first_binds(f, name):
    """Expressions X such that `name, _ = X` (name is the FIRST tuple component) or name = X[0]; [] when bound otherwise."""
    out = []
    for n in f.own_nodes():
        if isinstance(n, ast.Assign):
            for t in n.targets:
                if isinstance(t, ast.Tuple) and t.elts and isinstance(t.elts[0], ast.Name) and t.elts[0].id == name:
                    out.append(n.value)
                elif isinstance(t, ast.Tuple) and any(isinstance(x, ast.Name) and x.id == name for x in t.elts):
                    return []
                elif isinstance(t, ast.Name) and t.id == name:
                    v = n.value
                    if isinstance(v, ast.Subscript) and isinstance(v.slice, ast.Constant) and v.slice.value == 0:
                        out.append(v.value)
                    else:
                        return []
        elif isinstance(n, (ast.For, ast.AugAssign, ast.NamedExpr)):
            for x in ast.walk(n.target):
                if isinstance(x, ast.Name) and x.id == name:
                    return []
    return out


def rule_q4(src, rep, counts):
    f = src.func("input", "Input._send")
    cfg = CFG(f.node)
    waits = [n for n in f.own_nodes() if isinstance(n, ast.Call) and isinstance(n.func, ast.Attribute) and
             n.func.attr == "_wait_for_read_ready_or_timeout"]
    if not waits:
        raise AnalysisError("anchor vanished: no call of _wait_for_read_ready_or_timeout in Input._send")
    counts["wait_sites"] = len(waits)
    tests = [n for n in cfg.nodes if n.kind == "test"]
    for w in waits:
        wn = cfg.node_containing(w)
        if wn is None:
            raise AnalysisError("cannot place the wait call in the CFG of _send")
        for q in ("sigints", "queued_events", "queued_interrupting_events"):
            ok = False
            for t in tests:
                kind = _empty_edge(t, "self.%s" % q)
                if kind:
                    ed = [s for s in t.succ if s.kind == kind]
                    if ed and cfg.dominates(ed[0], wn):
                        ok = True
            rep.ob("Q4-wait-after-queue-check", f.where(w), f.scope, "%s  [queue %s]" % (unparse(w.func), q), ok,
                   "the blocking wait is reachable without passing the empty branch of a test of self.%s: a request can "
                   "block or time out while an event of that queue is deliverable" % q)
        # find_key() tried first and was None
        ok = False
        kf, kf_names = keyfinder(src)
        for n in cfg.nodes:
            if n.kind == "stmt" and isinstance(n.ast, ast.Assign) and isinstance(n.ast.value, ast.Call) and \
                    unparse(n.ast.value.func) in kf_names and isinstance(n.ast.targets[0], ast.Name):
                var = n.ast.targets[0].id
                if not cfg.dominates(n, wn):
                    continue
                for t in tests:
                    cj = conjuncts(t.ast)
                    if len(cj) == 1 and cj[0][0] == "%s is None" % var and cfg.dominates(n, t):
                        kind = "true" if cj[0][1] else "false"
                        ed = [s for s in t.succ if s.kind == kind]
                        if ed and cfg.dominates(ed[0], wn):
                            ok = True
        rep.ob("Q4-wait-after-buffered-key", f.where(w), f.scope, unparse(w.func), ok,
               "the blocking wait is not dominated by `e = find_key()` followed by the `e is None` branch: bytes already "
               "buffered would wait for new input before being returned")
        # scheduled: no path from the due branch to the wait; and the scheduled queue test precedes the wait
        sched_test = [t for t in tests if _empty_edge(t, "self.queued_scheduled_events") and cfg.dominates(t, wn)]
        rep.ob("Q4-wait-after-scheduled-check", f.where(w), f.scope, unparse(w.func) + " [scheduled]", bool(sched_test),
               "the wait is not dominated by a test of self.queued_scheduled_events")
        due_tests = [t for t in tests if "time.time()" in unparse(t.ast) and cfg.dominates(t, wn) is False and
                     any(cfg.dominates(s, t) for s in sched_test)]
        due_ok = True
        seen_due = False
        for t in tests:
            tx = unparse(t.ast)
            if "time.time()" in tx and "when" in tx and (t.ast.lineno, t.ast.col_offset) < (w.lineno, w.col_offset):
                seen_due = True
                tr = [s for s in t.succ if s.kind == "true"]
                if tr and (tr[0] is wn or cfg.reaches(tr[0], wn)):
                    due_ok = False
        rep.ob("Q4-no-wait-when-scheduled-due", f.where(w), f.scope, unparse(w.func) + " [due]", seen_due and due_ok,
               "the wait is reachable from the branch in which the earliest scheduled event is already due (or no due test "
               "precedes the wait)")


def _reassigned_between(cfg, a, b, var):
    return False


def rule_q5(src, rep, counts):
    f = src.func("input", "Input.threadsafe_event_trigger")
    cb = None
    for (m, qn), g in src.funcs.items():
        if m == "input" and qn.startswith("Input.threadsafe_event_trigger.") and g.outer is f:
            cb = g
    if cb is None:
        raise AnalysisError("anchor vanished: callback nested in Input.threadsafe_event_trigger")
    body_calls = sorted((n for n in cb.own_nodes() if isinstance(n, ast.Call)), key=lambda n: (n.lineno, n.col_offset))
    app = [n for n in body_calls if isinstance(n.func, ast.Attribute) and n.func.attr == "append" and
           _queue_of(n.func.value) == "queued_interrupting_events"]
    wr = [n for n in body_calls if src.canon(n.func, cb.module) == "os.write"]
    ok = len(app) == 1 and len(wr) >= 1 and (app[0].lineno, app[0].col_offset) < (wr[0].lineno, wr[0].col_offset)
    rep.ob("Q5-append-before-wakeup-write", cb.where(wr[0]) if wr else cb.where(), cb.scope,
           "%s ; %s" % (unparse(app[0]) if app else "<no append>", unparse(wr[0]) if wr else "<no os.write>"), ok,
           "the thread-safe callback must queue the event before it writes the wake-up byte; otherwise the woken request "
           "finds the queue empty and goes back to sleep with the event pending")
    # same pipe: os.write(writefd) where writefd comes from the os.pipe() of the enclosing function, whose read end is registered
    pipes = [n for n in f.own_nodes() if isinstance(n, ast.Assign) and isinstance(n.value, ast.Call) and
             src.canon(n.value.func, f.module) == "os.pipe" and isinstance(n.targets[0], ast.Tuple) and len(n.targets[0].elts) == 2]
    ok = False
    if pipes and wr:
        rfd, wfd = [unparse(x) for x in pipes[0].targets[0].elts]
        reg = [n for n in f.own_nodes() if isinstance(n, ast.Call) and isinstance(n.func, ast.Attribute) and
               n.func.attr == "append" and _queue_of(n.func.value) == "readers" and n.args and unparse(n.args[0]) == rfd]
        ok = bool(reg) and unparse(wr[0].args[0]) == wfd and len(wr[0].args) >= 2 and \
            isinstance(wr[0].args[1], ast.Constant) and isinstance(wr[0].args[1].value, bytes) and len(wr[0].args[1].value) >= 1
    rep.ob("Q5-wakeup-pipe-wired", f.where(), f.scope, "readfd, writefd = os.pipe(); self.readers.append(readfd); os.write(writefd, b'...')",
           ok, "the read end of the trigger pipe must be registered in self.readers and the callback must write at least one "
           "byte to the write end of the same pipe")
    rets = [n for n in f.own_nodes() if isinstance(n, ast.Return)]
    rep.ob("Q5-trigger-returns-callback", f.where(), f.scope, "return callback",
           len(rets) == 1 and unparse(rets[0].value) == cb.name, "the trigger factory must return its callback")
    # select read list
    w = src.func("input", "Input._wait_for_read_ready_or_timeout")
    sel = [n for n in w.own_nodes() if isinstance(n, ast.Call) and src.canon(n.func, w.module) == "select.select"]
    if len(sel) != 1:
        raise AnalysisError("expected exactly one select.select call in _wait_for_read_ready_or_timeout, found %d" % len(sel))
    rl_e = sel[0].args[0] if sel[0].args else None
    wdefs = single_defs(w.node)
    seen = 0
    while isinstance(rl_e, ast.Name) and rl_e.id in wdefs and seen < 4:
        rl_e = wdefs[rl_e.id]
        seen += 1
    rl = unparse(rl_e) if rl_e is not None else ""
    # augmented in steps (fds = [a]; fds += [b]; fds += self.readers): collect every piece
    if isinstance(sel[0].args[0], ast.Name):
        nm = sel[0].args[0].id
        for x in w.own_nodes():
            if isinstance(x, ast.AugAssign) and isinstance(x.target, ast.Name) and x.target.id == nm:
                rl += " + " + unparse(x.value)
            if isinstance(x, ast.Call) and isinstance(x.func, ast.Attribute) and x.func.attr in ("append", "extend") and \
                    unparse(x.func.value) == nm and x.args:
                rl += " + " + unparse(x.args[0])
            if isinstance(x, (ast.Assign, ast.AnnAssign)) and unparse(x.targets[0] if isinstance(x, ast.Assign) else x.target) == nm and x.value is not None:
                rl += " + " + unparse(x.value)
    # what select watches is evaluated, not pattern-matched: the wait is abstractly interpreted with select.select stubbed
    # (it reports nothing ready), twice, with a reader registered in between
    from ..objinterp import Obj, NativeFunc, ObjInterp
    from ..absint import FoldedRaise
    from ..consteval import Record, Unknown
    it = ObjInterp(src)
    fold = it.folder
    seen = []

    def fake_select(args, kw):
        seen.append((sorted(args[0]) if args else None, args[3] if len(args) > 3 else kw.get("timeout", "<none>")))
        return ([], [], [])
    fold.overrides["input"] = {"select": Record(select=NativeFunc(fake_select)), "time": Record(time=NativeFunc(lambda a, k: 100.0))}
    for wake in (9, None):
        try:
            inp = it.new("input", "Input", in_stream=Record(fileno=NativeFunc(lambda a, k: 7)))
        except (FoldedRaise, Unknown) as e:
            fold.overrides.pop("input", None)
            raise AnalysisError("Input.__init__ outside the evaluated subset: %s" % e)
        inp.fields.update({"wakeup_read_fd": wake, "wakeup_write_fd": 10 if wake else None})
        inp.fields["readers"].extend([11, 12])
        del seen[:]
        mark = it.checkpoint()
        try:
            r1 = fold._inline(w, [0.25], {}, self_obj=inp)
            inp.fields["readers"].append(13)
            r2 = fold._inline(w, [None], {}, self_obj=inp)
        except FoldedRaise as e:
            r1 = r2 = ("raise", e.name)
        except Unknown as e:
            fold.overrides.pop("input", None)
            raise AnalysisError("_wait_for_read_ready_or_timeout outside the evaluated subset: %s" % e)
        if r1 == ("raise", "AttributeError"):
            fold.overrides.pop("input", None)
            raise AnalysisError("the wait needs state that only __enter__ sets up and that this model does not know")
        base = [7] + ([wake] if wake else [])
        want = [(sorted(base + [11, 12]), 0.25), (sorted(base + [11, 12, 13]), None)]
        if not (seen == want and r1 == (False, None) and r2 == (False, None)) and it.dirty(mark):
            fold.overrides.pop("input", None)
            raise AnalysisError("_wait_for_read_ready_or_timeout: %s" % it.dirty(mark))
        rep.ob("Q5-select-reads", w.where(sel[0]), w.scope, "wake-up fd %s: select watched %s" % (wake, seen), seen == want and r1 == (False, None) and r2 == (False, None),
               "at every wait select must watch the input stream, the signal wake-up pipe when set, and every CURRENTLY registered "
               "trigger pipe, with the caller's timeout; expected %s, observed %s (results %s, %s): a blocked request is not woken by what is missing"
               % (want, seen, r1, r2), witness={"expected": str(want), "observed": str(seen)})
        rep.case(True)
    fold.overrides.pop("input", None)
    rep.ob("Q5-select-timeout-arg", w.where(sel[0]), w.scope, unparse(sel[0])[:120],
           len(sel[0].args) == 4 and isinstance(sel[0].args[3], ast.Name),
           "select must be given the remaining timeout")
    # after a trigger wake: interrupting queue re-tested and popped
    pops = [n for n in w.own_nodes() if isinstance(n, ast.Call) and isinstance(n.func, ast.Attribute) and n.func.attr in ("pop", "popleft")
            and _queue_of(n.func.value) == "queued_interrupting_events"]
    ok = False
    for p in pops:
        g = lexical_guard(w.module, p, w.node)
        if ("self.queued_interrupting_events", True) in g:
            ok = True
    rep.ob("Q5-interrupting-queue-retested-after-wake", w.where(pops[0]) if pops else w.where(), w.scope,
           unparse(pops[0]) if pops else "<none>", ok,
           "after a wake-up through a trigger pipe the interrupting queue must be tested and its head returned")
    # the wake-up fd byte: SIGINT -> InterruptedError (handled by the OSError handler that delivers sigints)
    counts["select_sites"] = len(sel)


def rule_q7(src, rep, counts):
    """The wait answers 'not ready, no event' only when select returned nothing."""
    w = src.func("input", "Input._wait_for_read_ready_or_timeout")
    n_ret = 0
    for r in [n for n in w.own_nodes() if isinstance(n, ast.Return)]:
        v = r.value
        if not (isinstance(v, ast.Tuple) and len(v.elts) == 2):
            rep.ob("Q7-wait-return-shape", w.where(r), w.scope, unparse(r), False, "the wait must return (ready, event)")
            continue
        n_ret += 1
        ready, event = v.elts
        may_be_none = (isinstance(event, ast.Constant) and event.value is None) or \
            any(isinstance(x, ast.Constant) and x.value is None for x in ast.walk(event))
        is_false = isinstance(ready, ast.Constant) and ready.value is False
        if is_false and may_be_none:
            g = lexical_guard(w.module, r, w.node)
            sel_names = set()
            for n in w.own_nodes():
                if isinstance(n, ast.Assign) and isinstance(n.value, ast.Call) and src.canon(n.value.func, w.module) == "select.select":
                    t = n.targets[0]
                    if isinstance(t, ast.Tuple) and t.elts and isinstance(t.elts[0], ast.Name):
                        sel_names.add(t.elts[0].id)
                    elif isinstance(t, ast.Name):
                        sel_names.add(t.id)
            ok = any((nm, False) in g for nm in sel_names)
            rep.ob("Q7-timeout-only-when-select-empty", w.where(r), w.scope, unparse(r), ok,
                   "the wait can answer 'timed out, no event' although select reported a readable descriptor: the request "
                   "returns None before its timeout (guard here: %s)" % [("" if p else "not ") + t for t, p in g])
        if isinstance(ready, ast.Constant) and ready.value is True:
            g = lexical_guard(w.module, r, w.node)
            ok = any(p and "self.in_stream.fileno()" in t and "==" in t for t, p in g)
            rep.ob("Q7-ready-only-for-stdin", w.where(r), w.scope, unparse(r), ok,
                   "the wait reports the input stream as readable outside the branch that compares the ready descriptor "
                   "with self.in_stream.fileno()")
    counts["wait_returns"] = n_ret
    # the OSError handler delivers a pending sigint
    handlers = [h for n in w.own_nodes() if isinstance(n, ast.Try) for h in n.handlers]
    ok = False
    for h in handlers:
        if h.type is not None and unparse(h.type) in ("OSError", "InterruptedError", "(OSError, InterruptedError)", "(InterruptedError, OSError)"):
            for x in ast.walk(h):
                if isinstance(x, ast.Call) and isinstance(x.func, ast.Attribute) and x.func.attr in ("pop", "popleft") and \
                        _queue_of(x.func.value) == "sigints":
                    ok = True
    raises = [n for n in w.own_nodes() if isinstance(n, ast.Raise) and n.exc is not None and "InterruptedError" in unparse(n.exc)]
    rep.ob("Q7-sigint-wake-delivers-sigint", w.where(), w.scope, "raise InterruptedError() -> except OSError: sigints.pop()",
           ok and bool(raises),
           "a SIGINT wake-up byte must lead (through InterruptedError/OSError handling) to the pending SigIntEvent being "
           "returned, and otherwise to the wait continuing with the remaining timeout")


def _byte_split_gen(e, src_name=None):
    """`X[i:i+1] for i in range(len(X))` -> X text, else None."""
    if not isinstance(e, (ast.GeneratorExp, ast.ListComp)) or len(e.generators) != 1:
        return None
    g = e.generators[0]
    if g.ifs or not isinstance(g.target, ast.Name):
        return None
    i = g.target.id
    it = g.iter
    if not (isinstance(it, ast.Call) and isinstance(it.func, ast.Name) and it.func.id == "range" and len(it.args) == 1 and
            isinstance(it.args[0], ast.Call) and unparse(it.args[0].func) == "len" and len(it.args[0].args) == 1):
        return None
    x = unparse(it.args[0].args[0])
    el = e.elt
    if not (isinstance(el, ast.Subscript) and unparse(el.value) == x and isinstance(el.slice, ast.Slice) and el.slice.step is None
            and el.slice.lower is not None and unparse(el.slice.lower) == i and el.slice.upper is not None and
            unparse(el.slice.upper) in ("%s + 1" % i, "1 + %s" % i)):
        return None
    return x


def rule_q8(src, rep, counts):
    """_nonblocking_read is abstractly interpreted against the reference OS model: every byte read is appended, one element per
    byte, in order, after what is already buffered; the count returned is the number of bytes; nothing is buffered when the read
    would block or returns nothing; the read is os.read(stdin, READ_SIZE) made while the stream is non-blocking, and the flags
    are as before afterwards.  (unget_bytes is covered by K7's Q8-unget rule.)"""
    from .. import osmodel
    from ..fold import new_interp
    from ..objinterp import NativeFunc
    from ..consteval import Record
    it = new_interp(src)
    fold = it.folder
    f = src.func("input", "Input._nonblocking_read")
    read_size = fold.const("input", "READ_SIZE", int)
    n = 0
    for label, behaviour, want_buf, want_ret in (
            ("3 bytes", b"ab\xc3", [b"x", b"a", b"b", b"\xc3"], 3),
            ("1 byte", b"\x1b", [b"x", b"\x1b"], 1),
            ("nothing (EOF / dsusp)", b"", [b"x"], 0),
            ("would block", None, [b"x"], 0)):
        fold.overrides.clear()
        osm = osmodel.OS()
        osmodel.install(it, osm)
        if behaviour is not None:
            osm.data[0] = [behaviour]
        inp = it.new("input", "Input", in_stream=Record(fileno=NativeFunc(lambda a, k: 0), name="<stdin>"))
        inp.fields["unprocessed_bytes"] = [b"x"]
        log = it.__dict__.setdefault("effect_log", [])
        del log[:]
        forks = getattr(it, "forks", 0)
        r = it.callm(inp, "_nonblocking_read")
        if r[0] == "opaque":
            raise AnalysisError("_nonblocking_read outside the evaluated subset: %s" % r[1])
        skipped = [t for k, t in log if not t.startswith(("logger.", "logging."))]
        if skipped or getattr(it, "forks", 0) != forks:
            raise AnalysisError("_nonblocking_read: statement outside the evaluated subset: `%s`" % (skipped[0] if skipped else "unknown condition"))
        n += 1
        got = inp.fields["unprocessed_bytes"]
        ok = r == ("ok", want_ret) and got == want_buf
        rep.ob("Q8-read-bytes-enter-buffer-in-order", f.where(), f.scope, "os.read gives %s" % label, ok,
               "after the read the buffer must be %s and the count returned %s; got buffer %s and %s" % (want_buf, want_ret, got, r))
        rep.case(True)
        if osm.read_args:
            ok = osm.read_args[:1] == [(0, read_size)]
            rep.ob("Q8-reads-from-the-input-stream", f.where(), f.scope, "os.read%s" % (osm.read_args[0],), ok,
                   "the read must be os.read(self.in_stream.fileno(), READ_SIZE)")
            rep.ob("Q8-read-inside-nonblocking-context", f.where(), f.scope, "flags during / after the read (os.read gives %s)" % label,
                   bool(osm.flags_at_read[0] & osmodel.O_NONBLOCK) and osm.flags[0] == 2,
                   "during the read the stream's flags were %s, afterwards %#x: the read must run with O_NONBLOCK set (a blocked stream "
                   "cannot stall a request) and leave the flags as they were" % ([hex(x) for x in osm.flags_at_read], osm.flags[0]))
    fold.overrides.clear()
    counts["buffer_fill_sites"] = n + 1


def rule_k7(src, rep, counts):
    """The key finder (closure of _send or method of Input) is abstractly interpreted on byte buffers derived from the key
    tables: it must return the first keypress of the reference segmentation and leave exactly the remaining bytes, in
    order, in the buffer; `full` must mean 'buffer exhausted'; unget_bytes appends at the tail."""
    from ..keymodel import KeyModel
    from ..objinterp import Obj
    from ..absint import LocalFunc, FoldedRaise
    from ..consteval import Unknown
    km = KeyModel(src)
    it = km.it
    fold = it.folder
    kf, _ = keyfinder(src)
    enc_box = {"enc": "utf8"}
    fold.stubs[("input", "getpreferredencoding")] = lambda args, kw: enc_box["enc"]

    def run_finder(buf, mode="CURTSIES"):
        inp = Obj("input", "Input")
        inp.fields.update({"unprocessed_bytes": [bytes([b]) for b in buf], "keynames": km.modes[mode], "paste_threshold": None,
                           "sigints": [], "queued_events": [], "queued_interrupting_events": [], "queued_scheduled_events": [], "readers": []})
        mark = it.checkpoint()
        try:
            if kf.outer is not None:
                env = dict(fold.module("input"))
                env["self"] = inp
                r = fold.v_call(LocalFunc(kf.node, env), [], {}, None, {})
            else:
                r = fold._inline(kf, [], {}, self_obj=inp)
            res = ("ok", r)
        except FoldedRaise as e:
            res = ("raise", e.name)
        except Unknown as e:
            raise AnalysisError("key finder %s outside the evaluated subset: %s" % (kf.qualname, e))
        if it.dirty(mark):
            raise AnalysisError("key finder %s: %s" % (kf.qualname, it.dirty(mark)))
        return res, b"".join(inp.fields["unprocessed_bytes"])

    def reference(buf, enc):
        """(kind, name, consumed) by the reference segmentation fed byte by byte; kind in name/raise/dontcare"""
        cur = b""
        for i in range(len(buf)):
            cur = buf[:i + 1]
            full = i + 1 == len(buf)
            e = km.expected(cur, enc, full)
            if e[0] == "none":
                continue
            if e[0] == "dontcare":
                return ("dontcare", None, i + 1)
            if e[0] == "name":
                return ("name", km.expected_name(cur, enc, "CURTSIES"), i + 1)
            return ("raise", None, i + 1)
        return ("raise" if buf else "none", None, len(buf))

    keys = sorted(km.keys, key=lambda k: (len(k), k))
    sample_keys = [k for k in keys if len(k) > 1][::7] + [b"\x1b", b"a", b"\x7f", b"\t", b" "]
    bufs = []
    for k in sample_keys:
        bufs += [k, k + b"a", k + b"\x1b", k + k]
    bufs += [b"\x1b[", b"\x1b[1", b"\x1b[1;", b"\x1bO", b"ab", b"\xc3\xa9x", b"\xe2\x82\xacy", b"\xf0\x9f\x98\x80", b"\xc3", b"\xe2\x82",
             b"a\xc3\xa9", b"\x1b\x1b[A", b"\x1b\x1b", b"\x1b[1;10A~", b""]
    n = bad = 0
    for enc in ("utf8", "ascii", "latin-1"):
        enc_box["enc"] = enc
        for buf in bufs:
            kind, name, used = reference(buf, enc)
            if kind == "dontcare":
                continue
            (res, left) = run_finder(buf)
            n += 1
            rep.case(kind == "name")
            if kind == "name":
                ok = res == ("ok", name) and left == buf[used:]
            elif kind == "none":
                ok = res == ("ok", None) and left == b""
            else:
                ok = res[0] == "raise"
            if not ok:
                bad += 1
                if bad <= 3:
                    rep.ob("K7-finder-returns-first-keypress-and-keeps-the-rest", kf.where(), kf.scope, "buffer %r under %s" % (buf, enc), False,
                           "the key finder gives %s and leaves %r buffered; the reference segmentation gives %s and leaves %r: bytes are "
                           "lost, duplicated, reordered, or a keypress is cut at the wrong place"
                           % (res, left, ("key %r" % name) if kind == "name" else kind, buf[used:] if kind == "name" else b""),
                           witness={"buffer": repr(buf), "encoding": enc})
    if not bad:
        rep.ob("K7-finder-returns-first-keypress-and-keeps-the-rest", kf.where(), kf.scope, "%d (buffer, encoding) cases" % n, True)
    counts["finder_cases"] = n
    # naming mode is passed through
    enc_box["enc"] = "utf8"
    r, left = run_finder(b"\x1b[Ax", "BYTES")
    rep.ob("K7-keynames-passed", kf.where(), kf.scope, "BYTES naming", r == ("ok", b"\x1b[A") and left == b"x",
           "with bytes naming the finder must return the raw bytes of the keypress; got %s, left %r" % (r, left))
    r, left = run_finder(b"\x1b[A", "CURSES")
    rep.ob("K7-keynames-passed", kf.where(), kf.scope, "CURSES naming", r == ("ok", "KEY_UP"), "with curses naming got %s" % (r,))
    # unget_bytes appends at the tail, one byte per element, in order
    ug = src.func("input", "Input.unget_bytes")
    inp = Obj("input", "Input")
    inp.fields["unprocessed_bytes"] = [b"x", b"y"]
    try:
        fold._inline(ug, [b"ab\xc3"], {}, self_obj=inp)
        got = inp.fields["unprocessed_bytes"]
    except FoldedRaise as e:
        got = "raises %s" % e.name
    except Unknown as e:
        raise AnalysisError("unget_bytes outside the evaluated subset: %s" % e)
    rep.ob("Q8-unget-appends-bytes-in-order", ug.where(), ug.scope, "buffer [x, y] + unget_bytes(b'ab\\xc3')",
           got == [b"x", b"y", b"a", b"b", b"\xc3"],
           "unget_bytes must append its bytes one by one, in order, AFTER what is already buffered; the buffer becomes %s" % (got,))
    fold.stubs.pop(("input", "getpreferredencoding"), None)


def rule_q6(src, rep, counts):
    """READ_SIZE must be at least MAX_KEYPRESS_SIZE (a keypress must fit into one read).  The paste loop itself - threshold test,
    refill while a key may be incomplete, keys appended in order, paste returned when the buffer is exhausted - is decided by the
    interpreted request histories (H1 / H6: bursts above and below every threshold, keys cut by the read boundary)."""
    from ..fold import new_interp
    fold = new_interp(src).folder
    read_size = fold.const("input", "READ_SIZE", int)
    maxk = fold.const("events", "MAX_KEYPRESS_SIZE", int)
    rep.ob("Q6-read-size-adequate", "curtsies/input.py:0", "input:<module>", "READ_SIZE=%d >= MAX_KEYPRESS_SIZE=%d" % (read_size, maxk),
           read_size >= maxk, "a keypress may need %d bytes, one read delivers at most %d" % (maxk, read_size))


def run_rules(src, rep):
    counts = {}
    rep.guard(rule_q1_q2, src, rep, counts)
    rep.guard(rule_q3, src, rep, counts)
    rep.guard(rule_q4, src, rep, counts)
    rep.guard(rule_q5, src, rep, counts)
    rep.guard(rule_q6, src, rep, counts)
    rep.guard(rule_q7, src, rep, counts)
    rep.guard(rule_q8, src, rep, counts)
    rep.guard(rule_k7, src, rep, counts)
    return counts


def check(src, rep):
    rep.explanation = EXPLANATION + EXPLANATION_SEM
    rep.not_decided = NOT_DECIDED
    rep.assumptions = ["list.sort is stable; select/os.read/os.write behave as documented",
                       "the scheduled queue is not modified between the sort and the pops of one request (documented in _send)"]
    counts = run_rules(src, rep)
    from . import c08sem
    sem = {}
    rep.guard(c08sem.run, src, rep, sem)
    counts.update(sem)
    rep.extracted["counts"] = counts
    rep.floor("interpreted request histories", counts.get("histories", 0), 20)
    rep.floor("queue mutation sites", counts.get("queue_mutation_sites", 0), 16)
    rep.floor("scheduled-queue pops", counts.get("scheduled_pops", 0), 2)
    rep.floor("wait call sites in _send", counts.get("wait_sites", 0), 1)
    rep.floor("buffer fill sites", counts.get("buffer_fill_sites", 0), 2)
    fx = Source(os.path.join(VERIF, "selftest", "fixtures", "c08"))
    frep = Report("C08", "fixture", fx.repo)
    fc = {}
    frep.guard(rule_q1_q2, fx, frep, fc)
    frep.guard(rule_q3, fx, frep, fc)
    fired = {o.rule for o in frep.obligations if not o.ok}
    for rule in ("Q1-queue-discipline", "Q1-queue-assignment", "Q2-popped-value-delivered", "Q3-order-safe-sort",
                 "Q3-pop-after-sort", "Q3-pop-only-when-due"):
        rep.fixture(rule, rule in fired)
