"""C10 - width and width_aware_slice measure and cut by terminal columns (bounded; DESIGN.md section 3, C10)."""
import itertools

import wcwidth as _wc

from ..fold import new_interp
from ..models import cells, runs_of
from ..objinterp import Obj
from ..report import AnalysisError
from .c14 import mk

EXPLANATION = (
    "BOUNDED catalogue under a stated assumption about character widths.  FmtStr.width, width_at_offset and width_aware_slice "
    "(and the module-level width_aware_slice, Chunk.width ... whatever they call) are abstractly interpreted, with the compiled "
    "width functions (cwcwidth.wcwidth / wcswidth) replaced by the pure-Python `wcwidth` package, for every text of up to 4 "
    "characters (thorough 5) over {a, b, a double-width character, a combining character} as one run and cut into two runs at "
    "every position, every offset n, and every column range 0 <= a <= b <= width+2.  The oracle is a column picture written "
    "from the statement, not a second implementation: every character is laid onto the columns it occupies (2, 1 or - combining - "
    "the columns of the character before it); f.width is the number of columns, width_at_offset(n) the number the first n "
    "characters occupy; the slice must have the width of the requested columns that exist, hold every character that lies wholly "
    "inside with its formatting, and a space with the character's formatting for a double-width character cut by either edge.  "
    "Two-run values are also arrived at through a history - an operand whose .s / len / width / terminal string were memoised, then + "
    "with a plain str on either side or with another looked-at value - because a value is a FmtStr however it was made."
)
NOT_DECIDED = ("the compiled extension's real width table (the stand-in agrees with it on the alphabet used); longer texts; where a "
               "combining character goes whose base character is cut by the edge (the statement does not say; not judged).")

A1, A2 = {"fg": 31}, {"bg": 44, "bold": True}
WIDE, COMB = "Ｅ", "́"

GROUPS = {
    "C1-width-is-number-of-columns": "f.width over the catalogue",
    "C2-width-at-offset": "f.width_at_offset(n) over the catalogue",
    "C3-slice-has-the-width-of-the-existing-columns": "width of f.width_aware_slice(a:b) over the catalogue",
    "C4-slice-holds-what-the-columns-hold": "characters and formatting of f.width_aware_slice(a:b) over the catalogue",
}


def picture(cl):
    """[(char, fmt, start column, end column)] - a combining character gets the (empty) position right after its base"""
    out, col = [], 0
    for ch, e in cl:
        w = _wc.wcwidth(ch)
        out.append((ch, e, col, col + w))
        col += w
    return out, col


def check(src, rep):
    from ..par import pmap
    rep.explanation = EXPLANATION
    rep.not_decided = NOT_DECIDED
    rep.assumptions = ["cwcwidth.wcwidth / wcswidth agree with the `wcwidth` package on the catalogue's alphabet (narrow ASCII, U+FF25 wide, U+0301 combining)"]
    rep.trusted_base = ["CPython ast", "sa/consteval.py", "sa/absint.py", "sa/objinterp.py", "the wcwidth package"]
    it = new_interp(src, check_views=True)
    f = src.func("formatstring", "FmtStr.width_aware_slice")
    maxlen = 5 if rep.tier == "thorough" else 4
    jobs = []
    for n in range(0, maxlen + 1):
        for tup in itertools.product("ab" + WIDE + COMB, repeat=n):
            text = "".join(tup)
            if text.startswith(COMB) or (n > 3 and tup.count("b") > 1):
                continue            # a combining character needs a base; thin the plain-ASCII variety
            for cut in range(0, len(text) + 1):
                if cut and cut < len(text) and text[cut] == COMB:
                    continue        # a run does not start with a combining character
                runs = [(text[:cut], A1), (text[cut:], A2)] if 0 < cut < len(text) else [(text, A1)] if cut == 0 else None
                if runs is None:
                    continue
                jobs.append((text, runs, "built from its runs"))
                if text and (len(text) <= 3 or rep.tier == "thorough"):
                    jobs.append((text, runs, "cut with [] out of a longer value that had been measured"))
                if len(runs) == 2 and (len(text) <= 3 or rep.tier == "thorough"):
                    # the same characters, arrived at through a history: an operand whose views were memoised, then +
                    jobs.append((text, [runs[0], (runs[1][0], {})], "a looked-at value + a plain str"))
                    jobs.append((text, [(runs[0][0], {}), runs[1]], "a plain str + a looked-at value"))
                    jobs.append((text, runs, "a looked-at value + a looked-at value"))

    def one(job):
        text, runs, build = job
        cl = cells(runs)
        pic, W = picture(cl)
        if build == "built from its runs":
            v = mk(it, *runs)
        else:
            from .c06 import _look
            if build == "cut with [] out of a longer value that had been measured":
                ext = [list(r) for r in runs]
                ext[0][0] = "z" + WIDE + ext[0][0]
                ext[-1][0] = ext[-1][0] + "zz"
                longer = _look(it, mk(it, *[tuple(r) for r in ext]))
                r0 = it.callm(longer, "__getitem__", slice(2, 2 + len(text)))
            elif build == "a looked-at value + a plain str":
                r0 = it.callm(_look(it, mk(it, runs[0])), "__add__", runs[1][0])
            elif build == "a plain str + a looked-at value":
                r0 = it.callm(_look(it, mk(it, runs[1])), "__radd__", runs[0][0])
            else:
                r0 = it.callm(_look(it, mk(it, runs[0])), "__add__", _look(it, mk(it, runs[1])))
            if r0[0] != "ok" or not isinstance(r0[1], Obj):
                return ("error", "building %r by + is outside the evaluated subset: %s" % (text, r0,), "")
            v = r0[1]
            if cells(runs_of(v)) != cl:
                return None        # concatenation itself is C06's business
        desc = "%r as %d run(s)%s" % (text, len(runs), "" if build == "built from its runs" else " (%s)" % build)
        try:
            w = ("ok", it.folder.obj_attr(v, "width"))
        except Exception as e:
            if getattr(e, "name", None) is None:
                return ("error", "width of %s outside the evaluated subset: %s" % (desc, e), "")
            w = ("raise", e.name)
        if w != ("ok", W):
            return ("C1-width-is-number-of-columns", desc, "%s.width gives %s, it occupies %d column(s)" % (desc, w, W))
        for n in range(0, len(text) + 1):
            r = it.callm(v, "width_at_offset", n)
            if r[0] == "opaque":
                return ("error", "width_at_offset outside the evaluated subset: %s" % r[1], "")
            want = sum(_wc.wcwidth(c) for c in text[:n])
            if r != ("ok", want):
                return ("C2-width-at-offset", desc, "%s.width_at_offset(%d) gives %s, the first %d character(s) occupy %d column(s)" % (desc, n, r, n, want))
        for a in range(0, W + 3):
            for b in range(a, W + 3):
                r = it.callm(v, "width_aware_slice", slice(a, b))
                if r[0] == "opaque":
                    return ("error", "width_aware_slice outside the evaluated subset: %s" % r[1], "")
                call = "%s.width_aware_slice(slice(%d, %d))" % (desc, a, b)
                if r[0] != "ok" or not (isinstance(r[1], Obj) and r[1].cls == "FmtStr"):
                    return ("C4-slice-holds-what-the-columns-hold", call, "gives %s" % (r,))
                got = cells(runs_of(r[1]))
                want_w = min(b, W) - min(a, W)
                got_w = sum(_wc.wcwidth(c) for c, _ in got)
                # expected characters; None marks a don't-care position (a combining character whose base is cut)
                want, base_state = [], None
                for ch, e, s0, e0 in pic:
                    if e0 > s0:
                        inside = max(0, min(e0, b) - max(s0, a))      # how many of its columns are requested
                        if inside == e0 - s0:
                            want.append((ch, e))
                            base_state = "in"
                        elif inside > 0:
                            want.extend([(" ", e)] * inside)
                            base_state = "cut"
                        else:
                            base_state = "out"
                    else:
                        if base_state == "in":
                            want.append((ch, e))
                        elif base_state == "cut":
                            want.append(None)
                ok = True
                gi = 0
                for wv in want:
                    if wv is None:
                        if gi < len(got) and got[gi][0] == COMB:
                            gi += 1
                        continue
                    if gi >= len(got) or got[gi] != wv:
                        ok = False
                        break
                    gi += 1
                if ok and gi != len(got):
                    ok = False
                if not ok:
                    return ("C4-slice-holds-what-the-columns-hold", call, "gives %s; columns %d..%d hold %s"
                            % ([(c, dict(e)) for c, e in got], a, b - 1, [(x[0], dict(x[1])) if x else "?" for x in want]))
                try:
                    own_w = it.folder.obj_attr(r[1], "width")
                except Exception as e:
                    own_w = "raises %s" % getattr(e, "name", e)
                if got_w == want_w and own_w != want_w and got:
                    return ("C3-slice-has-the-width-of-the-existing-columns", call, "the slice holds %d column(s) of characters but its own .width says %s" % (got_w, own_w))
                if got_w != want_w:
                    return ("C3-slice-has-the-width-of-the-existing-columns", call, "the slice is %d column(s) wide, %d of the requested columns exist" % (got_w, want_w))
        return None
    results = pmap(one, jobs, min_chunk=16)
    bad = {}
    for job, res in zip(jobs, results):
        rep.case(True)
        if res is None:
            continue
        if res[0] == "error":
            rep.errors.append(res[1])
            break
        bad.setdefault(res[0], []).append(res[1:])
    for rule, group in GROUPS.items():
        items = bad.get(rule, [])
        if items:
            items.sort(key=lambda x: len(x[0]))
            rep.ob(rule, f.where(), "formatstring:FmtStr", group, False, "%s: %s (%d values of the catalogue fail this rule)" % (items[0][0], items[0][1], len(items)),
                   witness={"call": items[0][0], "failing": len(items)})
        else:
            rep.ob(rule, f.where(), "formatstring:FmtStr", group, True)
    rep.extracted["counts"] = {"values": len(jobs)}
    rep.floor("values", len(jobs), 300)
