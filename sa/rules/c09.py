"""C09 - splice replaces exactly the requested range and nothing else (bounded; DESIGN.md section 3, C09)."""
from ..fold import new_interp
from ..models import cells, runs_of, view_problem
from ..objinterp import Obj
from ..report import AnalysisError
from .c06 import _look
from .c14 import mk

EXPLANATION = (
    "BOUNDED, small-scope exhaustive.  FmtStr.splice and FmtStr.append (and divides, Chunk, fmtstr ... whatever they call) are "
    "abstractly interpreted for every value f of a pool of run layouts (no runs, an empty run, one to three runs with empty runs "
    "in leading, middle and trailing position, up to 5 characters), every new value (empty str, plain str, one-run, two-run and "
    "empty FmtStr) and every 0 <= start <= end <= len(f)+2 as well as end omitted, and compared with list splicing of the "
    "per-character (character, formatting) cells: cells(f)[:start] + cells(new) + cells(f)[end:] - Python's list slicing is the "
    "oracle, nothing is re-implemented.  Characters of a plain str are unformatted; append(x) is splice at the end; f itself reads "
    "the same before and after; the result's own .s, len(), str() (what a terminal shows, through the reference SGR machine) and full "
    "slice agree with its runs (a pre-seeded length shows here); every call also with receiver and new value looked at beforehand "
    "(.s, len, width, terminal string memoised); new values include plain strs made of control, zero-width and escape characters."
)
NOT_DECIDED = "values longer than the pool's; start > end and negative positions (outside the statement's quantifier)."

A1, A2, A3 = {"fg": 31}, {"bg": 44, "bold": True}, {"underline": True}
A4 = {"fg": 32}
POOL = [
    ("no runs", []),
    ("one empty run", [("", {})]),
    ("'ab' red", [("ab", A1)]),
    ("'ab' red + 'c' on blue bold", [("ab", A1), ("c", A2)]),
    ("'' + 'abc' red (empty leading run)", [("", {}), ("abc", A1)]),
    ("'a' red + '' + 'bc' on blue bold (empty middle run)", [("a", A1), ("", A3), ("bc", A2)]),
    ("'ab' red + 'cd' underlined + '' (empty trailing run)", [("ab", A1), ("cd", A3), ("", {})]),
    ("'a' + 'b' + 'c' three runs", [("a", A1), ("b", A2), ("c", A3)]),
    ("'e' + combining acute red + 'xy' on blue bold", [("e\u0301", A1), ("xy", A2)]),
    # many runs: neighbours that carry the same attribute names with different values, an empty formatted run among them
    ("'abcdefghij' in nine runs alternating red / green", [("a", A1), ("b", A4), ("", A3), ("c", A1), ("de", A4), ("f", A1), ("g", A4),
                                                          ("h", A1), ("ij", A4)]),
]
def _piece(k):
    def build(it):
        parent = _look(it, mk(it, ("ab\n", A1), ("cd\r\nef", A2)))
        r = it.callm(parent, "splitlines", True)
        if r[0] != "ok" or not isinstance(r[1], list) or len(r[1]) <= k:
            raise AnalysisError("splitlines(True) of the parent value gives %s" % (r,))
        return r[1][k]
    return build


# receivers arrived at through a history: (label, builder, number of characters)
DERIVED = [
    ("line 0 of ('ab\\n' red + 'cd\\r\\nef' on blue bold, looked at).splitlines(True)", _piece(0), 3),
    ("line 1 of ('ab\\n' red + 'cd\\r\\nef' on blue bold, looked at).splitlines(True)", _piece(1), 4),
]

NEW = [("''", ""), ("'xy'", "xy"), ("'X' bold on blue", [("X", A2)]), ("'x' red + 'Y' underlined", [("x", A1), ("Y", A3)]),
       ("an empty FmtStr", [("", {})]), ("a FmtStr without runs", []),
       # plain strs that are not ordinary text: they are still unformatted characters, inserted as they are
       ("a newline and a tab", "\n\t"), ("a lone combining acute", "\u0301"), ("'k' ESC 'OP' (an escape that is not ESC [)", "k\x1bOP"),
       ("'a' CSI '31mb' (8-bit CSI)", "a\x9b31mb")]

GROUPS = {
    "P1-splice-is-list-splice-of-the-cells": "splice(new, start, end) over the scope",
    "P2-insertion-when-end-is-omitted": "splice(new, start) over the scope",
    "P3-append-is-splice-at-the-end": "append(x) over the scope",
    "P4-receiver-unchanged": "the receiver before and after every call of the scope",
}


def check(src, rep):
    from ..par import pmap
    rep.explanation = EXPLANATION
    rep.not_decided = NOT_DECIDED
    rep.assumptions = ["CPython's list slicing / concatenation is the reference"]
    rep.trusted_base = ["CPython ast", "sa/consteval.py", "sa/absint.py", "sa/objinterp.py"]
    it = new_interp(src)
    f = src.func("formatstring", "FmtStr.splice")
    if rep.tier == "thorough" and len(POOL) < 12:
        for i in range(0, 6):
            for j in range(i, 6):
                POOL.append(("'abcde' cut at %d and %d" % (i, j), [("abcde"[:i], A1), ("abcde"[i:j], A2), ("abcde"[j:], A3)]))
    jobs = []
    for pi, (_, runs) in enumerate(POOL + [(d[0], d) for d in DERIVED]):
        n = sum(len(t) for t, _ in runs) if isinstance(runs, list) else runs[2]
        for ni in range(len(NEW)):
            for star in ("", "*"):       # *: receiver and new value have been looked at (views memoised) before the call
                for start in range(0, n + 3):
                    jobs.append(("insert" + star, pi, ni, start, None))
                    for end in range(start, n + 3):
                        jobs.append(("splice" + star, pi, ni, start, end))
                jobs.append(("append" + star, pi, ni, None, None))
            if isinstance(runs, list) and len(runs) >= 2 and ni in (1, 2):
                # @: another splice was made on the same receiver just before
                for start in range(0, n + 1):
                    jobs.append(("insert@", pi, ni, start, None))
                    jobs.append(("splice@", pi, ni, start, min(n, start + 1)))
                jobs.append(("append@", pi, ni, None, None))

    def one(job):
        kind, pi, ni, start, end = job
        looked = kind.endswith("*")
        earlier = kind.endswith("@")
        kind = kind.rstrip("*@")
        label, runs = (POOL + [(d[0], d) for d in DERIVED])[pi]
        nlabel, new = NEW[ni]
        try:
            if isinstance(runs, list):
                v = mk(it, *runs)
            else:
                v = runs[1](it)
                runs = runs_of(v)
            if earlier:
                n_ = sum(len(t) for t, _ in runs)
                it.callm(v, "splice", "Q", max(0, n_ - 1))
                it.callm(v, "splice", "Q", n_, n_)
                label += ", after two other splices near the end of the same receiver"
            nv = new if isinstance(new, str) else mk(it, *new)
            if looked:
                _look(it, v)
                label += ", looked at before"
                if not isinstance(new, str):
                    _look(it, nv)
            cl = cells(runs)
            ncl = [(ch, ()) for ch in new] if isinstance(new, str) else cells(new)
            before = (cells(runs_of(v)), it.callm(v, "__str__"))
            if kind == "append":
                r = it.callm(v, "append", nv)
                want = cl + ncl
                desc = "(%s).append(%s)" % (label, nlabel)
                rule = "P3-append-is-splice-at-the-end"
            elif kind == "insert":
                r = it.callm(v, "splice", nv, start)
                want = cl[:start] + ncl + cl[start:]
                desc = "(%s).splice(%s, %d)" % (label, nlabel, start)
                rule = "P2-insertion-when-end-is-omitted"
            else:
                r = it.callm(v, "splice", nv, start, end)
                want = cl[:start] + ncl + cl[end:]
                desc = "(%s).splice(%s, %d, %d)" % (label, nlabel, start, end)
                rule = "P1-splice-is-list-splice-of-the-cells"
            if r[0] == "opaque":
                return ("error", "%s outside the evaluated subset: %s" % (desc, r[1]), "")
            after = (cells(runs_of(v)), it.callm(v, "__str__"))
        except AnalysisError as e:
            return ("error", "%s: %s" % (job, e), "")
        if after != before:
            return ("P4-receiver-unchanged", desc, "the receiver read %s before the call and reads %s after it" % (before, after))
        if r[0] != "ok" or not (isinstance(r[1], Obj) and r[1].cls == "FmtStr"):
            return (rule, desc, "gives %s; expected the characters %r" % (r, "".join(c for c, _ in want)))
        got = cells(runs_of(r[1]))
        wt = "".join(c for c, _ in want)
        if got == want:
            try:
                why = view_problem(it, r[1])
                full = it.callm(r[1], "__getitem__", slice(None, None))
                if not isinstance(new, str):
                    nwhy = cells(runs_of(nv)) != ncl and "the new value holds %s afterwards" % (runs_of(nv),) or view_problem(it, nv)
                else:
                    nwhy = None
                rwhy = view_problem(it, v)
            except AnalysisError as e:
                return ("error", "views of %s outside the evaluated subset: %s" % (desc, e), "")
            if why is not None:
                return (rule, desc, "the result's runs are right (%r) but it disagrees with itself: %s" % (wt, why))
            if full[0] != "ok" or cells(runs_of(full[1])) != want:
                return (rule, desc, "the result's runs are right (%r) but result[:] gives %s" % (wt, full,))
            if rwhy is not None:
                return ("P4-receiver-unchanged", desc, "after the call the receiver disagrees with itself: %s" % rwhy)
            if nwhy:
                return ("P4-receiver-unchanged", desc, "after the call the new value is not what it was: %s" % nwhy)
        if got != want:
            gt, wt = "".join(c for c, _ in got), "".join(c for c, _ in want)
            if gt != wt:
                return (rule, desc, "gives the text %r, expected %r" % (gt, wt))
            return (rule, desc, "text %r is right, the formatting is %s, expected %s" % (gt, [e for _, e in got], [e for _, e in want]))
        return None
    results = pmap(one, jobs, min_chunk=64)
    bad = {}
    for job, res in zip(jobs, results):
        rep.case(True)
        if res is None:
            continue
        if res[0] == "error":
            rep.errors.append(res[1])
            break
        bad.setdefault(res[0], []).append(res[1:])
    for rule, group in GROUPS.items():
        items = bad.get(rule, [])
        if items:
            items.sort(key=lambda x: len(x[0]))
            rep.ob(rule, f.where(), f.scope, group, False, "%s: %s (%d of the scope's cases fail this rule)" % (items[0][0], items[0][1], len(items)),
                   witness={"call": items[0][0], "failing": len(items)})
        else:
            rep.ob(rule, f.where(), f.scope, group, True)
    rep.extracted["counts"] = {"cases": len(jobs), "pool": len(POOL), "new_values": len(NEW)}
    rep.floor("cases", len(jobs), 1000)
