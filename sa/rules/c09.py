"""C09 - splice replaces exactly the requested range and nothing else (bounded; DESIGN.md section 3, C09)."""
from ..fold import new_interp
from ..models import cells, runs_of
from ..objinterp import Obj
from ..report import AnalysisError
from .c14 import mk

EXPLANATION = (
    "BOUNDED, small-scope exhaustive.  FmtStr.splice and FmtStr.append (and divides, Chunk, fmtstr ... whatever they call) are "
    "abstractly interpreted for every value f of a pool of run layouts (no runs, an empty run, one to three runs with empty runs "
    "in leading, middle and trailing position, up to 5 characters), every new value (empty str, plain str, one-run, two-run and "
    "empty FmtStr) and every 0 <= start <= end <= len(f)+2 as well as end omitted, and compared with list splicing of the "
    "per-character (character, formatting) cells: cells(f)[:start] + cells(new) + cells(f)[end:] - Python's list slicing is the "
    "oracle, nothing is re-implemented.  Characters of a plain str are unformatted; append(x) is splice at the end; f itself reads "
    "the same before and after; the result's own .s, len() and full slice agree with its runs (a pre-seeded length shows here)."
)
NOT_DECIDED = "values longer than the pool's; start > end and negative positions (outside the statement's quantifier)."

A1, A2, A3 = {"fg": 31}, {"bg": 44, "bold": True}, {"underline": True}
POOL = [
    ("no runs", []),
    ("one empty run", [("", {})]),
    ("'ab' red", [("ab", A1)]),
    ("'ab' red + 'c' on blue bold", [("ab", A1), ("c", A2)]),
    ("'' + 'abc' red (empty leading run)", [("", {}), ("abc", A1)]),
    ("'a' red + '' + 'bc' on blue bold (empty middle run)", [("a", A1), ("", A3), ("bc", A2)]),
    ("'ab' red + 'cd' underlined + '' (empty trailing run)", [("ab", A1), ("cd", A3), ("", {})]),
    ("'a' + 'b' + 'c' three runs", [("a", A1), ("b", A2), ("c", A3)]),
]
NEW = [("''", ""), ("'xy'", "xy"), ("'X' bold on blue", [("X", A2)]), ("'x' red + 'Y' underlined", [("x", A1), ("Y", A3)]),
       ("an empty FmtStr", [("", {})]), ("a FmtStr without runs", [])]

GROUPS = {
    "P1-splice-is-list-splice-of-the-cells": "splice(new, start, end) over the scope",
    "P2-insertion-when-end-is-omitted": "splice(new, start) over the scope",
    "P3-append-is-splice-at-the-end": "append(x) over the scope",
    "P4-receiver-unchanged": "the receiver before and after every call of the scope",
}


def check(src, rep):
    from ..par import pmap
    rep.explanation = EXPLANATION
    rep.not_decided = NOT_DECIDED
    rep.assumptions = ["CPython's list slicing / concatenation is the reference"]
    rep.trusted_base = ["CPython ast", "sa/consteval.py", "sa/absint.py", "sa/objinterp.py"]
    it = new_interp(src)
    f = src.func("formatstring", "FmtStr.splice")
    jobs = []
    for pi, (_, runs) in enumerate(POOL):
        n = sum(len(t) for t, _ in runs)
        for ni in range(len(NEW)):
            for start in range(0, n + 3):
                jobs.append(("insert", pi, ni, start, None))
                for end in range(start, n + 3):
                    jobs.append(("splice", pi, ni, start, end))
            jobs.append(("append", pi, ni, None, None))

    def one(job):
        kind, pi, ni, start, end = job
        label, runs = POOL[pi]
        nlabel, new = NEW[ni]
        try:
            v = mk(it, *runs)
            nv = new if isinstance(new, str) else mk(it, *new)
            cl = cells(runs)
            ncl = [(ch, ()) for ch in new] if isinstance(new, str) else cells(new)
            before = (cells(runs_of(v)), it.callm(v, "__str__"))
            if kind == "append":
                r = it.callm(v, "append", nv)
                want = cl + ncl
                desc = "(%s).append(%s)" % (label, nlabel)
                rule = "P3-append-is-splice-at-the-end"
            elif kind == "insert":
                r = it.callm(v, "splice", nv, start)
                want = cl[:start] + ncl + cl[start:]
                desc = "(%s).splice(%s, %d)" % (label, nlabel, start)
                rule = "P2-insertion-when-end-is-omitted"
            else:
                r = it.callm(v, "splice", nv, start, end)
                want = cl[:start] + ncl + cl[end:]
                desc = "(%s).splice(%s, %d, %d)" % (label, nlabel, start, end)
                rule = "P1-splice-is-list-splice-of-the-cells"
            if r[0] == "opaque":
                return ("error", "%s outside the evaluated subset: %s" % (desc, r[1]), "")
            after = (cells(runs_of(v)), it.callm(v, "__str__"))
        except AnalysisError as e:
            return ("error", "%s: %s" % (job, e), "")
        if after != before:
            return ("P4-receiver-unchanged", desc, "the receiver read %s before the call and reads %s after it" % (before, after))
        if r[0] != "ok" or not (isinstance(r[1], Obj) and r[1].cls == "FmtStr"):
            return (rule, desc, "gives %s; expected the characters %r" % (r, "".join(c for c, _ in want)))
        got = cells(runs_of(r[1]))
        try:
            views = (it.folder.obj_attr(r[1], "s"), it.callm(r[1], "__len__"), it.callm(r[1], "__getitem__", slice(None, None)))
        except Exception as e:
            if getattr(e, "name", None) is None:
                return ("error", "views of %s outside the evaluated subset: %s" % (desc, e), "")
            views = ("raises %s" % e.name, None, None)
        wt = "".join(c for c, _ in want)
        if got == want and (views[0] != wt or views[1] != ("ok", len(wt)) or views[2][0] != "ok" or cells(runs_of(views[2][1])) != want):
            return (rule, desc, "the result's runs are right (%r) but its own views are not: .s = %r, len() = %s, result[:] = %s"
                    % (wt, views[0], views[1], "".join(c for c, _ in cells(runs_of(views[2][1]))) if views[2] and views[2][0] == "ok" else views[2]))
        if got != want:
            gt, wt = "".join(c for c, _ in got), "".join(c for c, _ in want)
            if gt != wt:
                return (rule, desc, "gives the text %r, expected %r" % (gt, wt))
            return (rule, desc, "text %r is right, the formatting is %s, expected %s" % (gt, [e for _, e in got], [e for _, e in want]))
        return None
    results = pmap(one, jobs, min_chunk=64)
    bad = {}
    for job, res in zip(jobs, results):
        rep.case(True)
        if res is None:
            continue
        if res[0] == "error":
            rep.errors.append(res[1])
            break
        bad.setdefault(res[0], []).append(res[1:])
    for rule, group in GROUPS.items():
        items = bad.get(rule, [])
        if items:
            items.sort(key=lambda x: len(x[0]))
            rep.ob(rule, f.where(), f.scope, group, False, "%s: %s (%d of the scope's cases fail this rule)" % (items[0][0], items[0][1], len(items)),
                   witness={"call": items[0][0], "failing": len(items)})
        else:
            rep.ob(rule, f.where(), f.scope, group, True)
    rep.extracted["counts"] = {"cases": len(jobs), "pool": len(POOL), "new_values": len(NEW)}
    rep.floor("cases", len(jobs), 1000)
