"""C13 - FmtStr values are immutable and their memoised views never go stale.

Whole-package effect analysis (DESIGN.md section 3, C13: rules I1..I10).
"""
import ast
import os

from ..cfg import single_defs
from ..report import AnalysisError, Report, VERIF
from ..srcmodel import Source, is_self_attr, unparse

EXPLANATION_SEM = (
    "  Interpreted part (sa/rules/c13sem.py, a bounded catalogue on top of the every-writer rules): straight-line programs over a "
    "pool of four FmtStr values (two runs, plain, wide character on a background, three runs with an empty one and a newline) "
    "built from 28 operations of the public set (+ with FmtStr / str / wide text, *, slicing, splice at the front / inside / "
    "deleting, append, join, split, splitlines, ljust, rjust, copy_with_new_atts, new_with_atts_removed, copy_with_new_str, "
    "width_aware_slice, width_aware_splitlines, a delegated str method, fmtstr() re-wrapping, ==, hash): every operation on every "
    "pool value, every ordered pair of operations with the second applied to the first one's result (a third in thorough), with "
    "and without observing everything first.  V1 after every step every value that existed before reads the same (str, len, s, "
    "width, repr, per-character formatting) as when first observed; V2 at the end the memoised views of every value equal those "
    "of a freshly built equal value; V3 item assignment and every dict mutator (inherited ones included) on a run's attributes "
    "raise and change nothing."
)

EXPLANATION = (
    "Effect analysis over every function of the package.  Tracked state: FmtStr.{chunks,_unicode,_len,_s,_width}, "
    "Chunk.{_s,_atts} and the payload of FrozenAttributes.  I1: every attribute store / augmented store / delete / "
    "setattr of a tracked name is in the owning class's __init__ or is the memo slot written by its own accessor "
    "(bijection _unicode<->__str__, _len<->__len__, _s<->s, _width<->width).  I2: no in-place list mutation (append, "
    "extend, insert, pop, remove, sort, reverse, clear, subscript store/delete, +=, *=) on `<expr>.chunks` or on any "
    "local that may alias one (flow-insensitive may-alias, one level of inter-procedural parameter passing); "
    "FmtStr.__init__ copies its components.  I3: each memo accessor returns the slot when set, otherwise stores the "
    "complete value exactly once, computed from self.chunks only, and returns straight after the store (no partial "
    "cache on an exception path).  I4: cached properties read only immutable fields.  I5: FrozenAttributes overrides "
    "every dict mutator with an unconditional raise; extend/remove build new objects.  I6: FmtStr.__setitem__ raises "
    "unconditionally, no in-place operators.  I7: no dict mutator is applied to .atts/._atts or an alias of it."
)
NOT_DECIDED = ("nothing of the statement is left to run-time values; the residual trust is in Python semantics "
               "(*args builds a fresh tuple, list() copies, **d copies) and in the value computed by each accessor being the "
               "right one (C06/C10 territory).")

FMTSTR_FIELDS = {"chunks", "_unicode", "_len", "_s", "_width"}
CHUNK_FIELDS = {"_s", "_atts"}
TRACKED = FMTSTR_FIELDS | CHUNK_FIELDS
MEMO = {"_unicode": "__str__", "_len": "__len__", "_s": "s", "_width": "width"}
IMMUTABLE = {"FmtStr": {"chunks"}, "Chunk": {"_s", "_atts", "s", "atts"}}
BASE_FIELDS = {"FmtStr": FMTSTR_FIELDS, "Chunk": CHUNK_FIELDS}


def memo_table(src, fmt_mod):
    """[(class, slot, accessor)]: the four FmtStr memo slots, plus every other tracked name a class uses as a memo slot:
    `self.X = None` in its __init__ and stores to self.X in exactly one other method of the class.  A discovered slot is
    accepted by I1 and is then held to the same I3 discipline as the built-in ones."""
    table = [("FmtStr", slot, acc) for slot, acc in sorted(MEMO.items())]
    for cname in ("FmtStr", "Chunk"):
        try:
            methods = src.methods(fmt_mod, cname)
        except Exception:
            continue
        init = methods.get("__init__")
        if init is None:
            continue
        for slot in sorted(TRACKED - BASE_FIELDS[cname]):
            inits = [n for n in init.own_nodes() if isinstance(n, (ast.Assign, ast.AnnAssign)) and
                     any(is_self_attr(t, slot) for t in _store_targets(n))]
            if not (len(inits) == 1 and isinstance(inits[0].value, ast.Constant) and inits[0].value.value is None):
                continue
            writers = sorted(name for name, f in methods.items() if name != "__init__" and any(
                is_self_attr(a, slot) and isinstance(a.ctx, (ast.Store, ast.Del))
                for n in f.own_nodes() for t in _store_targets(n) for a in ast.walk(t)))
            if len(writers) == 1:
                table.append((cname, slot, writers[0]))
    return table


LIST_MUT = {"append", "extend", "insert", "pop", "remove", "sort", "reverse", "clear", "__setitem__", "__delitem__",
            "__iadd__", "__imul__"}
DICT_MUT = {"__setitem__", "__delitem__", "update", "pop", "popitem", "clear", "setdefault", "__ior__"}
FRESH_CALLS = {"list", "sorted", "tuple", "dict", "set", "reversed", "FrozenAttributes"}


def _store_targets(n):
    if isinstance(n, ast.Assign):
        return n.targets
    if isinstance(n, (ast.AugAssign, ast.AnnAssign)):
        return [n.target] if not (isinstance(n, ast.AnnAssign) and n.value is None) else []
    if isinstance(n, ast.Delete):
        return n.targets
    if isinstance(n, (ast.For, ast.AsyncFor)):
        return [n.target]
    if isinstance(n, (ast.With, ast.AsyncWith)):
        return [i.optional_vars for i in n.items if i.optional_vars is not None]
    if isinstance(n, ast.NamedExpr):
        return [n.target]
    return []


def owner_class_name(f):
    return f.cls.name if f.cls is not None else ""


def _cache_carried_to_same_runs(f, node, a):
    """Accepted idiom:  X = FmtStr(*Y.chunks) ... X._slot = Y._slot  (same slot, same Y, X bound once): the new value
    has exactly Y's runs, so Y's memoised view is also X's."""
    if a.attr not in MEMO or not isinstance(a.value, ast.Name) or not isinstance(node, ast.Assign):
        return False
    defs = single_defs(f.node)
    x = a.value.id
    ctor = defs.get(x)
    if not (isinstance(ctor, ast.Call) and unparse(ctor.func) in ("FmtStr", "type(self)", "self.__class__") and
            len(ctor.args) == 1 and isinstance(ctor.args[0], ast.Starred) and not ctor.keywords):
        return False
    src_list = ctor.args[0].value
    if not (isinstance(src_list, ast.Attribute) and src_list.attr == "chunks"):
        return False
    y = unparse(src_list.value)
    # value side: plain `Y._slot` for a plain target, or element-wise for tuple assignment
    if len(node.targets) != 1:
        return False
    t = node.targets[0]
    if isinstance(t, ast.Attribute):
        return unparse(node.value) == "%s.%s" % (y, a.attr)
    if isinstance(t, (ast.Tuple, ast.List)) and isinstance(node.value, (ast.Tuple, ast.List)) and len(t.elts) == len(node.value.elts):
        for te, ve in zip(t.elts, node.value.elts):
            if te is a:
                return unparse(ve) == "%s.%s" % (y, a.attr)
    return False


# ---------------------------------------------------------------------------- I1
def rule_i1(src, rep, fmt_mod, counts):
    n = 0
    table = memo_table(src, fmt_mod)
    memo_acc = {(c, slot): acc for c, slot, acc in table}
    for f in src.all_funcs():
        cname = owner_class_name(f)
        direct_method = f.cls is not None and f.outer is None
        for node in f.own_nodes():
            for t in _store_targets(node):
                for a in ast.walk(t):
                    if isinstance(a, ast.Attribute) and isinstance(a.ctx, (ast.Store, ast.Del)) and a.attr in TRACKED:
                        n += 1
                        recv_self = isinstance(a.value, ast.Name) and a.value.id == "self" and direct_method
                        in_init = f.name == "__init__" and recv_self and cname in BASE_FIELDS and (
                            a.attr in BASE_FIELDS[cname] or (cname, a.attr) in memo_acc)
                        is_memo = recv_self and memo_acc.get((cname, a.attr)) == f.name and \
                            not isinstance(node, ast.Delete) and f.module.name == fmt_mod
                        foreign_class = recv_self and cname not in ("FmtStr", "Chunk") and f.module.name != fmt_mod
                        ok = in_init or is_memo or foreign_class or _cache_carried_to_same_runs(f, node, a)
                        rep.ob("I1-field-store", f.where(node), f.scope, unparse(node).split("\n")[0], ok,
                               "store to tracked field .%s outside %s: a value that already exists (or its memoised "
                               "view) is changed after construction" %
                               (a.attr, "FmtStr/Chunk.__init__" + (" and the memo accessor %s" % MEMO[a.attr] if a.attr in MEMO else "")))
            if isinstance(node, ast.Call) and isinstance(node.func, ast.Name) and node.func.id in ("setattr", "delattr") \
                    and len(node.args) >= 2:
                nm = node.args[1]
                tracked = not isinstance(nm, ast.Constant) or nm.value in TRACKED
                if f.module.name == fmt_mod or (isinstance(nm, ast.Constant) and nm.value in TRACKED):
                    n += 1
                    rep.ob("I1-field-store", f.where(node), f.scope, unparse(node), not tracked,
                           "setattr/delattr may write a tracked FmtStr/Chunk field outside __init__")
            if isinstance(node, ast.Attribute) and node.attr == "__dict__" and f.module.name == fmt_mod:
                n += 1
                rep.ob("I1-field-store", f.where(node), f.scope, unparse(node), False,
                       "__dict__ access in formatstring.py bypasses the field discipline")
    counts["tracked_field_stores"] = n


# ---------------------------------------------------------------------------- I2 / I7 alias analysis
def _fresh(e):
    """Expression certainly evaluates to a new container."""
    if isinstance(e, (ast.List, ast.ListComp, ast.Dict, ast.DictComp, ast.Set, ast.SetComp, ast.Tuple, ast.GeneratorExp,
                      ast.Constant, ast.JoinedStr)):
        return True
    if isinstance(e, ast.BinOp) and isinstance(e.op, (ast.Add, ast.Mult)):
        return True
    if isinstance(e, ast.Subscript) and isinstance(e.slice, ast.Slice):
        return True
    if isinstance(e, ast.Call) and isinstance(e.func, ast.Name) and e.func.id in FRESH_CALLS:
        return True
    return False


def _shared_expr(e, base_attrs, alias):
    if isinstance(e, ast.Attribute) and e.attr in base_attrs:
        return True
    if isinstance(e, ast.Name) and e.id in alias:
        return True
    if isinstance(e, ast.IfExp):
        return _shared_expr(e.body, base_attrs, alias) or _shared_expr(e.orelse, base_attrs, alias)
    if isinstance(e, ast.BoolOp):
        return any(_shared_expr(v, base_attrs, alias) for v in e.values)
    if isinstance(e, ast.NamedExpr):
        return _shared_expr(e.value, base_attrs, alias)
    if isinstance(e, ast.Call) and isinstance(e.func, ast.Name) and e.func.id == "cast" and len(e.args) == 2:
        return _shared_expr(e.args[1], base_attrs, alias)
    return False


def aliases_in(f, base_attrs, seed=()):
    alias = set(seed)
    changed = True
    nodes = f.own_nodes()
    while changed:
        changed = False
        for n in nodes:
            pairs = []
            if isinstance(n, ast.Assign):
                for t in n.targets:
                    pairs.append((t, n.value))
            elif isinstance(n, ast.AnnAssign) and n.value is not None:
                pairs.append((n.target, n.value))
            elif isinstance(n, ast.NamedExpr):
                pairs.append((n.target, n.value))
            for t, v in pairs:
                if isinstance(t, ast.Name) and _shared_expr(v, base_attrs, alias) and t.id not in alias:
                    alias.add(t.id)
                    changed = True
                if isinstance(t, (ast.Tuple, ast.List)) and isinstance(v, (ast.Tuple, ast.List)) and len(t.elts) == len(v.elts):
                    for a, b in zip(t.elts, v.elts):
                        if isinstance(a, ast.Name) and _shared_expr(b, base_attrs, alias) and a.id not in alias:
                            alias.add(a.id)
                            changed = True
    return alias


def mutations_of_shared(f, base_attrs, alias, mut_methods):
    """Yield (node, description) for every in-place mutation of a shared container in f."""
    for n in f.own_nodes():
        if isinstance(n, ast.Call) and isinstance(n.func, ast.Attribute) and n.func.attr in mut_methods and \
                _shared_expr(n.func.value, base_attrs, alias):
            yield n, "%s() mutates it in place" % unparse(n.func)
        if isinstance(n, ast.AugAssign) and _shared_expr(n.target, base_attrs, alias):
            yield n, "augmented assignment mutates it in place"
        if isinstance(n, (ast.Assign, ast.Delete, ast.AugAssign, ast.AnnAssign)):
            for t in _store_targets(n):
                for s in ast.walk(t):
                    if isinstance(s, ast.Subscript) and isinstance(s.ctx, (ast.Store, ast.Del)) and \
                            _shared_expr(s.value, base_attrs, alias):
                        yield n, "subscript store/delete mutates it in place"


def rule_alias(src, rep, base_attrs, mut_methods, rule, what, counts):
    """I2 (lists reachable as .chunks) / I7 (dicts reachable as .atts/._atts)."""
    # one level of inter-procedural propagation: parameters that receive a shared container
    param_seed = {}
    for f in src.all_funcs():
        alias = aliases_in(f, base_attrs)
        for n in f.own_nodes():
            if not isinstance(n, ast.Call):
                continue
            callee = None
            if isinstance(n.func, ast.Name):
                callee = src.funcs.get((f.module.name, n.func.id))
                if callee is None and n.func.id in f.module.pkg_import:
                    m2, nm = f.module.pkg_import[n.func.id]
                    callee = src.funcs.get((m2, nm)) if nm else None
            elif isinstance(n.func, ast.Attribute) and isinstance(n.func.value, ast.Name) and n.func.value.id == "self" \
                    and f.cls is not None:
                callee = src.resolve_method(f.module.name, f.cls.name, n.func.attr)
            if callee is None:
                continue
            ps = callee.node.args
            names = [a.arg for a in ps.posonlyargs + ps.args]
            if callee.cls is not None and names and names[0] in ("self", "cls"):
                names = names[1:]
            for i, a in enumerate(n.args):
                if isinstance(a, ast.Starred):
                    break
                if i < len(names) and _shared_expr(a, base_attrs, alias):
                    param_seed.setdefault(callee.scope, set()).add(names[i])
            for k in n.keywords:
                if k.arg and k.arg in names and _shared_expr(k.value, base_attrs, alias):
                    param_seed.setdefault(callee.scope, set()).add(k.arg)
    n_sites = 0
    n_alias = 0
    for f in src.all_funcs():
        alias = aliases_in(f, base_attrs, param_seed.get(f.scope, ()))
        n_alias += len(alias)
        for n in f.own_nodes():
            if isinstance(n, ast.Attribute) and n.attr in base_attrs:
                n_sites += 1
        for node, desc in mutations_of_shared(f, base_attrs, alias, mut_methods):
            rep.ob(rule, f.where(node), f.scope, unparse(node).split("\n")[0], False,
                   "%s (aliases in this function: %s): %s" % (what, sorted(alias) or "none", desc))
    counts[rule + "_access_sites"] = n_sites
    counts[rule + "_aliases"] = n_alias
    # one discharged obligation per function that touches the shared containers, so coverage is visible
    for f in src.all_funcs():
        touches = [n for n in f.own_nodes() if isinstance(n, ast.Attribute) and n.attr in base_attrs]
        if touches:
            alias = aliases_in(f, base_attrs, param_seed.get(f.scope, ()))
            bad = list(mutations_of_shared(f, base_attrs, alias, mut_methods))
            if not bad:
                rep.ob(rule, f.where(), f.scope, "%d accesses of %s; aliases %s" % (len(touches), "/".join(sorted(base_attrs)),
                                                                                 sorted(alias) or "none"), True)


# ---------------------------------------------------------------------------- I3 memo accessors
def _slot_targets(st, slot):
    """(stores_slot, other_names) for an Assign/AnnAssign statement (handles chained `c = self._slot = expr`)."""
    tg = st.targets if isinstance(st, ast.Assign) else [st.target]
    hit = any(is_self_attr(t, slot) for t in tg)
    names = [t.id for t in tg if isinstance(t, ast.Name)]
    return hit, names


def rule_i3(src, rep, fmt_mod, counts):
    from ..cfg import enumerate_paths
    n = 0
    table = memo_table(src, fmt_mod)
    for cname, slot, acc in table:
        f = src.func(fmt_mod, cname + "." + acc)
        sources = IMMUTABLE[cname]
        n += 1
        # stores to tracked fields other than the own slot
        other = []
        in_loop = []
        for node in f.own_nodes():
            for t in _store_targets(node):
                for a in ast.walk(t):
                    if isinstance(a, ast.Attribute) and a.attr in TRACKED and isinstance(a.ctx, (ast.Store, ast.Del)):
                        if not (a.attr == slot and is_self_attr(a)):
                            other.append(node)
                        elif isinstance(node, (ast.AugAssign, ast.Delete)) or f.module.enclosing(node, (ast.For, ast.While)) is not None:
                            in_loop.append(node)
        rep.ob("I3-memo-own-slot-only", f.where(), f.scope, "other tracked stores in %s" % acc, not other,
               "the accessor of %s also writes %s" % (slot, [unparse(x) for x in other]))
        rep.ob("I3-memo-single-store", f.where(in_loop[0]) if in_loop else f.where(), f.scope,
               "self.%s is stored by plain assignment outside loops" % slot, not in_loop,
               "the slot is filled incrementally (%s): a partially filled slot survives an exception raised half way and is "
               "then returned as if complete" % [unparse(x).split("\n")[0] for x in in_loop])
        every = [p for p in enumerate_paths(f.node.body) if p.feasible()]
        paths = [p for p in every if p.term == "return"]
        if not paths:
            raise AnalysisError("%s.%s has no returning path" % (cname, acc))
        # a path that fills the slot and then raises leaves the slot filled although the accessor failed: the next call
        # returns what the first one refused to return
        for p in every:
            if p.term != "raise":
                continue
            stored = [ev[1] for ev in p.events if ev[0] == "stmt" and isinstance(ev[1], (ast.Assign, ast.AnnAssign, ast.AugAssign))
                      and any(is_self_attr(t, slot) for t in _store_targets(ev[1]))]
            if stored:
                rep.ob("I3-memo-store-then-return", f.where(stored[0]), f.scope, unparse(stored[0]).split("\n")[0], False,
                       "a path stores self.%s and then raises: the slot stays filled although the accessor failed, so the "
                       "same value answers differently the second time it is asked" % slot)
        for p in paths:
            alias = {}          # local name -> 'slot' | 'value'
            alias_expr = {}
            store = None
            after_store = []
            ret = None
            vexpr = None
            for ev in p.events:
                if ev[0] != "stmt":
                    if store is not None and ev[0] in ("loop", "with"):
                        after_store.append(ev[1])
                    continue
                st = ev[1]
                if isinstance(st, ast.Return):
                    ret = st
                    continue
                if store is not None:
                    after_store.append(st)
                if isinstance(st, (ast.Assign, ast.AnnAssign)) and getattr(st, "value", None) is not None:
                    hit, names = _slot_targets(st, slot)
                    if hit:
                        if store is not None:
                            rep.ob("I3-memo-single-store", f.where(st), f.scope, unparse(st), False, "the slot is stored twice on one path")
                        store = st
                        after_store = []
                        vexpr = st.value
                        for nm in names:
                            alias[nm] = "value"
                        if isinstance(st.value, ast.Name):
                            alias[st.value.id] = "value"
                    elif is_self_attr(st.value, slot):
                        for nm in names:
                            alias[nm] = "slot"
                    elif names:
                        for nm in names:
                            alias[nm] = "value"
                            alias_expr[nm] = st.value
            desc = "path [%s]" % "; ".join(("%s=%s" % (unparse(e[1]), e[2])) if e[0] == "cond" else unparse(e[1]).split("\n")[0][:50]
                                           for e in p.events if e[0] in ("cond", "stmt"))
            if ret is None or ret.value is None:
                rep.ob("I3-memo-returns-stored", f.where(), f.scope, desc, False, "a path returns nothing")
                continue
            rv = ret.value
            if store is None:
                ok = is_self_attr(rv, slot) or (isinstance(rv, ast.Name) and alias.get(rv.id) == "slot")
                # the path must have tested that the cached value is present
                tested = False
                for c, v in p.conds():
                    txt = unparse(c)
                    names = ["self.%s" % slot] + [k for k, a in alias.items() if a == "slot"]
                    for nm in names:
                        if (txt == "%s is not None" % nm and v) or (txt == "%s is None" % nm and not v) or (txt == nm and v) or \
                                (txt == "not %s" % nm and not v):
                            tested = True
                rep.ob("I3-memo-early-return", f.where(ret), f.scope, desc, ok and tested,
                       "a path that stores nothing must return the cached self.%s and only after testing that it is set" % slot)
                continue
            # value computed from self.chunks only: self attributes read by the value expression and, transitively, by
            # every statement of the accessor that defines or fills a local the value mentions
            def self_reads(e):
                return {x.attr for x in ast.walk(e) if is_self_attr(x) and isinstance(x.ctx, ast.Load) and x.attr != slot}
            reads = self_reads(vexpr)
            work = [x.id for x in ast.walk(vexpr) if isinstance(x, ast.Name)]
            done = set()
            src_expr = vexpr
            while work:
                nm = work.pop()
                if nm in done:
                    continue
                done.add(nm)
                for node in f.own_nodes():
                    hit_expr = []
                    if isinstance(node, (ast.Assign, ast.AnnAssign)) and getattr(node, "value", None) is not None:
                        tg = node.targets if isinstance(node, ast.Assign) else [node.target]
                        if any(isinstance(t, ast.Name) and t.id == nm for t in tg) and not is_self_attr(node.value, slot):
                            hit_expr.append(node.value)
                    elif isinstance(node, ast.AugAssign) and isinstance(node.target, ast.Name) and node.target.id == nm:
                        hit_expr.append(node.value)
                    elif isinstance(node, ast.Call) and isinstance(node.func, ast.Attribute) and isinstance(node.func.value, ast.Name) and \
                            node.func.value.id == nm and node.func.attr in ("append", "extend", "add", "update", "insert"):
                        hit_expr.extend(node.args)
                        lp = f.module.enclosing(node, (ast.For,))
                        while lp is not None:
                            hit_expr.append(lp.iter)
                            lp = f.module.enclosing(lp, (ast.For,))
                    elif isinstance(node, ast.For) and any(isinstance(x, ast.Name) and x.id == nm and isinstance(x.ctx, ast.Store) for x in ast.walk(node.target)):
                        hit_expr.append(node.iter)
                    for h in hit_expr:
                        reads |= self_reads(h)
                        work.extend(x.id for x in ast.walk(h) if isinstance(x, ast.Name))
                    if isinstance(node, ast.AugAssign) and isinstance(node.target, ast.Name) and node.target.id == nm:
                        lp = f.module.enclosing(node, (ast.For,))
                        while lp is not None:
                            reads |= self_reads(lp.iter)
                            work.extend(x.id for x in ast.walk(lp.target) if isinstance(x, ast.Name))
                            lp = f.module.enclosing(lp, (ast.For,))
            rep.ob("I3-memo-value-from-chunks", f.where(store), f.scope, "self.%s = %s" % (slot, unparse(src_expr)[:80]),
                   reads <= sources and bool(reads),
                   "the memoised value must be computed from the immutable fields of %s (%s) only; it reads self.%s" %
                   (cname, sorted(sources), sorted(reads)))
            bad_after = [x for x in after_store if not isinstance(x, (ast.Assign, ast.AnnAssign)) or
                         any(isinstance(c, ast.Call) for c in ast.walk(x))]
            rep.ob("I3-memo-store-then-return", f.where(store), f.scope, unparse(store).split("\n")[0], not bad_after,
                   "between storing the slot and returning, `%s` runs: if it raises, the slot stays filled although the "
                   "accessor failed" % (unparse(bad_after[0]).split("\n")[0] if bad_after else ""))
            ok = is_self_attr(rv, slot) or (isinstance(rv, ast.Name) and alias.get(rv.id) == "value")
            rep.ob("I3-memo-returns-stored", f.where(ret), f.scope, desc, ok,
                   "returns `%s`, not the value just stored in self.%s" % (unparse(rv), slot))
    counts["memo_accessors"] = n
    # the slots are initialised to None in __init__
    for cname, slot, acc in table:
        init = src.func(fmt_mod, cname + ".__init__")
        inits = [n for n in init.own_nodes() if isinstance(n, (ast.Assign, ast.AnnAssign)) and
                 any(is_self_attr(t, slot) for t in _store_targets(n))]
        ok = len(inits) == 1 and isinstance(inits[0].value, ast.Constant) and inits[0].value.value is None
        rep.ob("I3-memo-init-none", init.where(inits[0]) if inits else init.where(), init.scope,
               unparse(inits[0]) if inits else "self.%s" % slot, ok,
               "memo slot self.%s must start empty (None) in %s.__init__" % (slot, cname))
    # FmtStr.__init__ copies the components
    init = src.func(fmt_mod, "FmtStr.__init__")
    cs = [n for n in init.own_nodes() if isinstance(n, (ast.Assign, ast.AnnAssign)) and
          any(is_self_attr(t, "chunks") for t in _store_targets(n))]
    vararg = init.node.args.vararg.arg if init.node.args.vararg else None
    ok = len(cs) == 1 and (_fresh(cs[0].value) or (isinstance(cs[0].value, ast.Name) and False))
    rep.ob("I2-init-copies-components", init.where(cs[0]) if cs else init.where(), init.scope,
           unparse(cs[0]) if cs else "self.chunks", ok,
           "FmtStr.__init__ must build its own list (list(...), display, comprehension); storing the caller's container "
           "lets two values share one run list")


# ---------------------------------------------------------------------------- I4 cached properties
def rule_i4(src, rep, fmt_mod, counts):
    n = 0
    for cname, fields in (("Chunk", CHUNK_FIELDS | {"s", "atts"}), ("FmtStr", {"chunks"})):
        for name, f in sorted(src.methods(fmt_mod, cname).items()):
            if not any("cached_property" in d or "lru_cache" in d or d.endswith("cache") for d in f.decorators()):
                continue
            n += 1
            reads = {x.attr for x in f.all_nodes() if is_self_attr(x)}
            bad = reads - fields
            rep.ob("I4-cached-reads-immutable", f.where(), f.scope, "@cached %s reads self.%s" % (name, sorted(reads)),
                   not bad, "a cached property reads self.%s, which is not an immutable field of %s" % (sorted(bad), cname))
            calls_self = [x for x in f.all_nodes() if isinstance(x, ast.Call) and isinstance(x.func, ast.Attribute)
                          and is_self_attr(x.func)]
            rep.ob("I4-cached-no-self-calls", f.where(), f.scope, "@cached %s" % name, not calls_self,
                   "a cached property calls %s on self; what that reads is not tracked" % [unparse(c.func) for c in calls_self])
    counts["cached_properties"] = n


# ---------------------------------------------------------------------------- I5 / I6
def _raises_unconditionally(fnode, src=None, module=None, cls=None, depth=2):
    """First statement (after a docstring) is `raise`, or a call / return of a call of a function or method of the same
    module that itself raises unconditionally (helper such as `_refuse_mutation()`)."""
    body = [s for s in fnode.body if not (isinstance(s, ast.Expr) and isinstance(s.value, ast.Constant))]
    if not body:
        return False
    if isinstance(body[0], ast.Raise):
        return True
    if src is None or depth <= 0:
        return False
    call = None
    if isinstance(body[0], ast.Expr) and isinstance(body[0].value, ast.Call):
        call = body[0].value
    elif isinstance(body[0], ast.Return) and isinstance(body[0].value, ast.Call):
        call = body[0].value
    if call is None:
        return False
    target = None
    if isinstance(call.func, ast.Name):
        target = src.funcs.get((module, call.func.id))
    elif isinstance(call.func, ast.Attribute) and isinstance(call.func.value, ast.Name) and call.func.value.id in ("self", "cls") and cls:
        target = src.resolve_method(module, cls, call.func.attr)
    elif isinstance(call.func, ast.Attribute) and isinstance(call.func.value, ast.Name) and cls and call.func.value.id == cls:
        target = src.resolve_method(module, cls, call.func.attr)
    if target is None:
        return False
    return _raises_unconditionally(target.node, src, target.module.name, target.cls.name if target.cls else None, depth - 1)


def rule_i5(src, rep, fmt_mod, counts):
    cls = src.cls(fmt_mod, "FrozenAttributes")
    base_is_dict = any("dict" in unparse(b).lower() for b in cls.bases)
    rep.ob("I5-frozen-is-dict", src.modules[fmt_mod].where(cls), fmt_mod + ":FrozenAttributes", "class FrozenAttributes(%s)"
           % ", ".join(unparse(b) for b in cls.bases), base_is_dict,
           "FrozenAttributes no longer derives from dict; the mutator list of this rule does not apply")
    meths = src.methods(fmt_mod, "FrozenAttributes")
    for m in sorted(DICT_MUT):
        f = meths.get(m)
        if f is None:
            # class-body alias: `pop = clear = _immutable`
            for st in cls.body:
                if isinstance(st, ast.Assign) and any(isinstance(t, ast.Name) and t.id == m for t in st.targets) and isinstance(st.value, ast.Name):
                    f = meths.get(st.value.id)
        ok = f is not None and _raises_unconditionally(f.node, src, fmt_mod, "FrozenAttributes")
        rep.ob("I5-frozen-mutator-raises", f.where() if f else src.modules[fmt_mod].where(cls), fmt_mod + ":FrozenAttributes",
               "FrozenAttributes.%s" % m, ok,
               ("dict.%s is inherited unchanged: `run.atts.%s(...)` edits a run's formatting in place and leaves the "
                "memoised terminal string stale" % (m, m)) if f is None else
               "FrozenAttributes.%s does not raise unconditionally" % m)
    for m in ("extend", "remove"):
        f = meths.get(m)
        if f is None:
            raise AnalysisError("anchor vanished: FrozenAttributes.%s" % m)
        rets = [x for x in f.own_nodes() if isinstance(x, ast.Return)]
        ok = bool(rets) and all(isinstance(r.value, ast.Call) and unparse(r.value.func) in ("FrozenAttributes", "type(self)", "self.__class__")
                                for r in rets)
        muts = [x for x in f.own_nodes() if isinstance(x, ast.Call) and isinstance(x.func, ast.Attribute) and
                isinstance(x.func.value, ast.Name) and x.func.value.id == "self" and x.func.attr in DICT_MUT | {"__init__"}]
        sup = [x for x in f.own_nodes() if isinstance(x, ast.Call) and isinstance(x.func, ast.Attribute) and
               unparse(x.func.value).startswith("super()") and x.func.attr in DICT_MUT]
        dcall = [x for x in f.own_nodes() if isinstance(x, ast.Call) and unparse(x.func).startswith("dict.") and
                 x.func.attr in DICT_MUT]
        rep.ob("I5-frozen-%s-builds-new" % m, f.where(), f.scope, "return %s" % (unparse(rets[0].value) if rets else "?"),
               ok and not muts and not sup and not dcall,
               "FrozenAttributes.%s must return a newly constructed FrozenAttributes and not touch self" % m)
    counts["frozen_mutators"] = len(DICT_MUT)


def rule_i6(src, rep, fmt_mod, counts):
    f = src.func(fmt_mod, "FmtStr.__setitem__")
    rep.ob("I6-setitem-raises", f.where(), f.scope, "FmtStr.__setitem__", _raises_unconditionally(f.node, src, fmt_mod, "FmtStr"),
           "item assignment on a FmtStr must raise unconditionally")
    for cname in ("FmtStr", "Chunk"):
        meths = src.methods(fmt_mod, cname)
        for m in sorted(meths):
            if m.startswith("__i") and m.endswith("__") and m not in ("__init__", "__iter__", "__int__", "__index__",
                                                                       "__invert__", "__init_subclass__", "__instancecheck__"):
                rep.ob("I6-no-inplace-operators", meths[m].where(), meths[m].scope, "%s.%s" % (cname, m), False,
                       "an in-place operator on an immutable value type changes the object other names refer to")
        for m in ("__delitem__", "__setattr__", "__delattr__"):
            if m in meths:
                ok = _raises_unconditionally(meths[m].node, src, fmt_mod, cname)
                rep.ob("I6-no-inplace-operators", meths[m].where(), meths[m].scope, "%s.%s" % (cname, m), ok,
                       "%s.%s is defined and does not raise unconditionally" % (cname, m))
    rep.ob("I6-no-inplace-operators", src.modules[fmt_mod].where(src.cls(fmt_mod, "FmtStr")), fmt_mod + ":FmtStr",
           "FmtStr/Chunk define no __iadd__/__imul__/...", True)


def run_rules(src, rep, fmt_mod="formatstring"):
    counts = {}
    rep.guard(rule_i1, src, rep, fmt_mod, counts)
    rep.guard(rule_alias, src, rep, {"chunks"}, LIST_MUT, "I2-no-inplace-on-shared-chunks",
              "the list is (or may alias) the run list of an existing FmtStr", counts)
    rep.guard(rule_alias, src, rep, {"atts", "_atts"}, DICT_MUT | {"__ior__"}, "I7-no-mutation-of-atts",
              "the dict is (or may alias) the attribute dict of an existing run", counts)
    rep.guard(rule_i3, src, rep, fmt_mod, counts)
    rep.guard(rule_i4, src, rep, fmt_mod, counts)
    rep.guard(rule_i5, src, rep, fmt_mod, counts)
    rep.guard(rule_i6, src, rep, fmt_mod, counts)
    return counts


def check(src, rep):
    rep.explanation = EXPLANATION
    rep.not_decided = NOT_DECIDED
    rep.assumptions = ["Python semantics: *args builds a fresh tuple, list()/dict()/slicing/+ build new containers, **d copies",
                       "receivers other than `self` are matched by attribute name (over-approximation)"]
    counts = run_rules(src, rep)
    from . import c13sem
    sem = {}
    rep.guard(c13sem.run, src, rep, sem)
    counts.update(sem)
    rep.explanation = EXPLANATION + EXPLANATION_SEM
    rep.extracted["counts"] = counts
    rep.floor("interpreted straight-line programs", counts.get("programs", 0), 300)
    rep.floor("stores to tracked fields", counts.get("tracked_field_stores", 0), 11)
    rep.floor("memo accessors", counts.get("memo_accessors", 0), 4)
    rep.floor(".chunks access sites", counts.get("I2-no-inplace-on-shared-chunks_access_sites", 0), 25)
    # (no floor on the number of cached properties: a tree without any has nothing for I4 to check; the count is in the evidence)
    fx = Source(os.path.join(VERIF, "selftest", "fixtures", "c13"))
    frep = Report("C13", "fixture", fx.repo)
    run_rules(fx, frep, fmt_mod="formatstring")
    fired = {o.rule for o in frep.obligations if not o.ok}
    for rule in ("I1-field-store", "I2-no-inplace-on-shared-chunks", "I7-no-mutation-of-atts", "I3-memo-single-store",
                 "I3-memo-value-from-chunks", "I4-cached-reads-immutable", "I5-frozen-mutator-raises", "I6-setitem-raises",
                 "I6-no-inplace-operators", "I2-init-copies-components", "I3-memo-store-then-return"):
        rep.fixture(rule, rule in fired)
