"""C03 - key decoding splits any byte stream losslessly into correctly named keys (DESIGN.md section 3, C03: K1..K7)."""
from ..keymodel import ENCODINGS, KeyModel
from ..report import AnalysisError
from . import c08

EXPLANATION = (
    "The decoder is a pure function of three compile-time tables, the encoding and `full`.  K1 the folded KEYMAP_PREFIXES "
    "equals the independently computed set of all non-empty proper prefixes of ESC-initial keys of both tables; K2 table "
    "shape (no empty key, multi-byte keys start with ESC, values non-empty str, printable ASCII other than space is never a "
    "key); K6 MAX_KEYPRESS_SIZE >= longest key of both tables and >= 4, READ_SIZE >= MAX_KEYPRESS_SIZE; K5 "
    "could_be_unfinished_utf8 is abstractly interpreted for every lead byte x length 1..7 and compared with RFC 3629 "
    "(lead C2..F4; obsolete/invalid leads unconstrained); K4 could_be_unfinished_char on the table-derived sequence set "
    "against an independent reference; K-eval get_key itself is abstractly interpreted (object-aware evaluator) on a "
    "table-derived finite set - every key of both tables, every prefix, each of them followed by representative bytes "
    "(thorough: every byte), every single byte, every UTF-8 lead byte with valid/invalid continuations, truncated and "
    "complete characters - for utf8/ascii/latin-1 and both `full` values, restricted to sequences reachable under the "
    "feed-one-byte protocol, and compared with an independent reference segmentation (ask for more exactly while the "
    "bytes can grow into a table sequence or a valid character; name when recognised; raise otherwise; over-long raises); "
    "K7 find_key moves bytes pop(0)->append in one statement, full= is an emptiness test after the pop, a key ends the "
    "loop, leftovers raise."
)
NOT_DECIDED = "bytes.decode itself (stdlib); end-to-end behaviour over a pipe; names in the tables (no independent oracle for what a terminal sends)."


def check(src, rep):
    rep.explanation = EXPLANATION
    rep.not_decided = NOT_DECIDED
    rep.assumptions = ["RFC 3629 lead-byte lengths; Python codecs for utf8/ascii/latin-1",
                       "Meta keys whose byte is an invalid/obsolete UTF-8 lead are outside the constrained domain (by design "
                       "they are recognised only when they end a read)"]
    rep.trusted_base = ["CPython ast", "sa/consteval.py", "sa/absint.py", "sa/objinterp.py", "sa/keymodel.py (reference)"]
    km = KeyModel(src)
    counts = {}
    rep.guard(rule_tables, src, rep, km, counts)
    rep.guard(rule_utf8, src, rep, km, counts)
    rep.guard(rule_unfinished, src, rep, km, counts)
    rep.guard(rule_get_key, src, rep, km, counts)
    rep.guard(c08.rule_k7, src, rep, counts)
    rep.guard(rule_locale, src, rep, km, counts)
    # the decoder as Input drives it: bursts, keys cut by the read boundary, unget - the interpreted request histories of C08
    from . import c08sem
    rep.guard(c08sem.run, src, rep, counts)
    rep.extracted["counts"] = counts
    rep.extracted["tables"] = {"CURTSIES_NAMES": len(km.curtsies), "CURSES_NAMES": len(km.curses),
                               "KEYMAP_PREFIXES": len(km.prefixes), "MAX_KEYPRESS_SIZE": km.max_size}
    rep.floor("curtsies table keys", len(km.curtsies), 300)
    rep.floor("curses table keys", len(km.curses), 30)
    rep.floor("prefixes", len(km.prefixes), 30)
    rep.floor("decoder evaluations", counts.get("get_key_cases", 0), 3000)


def rule_locale(src, rep, km, counts):
    """The encoding is the locale's at the time of the request: Inputs used one after the other in one process while the locale's
    preferred encoding changes each decode in the encoding in force (nothing remembered from the first request of the process)."""
    from .. import osmodel
    from ..consteval import Record
    from ..fold import new_interp
    from ..objinterp import NativeFunc
    f = src.func("input", "Input._send")
    data = b"\xc3\xa9a"
    alone = {}

    def keys_under(it, osm, enc):
        osm.encoding = enc
        inp = it.new("input", "Input", in_stream=Record(fileno=NativeFunc(lambda a, k: 0), name="<stdin>"), paste_threshold=None)
        mark = it.checkpoint()
        it.callm(inp, "unget_bytes", data)
        out = []
        for _ in range(4):
            r = it.callm(inp, "send", 0)
            if r[0] == "opaque":
                raise AnalysisError("Input.send outside the evaluated subset: %s" % r[1])
            if r == ("ok", None):
                break
            out.append(r[1] if r[0] == "ok" else r)
        if it.dirty(mark):
            raise AnalysisError("Input.send: %s" % it.dirty(mark))
        return out
    for enc in ("latin-1", "utf-8", "ascii"):
        it = new_interp(src)
        osm = osmodel.OS()
        osmodel.install(it, osm)
        alone[enc] = keys_under(it, osm, enc)
    for order in (("latin-1", "utf-8", "ascii", "latin-1"), ("utf-8", "latin-1"), ("ascii", "utf-8")):
        it = new_interp(src)
        osm = osmodel.OS()
        osmodel.install(it, osm)
        got = [(enc, keys_under(it, osm, enc)) for enc in order]
        bad = [(enc, g) for enc, g in got if g != alone[enc]]
        rep.case(True)
        rep.ob("K7-encoding-in-force-at-the-time-of-the-request", f.where(), f.scope, "Inputs fed %r while the locale reports %s in turn" % (data, ", ".join(order)), not bad,
               "under %s the keys are %s; in a fresh process under %s they are %s" % (bad[0][0] if bad else "", bad[0][1] if bad else "", bad[0][0] if bad else "", alone[bad[0][0]] if bad else ""),
               witness={"order": list(order)})


def rule_tables(src, rep, km, counts):
    w = "curtsies/events.py"
    sc = "events:<module>"
    ref = km.ref_prefixes()
    missing = sorted(ref - km.prefixes)
    extra = sorted(km.prefixes - ref)
    rep.ob("K1-prefix-set-exact", w, sc, "KEYMAP_PREFIXES (%d) == proper prefixes of ESC-initial keys (%d)" % (len(km.prefixes), len(ref)),
           not missing and not extra,
           "missing prefixes %s: a sequence that arrives whole is broken up at that point; extra prefixes %s: the decoder asks "
           "for input that cannot help" % (missing[:5], extra[:5]), witness={"missing": [repr(x) for x in missing[:8]], "extra": [repr(x) for x in extra[:8]]})
    for tname, tbl in (("CURTSIES_NAMES", km.curtsies), ("CURSES_NAMES", km.curses)):
        bad = [k for k in tbl if not isinstance(k, bytes) or len(k) == 0]
        rep.ob("K2-table-shape", w, sc, "%s: keys are non-empty bytes" % tname, not bad, "bad keys %s" % bad[:5])
        bad = [k for k in tbl if isinstance(k, bytes) and len(k) > 1 and k[:1] != b"\x1b"]
        rep.ob("K2-table-shape", w, sc, "%s: multi-byte keys start with ESC" % tname, not bad,
               "multi-byte keys %s do not start with ESC: their prefixes are never waited for, so they are unreachable" % bad[:5])
        bad = [k for k, v in tbl.items() if not isinstance(v, str) or not v]
        rep.ob("K2-table-shape", w, sc, "%s: names are non-empty str" % tname, not bad, "bad names for %s" % bad[:5])
        bad = [k for k in tbl if isinstance(k, bytes) and len(k) == 1 and 0x21 <= k[0] <= 0x7e]
        rep.ob("K2-table-shape", w, sc, "%s: printable characters are not keys" % tname, not bad,
               "printable characters %s are renamed by the table instead of being reported as themselves" % bad[:5])
    longest = max(len(k) for k in km.keys)
    rep.ob("K6-max-keypress-size", w, sc, "MAX_KEYPRESS_SIZE = %d, longest key %d" % (km.max_size, longest),
           km.max_size >= longest and km.max_size >= 4,
           "a table sequence of %d bytes (or a 4-byte character) exceeds MAX_KEYPRESS_SIZE=%d: get_key raises ValueError on its "
           "last byte" % (longest, km.max_size),
           witness={"longest_keys": [repr(k) for k in km.keys if len(k) == longest][:4]})
    rs = km.it.folder.const("input", "READ_SIZE", int)
    rep.ob("K6-read-size", "curtsies/input.py", "input:<module>", "READ_SIZE = %d" % rs, rs >= km.max_size,
           "one read may be shorter than a keypress")
    counts["table_keys"] = len(km.keys)


def rule_utf8(src, rep, km, counts):
    f = src.func("events", "could_be_unfinished_utf8")
    n = bad = 0
    for lead in range(0x80, 0x100):
        need = km.utf8_need(lead)
        for ln in range(1, 8):
            seq = bytes([lead] + [0x80] * (ln - 1))
            r = km.it.call1("events", "could_be_unfinished_utf8", seq)
            if r[0] == "opaque":
                raise AnalysisError("could_be_unfinished_utf8 outside the evaluated subset: %s" % r[1])
            n += 1
            if need is not None:
                want = ln < need
            elif lead < 0xC0:
                want = False
            else:
                continue
            rep.case(want)
            if r != ("ok", want) and not (r[0] == "ok" and bool(r[1]) == want):
                bad += 1
                if bad <= 3:
                    rep.ob("K5-utf8-lead-byte-table", f.where(), f.scope, "lead 0x%02X, %d byte(s) so far" % (lead, ln), False,
                           "could_be_unfinished_utf8 says %s; RFC 3629: a sequence led by 0x%02X has %s bytes, so more input is "
                           "%sneeded" % (r[1] if r[0] == "ok" else r, lead, need if need else "no valid", "" if want else "not "),
                           witness={"seq": repr(seq)})
    if not bad:
        rep.ob("K5-utf8-lead-byte-table", f.where(), f.scope, "%d (lead byte, length) cases against RFC 3629" % n, True)
    counts["utf8_cases"] = n


def rule_unfinished(src, rep, km, counts):
    f = src.func("events", "could_be_unfinished_char")
    n = bad = 0
    seqs = [s for s in km.sequences() if len(s) <= 4]
    for enc in ENCODINGS:
        for seq in seqs:
            want = km.grow_char(seq, enc)
            if want is None:
                continue
            r = km.it.call1("events", "could_be_unfinished_char", seq, enc)
            if r[0] == "opaque":
                raise AnalysisError("could_be_unfinished_char outside the evaluated subset: %s" % r[1])
            n += 1
            rep.case(want)
            if not (r[0] == "ok" and bool(r[1]) == want):
                bad += 1
                if bad <= 3:
                    rep.ob("K4-unfinished-char", f.where(), f.scope, "%r under %s" % (seq, enc), False,
                           "could_be_unfinished_char gives %s, but these bytes %s grow into one %s character"
                           % (r[1] if r[0] == "ok" else r, "can still" if want else "cannot", enc), witness={"seq": repr(seq), "encoding": enc})
    if not bad:
        rep.ob("K4-unfinished-char", f.where(), f.scope, "%d (sequence, encoding) cases" % n, True)
    counts["unfinished_cases"] = n


def rule_get_key(src, rep, km, counts):
    f = src.func("events", "get_key")
    seqs = km.sequences(thorough=rep.tier == "thorough")
    n = bad = 0
    kinds = {}
    for enc in ENCODINGS:
        for seq in seqs:
            if len(seq) <= km.max_size + 1 and not km.reachable(seq, enc):
                continue
            for full in (False, True):
                exp = km.expected(seq, enc, full)
                if exp[0] == "dontcare":
                    continue
                r = km.get_key(seq, enc, "CURTSIES", full)
                if r[0] == "opaque":
                    raise AnalysisError("get_key outside the evaluated subset for %r: %s" % (seq, r[1]))
                n += 1
                if r[0] == "raise":
                    got = ("raise",)
                elif r[1] is None:
                    got = ("none",)
                else:
                    got = ("name",)
                ok = got == exp
                name_ok = True
                if ok and got[0] == "name":
                    name_ok = r[1] == km.expected_name(seq, enc, "CURTSIES")
                kinds[exp[0]] = kinds.get(exp[0], 0) + 1
                rep.case(exp[0] != "raise", {"seq": repr(seq), "encoding": enc, "full": full, "decoder": str(r)}
                         if n % 1777 == 1 else None)
                if not (ok and name_ok):
                    bad += 1
                    if bad <= 4:
                        what = {"none": "ask for more input", "name": "report %r" % (km.expected_name(seq, enc, "CURTSIES"),),
                                "raise": "fail (nothing recognisable)"}[exp[0]]
                        rep.ob("K3-decoder-vs-reference", f.where(), f.scope, "%r, %s, full=%s" % (seq, enc, full), False,
                               "get_key gives %s; the reference segmentation says: %s" % (r, what),
                               witness={"seq": repr(seq), "encoding": enc, "full": full, "decoder": str(r), "expected": exp[0]})
    if not bad:
        rep.ob("K3-decoder-vs-reference", f.where(), f.scope, "%d (sequence, encoding, full) cases: %s" % (n, kinds), True)
    # "reports every character as itself" - in all three naming modes: single bytes and characters under the other two modes
    m = badm = 0
    for enc in ENCODINGS:
        for seq in seqs:
            if seq[:1] == b"\x1b" or not km.decodable(seq, enc) or len(seq.decode(enc)) != 1:
                continue
            for mode in ("CURSES", "BYTES"):
                for full in (False, True):
                    if km.expected(seq, enc, full)[0] != "name":
                        continue
                    r = km.get_key(seq, enc, mode, full)
                    if r[0] == "opaque":
                        raise AnalysisError("get_key outside the evaluated subset for %r under %s naming: %s" % (seq, mode, r[1]))
                    m += 1
                    rep.case(True)
                    want = km.expected_name(seq, enc, mode)
                    if r != ("ok", want):
                        badm += 1
                        if badm <= 3:
                            rep.ob("K3-characters-reported-as-themselves-in-every-mode", f.where(), f.scope, "%r, %s, %s naming, full=%s" % (seq, enc, mode, full), False,
                                   "get_key gives %s; the character is %r and has %s" % (r, seq.decode(enc), "the table name %r" % want if seq in km.curses and mode == "CURSES" else "no table name, so it is reported as %r" % (want,)),
                                   witness={"seq": repr(seq), "encoding": enc, "mode": mode, "full": full})
    if not badm:
        rep.ob("K3-characters-reported-as-themselves-in-every-mode", f.where(), f.scope, "%d (character, encoding, mode, full) cases" % m, True)
    # an encoding is the same encoding under every name the codec registry knows it by
    aliases = {"utf8": ("UTF-8", "utf_8", "U8"), "ascii": ("ANSI_X3.4-1968", "646", "us-ascii"), "latin-1": ("iso8859-1", "L1", "iso-8859-1")}
    probe = [bytes([b]) for b in (0x41, 0x80, 0xa9, 0xc3, 0xe9, 0xff)] + [b"\xe9a", b"\xc3\xa9", b"\xc3", b"\x1b[A", b"\x1b\xe9", b"\xe9\x1b[A"]
    ma = bada = 0
    for enc, names in aliases.items():
        for alias in names:
            for seq in probe:
                for full in (False, True):
                    a, b = km.get_key(seq, enc, "CURTSIES", full), km.get_key(seq, alias, "CURTSIES", full)
                    if "opaque" in (a[0], b[0]):
                        raise AnalysisError("get_key outside the evaluated subset for %r under encoding name %r: %s" % (seq, alias, b))
                    ma += 1
                    rep.case(True)
                    if a != b:
                        bada += 1
                        if bada <= 3:
                            rep.ob("K3-encoding-known-by-every-name", f.where(), f.scope, "%r under %r vs %r, full=%s" % (seq, alias, enc, full), False,
                                   "get_key gives %s under the name %r and %s under %r - the same codec" % (b, alias, a, enc),
                                   witness={"seq": repr(seq), "alias": alias, "encoding": enc})
    if not bada:
        rep.ob("K3-encoding-known-by-every-name", f.where(), f.scope, "%d (sequence, alias, full) cases" % ma, True)
    counts["get_key_cases"] = n
    counts["get_key_kinds"] = kinds
    # argument guards
    r = km.it.call1("events", "get_key", ["a"], "utf8", km.modes["CURTSIES"], False)
    rep.ob("K3-argument-guard", f.where(), f.scope, "get_key(['a'] (str, not bytes), ...)", r == ("raise", "TypeError"),
           "non-bytes input must raise TypeError, got %s" % (r,))
