"""C05 - parsing a FmtStr's terminal string gives the same FmtStr back (DESIGN.md section 3, C05: R1..R8)."""
from .. import sgr
from ..fold import new_interp
from ..models import FromStr, Reader, Writer, T, T2, cells
from ..report import AnalysisError
from . import tokenizer

EXPLANATION = (
    "R1 reader: token_type is abstractly interpreted (constant-propagation domain, structure independent) for every SGR code "
    "0..107 and for parameter lists (empty, singles, all ordered pairs, all a;b;a triples; thorough: all triples) of the "
    "supported codes; applying the resulting updates in order to probe states must equal the effect of an independent "
    "ECMA-48 SGR machine; repeated evaluation gives the same answers (no state carried between calls).  R2 fold: "
    "FmtStr.from_str is interpreted with parse() stubbed to return chosen token lists: an update token changes exactly its "
    "keys (None = reset), every text token comes out as one run with the non-None attributes (mapped through parse_args), "
    "runs come out complete and in order.  R3 model round trip: for every attribute set of C01's enumeration, writer "
    "stream -> tokens -> reader -> from_str gives one run with exactly the set's truthy attributes and a following run is "
    "unformatted (fully reset), so adjacent runs compose.  R4 the number->name tables invert the name->number tables.  R5 "
    "tokenizer: both patterns (resolved through re.compile if pre-compiled) are total (DOTALL), partition their input, "
    "recognise (regular-language inclusion on DFAs) every sequence the writer emits and every ordinary numeric CSI as one "
    "token, only take tokens that begin with ESC/0x9b; the function's case analysis (CSI wins ties, earlier two-byte "
    "sequence first, no match, parameter forms, newlines) is decided on one representative input per case.  R6 parse() "
    "alternates text and updates completely and in order (representative inputs incl. line-boundary characters and an 8-bit "
    "CSI in the tail).  S the memoised terminal string cannot go stale."
    "  R7 / R8 the statement itself on concrete values (bounded): from_str(str(f)) is interpreted for 120+ run layouts (1-3 runs, six "
    "attribute sets, texts with newlines, CR LF, tab, control characters, wide characters, parameter look-alikes, empty runs) "
    "and must give f's characters with f's formatting; every string of up to 3 (thorough 4) tokens of the grammar "
    "(text | ESC[ p1;..;pn m)* with parameter lists [], [0], single codes, pairs and triples of supported codes is read by "
    "from_str and every character must get the state the reference SGR machine has at that point."
)
NOT_DECIDED = ("behaviour of re.match itself; that the terminal string contains no ESC in its text (excluded by C01's "
               "quantifier); interaction with unsupported codes (C17).")


def _semantic(fmt, names):
    fgc, bgc, sty = names
    fg = fgc.get(fmt.get("fg")) if fmt.get("fg") is not None else None
    bg = bgc.get(fmt.get("bg")) if fmt.get("bg") is not None else None
    st = frozenset(sty[k] for k, v in fmt.items() if k in sty and v)
    return (fg, bg, st)


def _apply_updates(fmt, updates):
    fmt = dict(fmt)
    for u in updates:
        fmt.update(u)
    return fmt


def rule_r1(src, rep, reader, names, counts):
    f = reader.f
    fgc, bgc, sty = names
    inv_fg = {v: k for k, v in fgc.items()}
    inv_bg = {v: k for k, v in bgc.items()}
    probes = [({}, sgr.DEFAULT)]
    full = {"fg": inv_fg.get(31, "red"), "bg": inv_bg.get(44, "blue")}
    full.update({k: True for k in sty})
    probes.append((full, _semantic(full, names)))
    n_codes = 0
    for c in range(0, 108):
        kind, val = reader.token("m", [c])
        supported = c in sgr.SUPPORTED
        if kind == "opaque":
            raise AnalysisError("token_type is outside the evaluated subset for code %d: %s" % (c, val))
        if supported:
            n_codes += 1
            ok = kind == "ok" and isinstance(val, list) and all(isinstance(u, dict) for u in val)
            why = "code %d is not accepted by the reader (%s %s)" % (c, kind, val)
            if ok:
                for p, pstate in probes:
                    got = _semantic(_apply_updates(p, val), names)
                    want = sgr.apply(pstate, c)
                    if got != want:
                        ok = False
                        why = "SGR %d read as %s: from state %s it gives %s, a terminal shows %s" % (c, val, pstate, got, want)
                if ok:
                    bad = [k for u in val for k in u if k not in ("fg", "bg") and k not in sty]
                    if bad:
                        ok, why = False, "update for code %d names unknown attribute(s) %s" % (c, bad)
            rep.ob("R1-reader-code-effect", f.where(), f.scope, "SGR %d -> %s" % (c, val if kind == "ok" else kind), ok, why,
                   witness={"code": c, "reader": str(val)})
            rep.case(True, {"code": c, "updates": str(val)} if c in (0, 31, 49) else None)
        else:
            # a code outside the statement's supported set: what the reader makes of it is not C05's business (C17 decides that
            # it cannot make fmtstr raise); only the shape of an answer is checked
            ok = kind == "raise" or (kind == "ok" and (not val or all(isinstance(u, dict) for u in val)))
            rep.ob("R1-unsupported-code-answer-is-well-formed", f.where(), f.scope, "SGR %d -> %s %s" % (c, kind, val), ok,
                   "for code %d the reader answers %s, neither an exception nor a list of updates" % (c, val))
            rep.case(False)
    counts["supported_codes"] = n_codes
    S = sgr.SUPPORTED
    seqs = [[]] + [[a] for a in S] + [[a, b] for a in S for b in S] + [[a, b, a] for a in S for b in S if a != b]
    if rep.tier == "thorough":
        seqs += [[a, b, c] for a in S for b in S for c in S if not (a == c)]
    bad = None
    nbad = 0
    for seq in seqs:
        kind, val = reader.token("m", seq)
        if kind == "opaque":
            raise AnalysisError("token_type is outside the evaluated subset for parameters %s: %s" % (seq, val))
        for p, pstate in probes:
            want = sgr.apply_params(pstate, seq)
            got = _semantic(_apply_updates(p, val), names) if kind == "ok" and isinstance(val, list) else None
            if got != want:
                nbad += 1
                if bad is None:
                    bad = (seq, pstate, got if got is not None else "%s %s" % (kind, val), want)
        rep.case(bool(seq), {"params": seq, "updates": str(val)[:120]} if len(seq) == 3 and seq[0] == 31 and seq[1] == 0 else None)
    rep.ob("R1-parameter-lists-in-order", f.where(), f.scope, "%d parameter lists x %d probe states" % (len(seqs), len(probes)),
           bad is None, "ESC[%sm from state %s is read as %s, a terminal shows %s (%d deviating cases)"
           % ((";".join(map(str, bad[0])),) + bad[1:] + (nbad,)) if bad else "",
           witness={"params": bad[0], "from_state": str(bad[1]), "reader": str(bad[2]), "terminal": str(bad[3])} if bad else None)
    counts["parameter_lists"] = len(seqs)
    # repeated evaluation gives the same answer (no state carried between calls)
    order = ([0, 1, 31], [0], [], [1], [0], [39], [0, 44], [0])
    reader.memo.clear()
    again = [reader.token("m", s) for s in order]
    reader.memo.clear()
    again2 = [reader.token("m", s) for s in order]
    rep.ob("R1-reader-is-stateless", f.where(), f.scope, "token_type on %s, twice" % (order,),
           again == again2 and again[1] == again[4] == again[7],
           "token_type gives different answers for the same parameters depending on what it parsed before (first pass %s, second "
           "pass %s): a shared table or token object is mutated" % (again, again2))


def _expected_atts(state, names):
    fgc, bgc, sty = names
    out = {}
    for k, v in state.items():
        if v is None:
            continue
        out[k] = fgc[v] if k == "fg" else bgc[v] if k == "bg" else v
    return out


def _short(d):
    return "{" + ", ".join("%s: %s" % (k, v) for k, v in d.items()) + "}" if len(d) <= 3 else "{%d keys}" % len(d)


def rule_r2(src, rep, fs, names, counts):
    f = fs.f
    fgc, bgc, sty = names
    reset_all = dict({k: None for k in sty}, fg=None, bg=None)
    states = [{}, {"fg": "red"}, {"fg": "red", "bg": "blue"}, {"fg": None, "bg": "blue", "bold": True},
              dict({k: True for k in sty}, fg="green", bg="red"), dict(reset_all)]
    updates = [{"fg": "blue"}, {"bg": "cyan"}, {"bold": True}, {"fg": None}, {"bg": None}, {"bold": None}, dict(reset_all), {}]
    n = 0
    for st in states:
        for u in updates:
            n += 1
            r = fs.run([dict(st), dict(u), T])
            if r[0] == "opaque":
                raise AnalysisError("from_str outside the evaluated subset: %s" % r[1])
            want_state = dict(st)
            want_state.update(u)
            exp = [(T, _expected_atts(want_state, names))]
            rep.case(True)
            rep.ob("R2-update-token-updates-exactly-its-keys", f.where(), f.scope, "tokens [%s, %s, text]" % (_short(st), _short(u)),
                   r[0] == "ok" and cells(r[1]) == cells(exp),
                   "after the updates %s then %s the text must carry exactly %s; from_str gives %s" % (st, u, exp[0][1], r[1] if r[0] == "ok" else r,),
                   witness={"tokens": [st, u, "text"], "result": str(r)})
        for label, toks, exp in (
                ("text, text", [dict(st), T, T2], [(T, _expected_atts(st, names)), (T2, _expected_atts(st, names))]),
                ("text, update, text", [T, dict(st), T2], [(T, {}), (T2, _expected_atts(st, names))]),
                ("text, empty update, text", [dict(st), T, {}, T2], [(T, _expected_atts(st, names)), (T2, _expected_atts(st, names))])):
            n += 1
            r = fs.run(toks)
            if r[0] == "opaque":
                raise AnalysisError("from_str outside the evaluated subset: %s" % r[1])
            rep.case(True)
            rep.ob("R2-every-text-token-is-one-run-in-order", f.where(), f.scope, "%s with state %s" % (label, _short(st)),
                   r[0] == "ok" and cells(r[1]) == cells(exp),
                   "every text piece must come out as its own run, in order, with the formatting in force at that point; expected %s, "
                   "from_str gives %s" % (exp, r[1] if r[0] == "ok" else r,), witness={"tokens": str(toks), "result": str(r)})
    counts["fold_cases"] = n


def rule_r3(src, rep, writer, reader, fs, names, counts):
    from ..par import pmap
    sets = []
    for fg, bg, styles in sgr.attribute_sets(rep.tier):
        atts = dict(styles)
        if fg is not None:
            atts["fg"] = fg
        if bg is not None:
            atts["bg"] = bg
        sets.append(atts)

    def one(atts):
        want = {k: v for k, v in atts.items() if v}
        stream = writer.stream(atts)
        if stream is None:
            return ("the writer model is not deterministic for this set (see C01)", stream, None)
        toks = []
        for t in sgr.tokenize(stream):
            if t[0] == "JUNK":
                return ("writer emits junk %r" % t[1], stream, None)
            if t[0] == "TEXT":
                toks.append(T)
            else:
                kind, val = reader.token("m", t[1])
                if kind == "opaque":
                    return ("OPAQUE token_type outside the subset for %s: %s" % (t[1], val), stream, None)
                if kind != "ok" or not isinstance(val, list):
                    return ("reader rejects the writer's own sequence ESC[%sm: %s %s" % (";".join(map(str, t[1])), kind, val), stream, None)
                toks.extend(val)
        r = fs.run(toks + [T2])
        if r[0] == "opaque":
            return ("OPAQUE from_str outside the evaluated subset: %s" % r[1], stream, None)
        if r[0] != "ok":
            return ("from_str raises %s on the writer's own output" % r[1], stream, str(r))
        if cells(r[1]) != cells([(T, want), (T2, {})]):
            if cells(r[1])[:1] != cells([(T, want)]):
                return ("round trip gives runs %s, expected one run with %s" % (r[1][:1], want), stream, str(r))
            return ("text after the run comes out as %s: the reader's state is not fully reset, the next run inherits it" % (r[1][1:],), stream, str(r))
        return (None, stream, str(r))
    results = pmap(one, sets)
    n = bad = 0
    first = {}
    for atts, (problem, stream, r) in zip(sets, results):
        n += 1
        if problem and problem.startswith("OPAQUE"):
            raise AnalysisError(problem[7:])
        if problem:
            bad += 1
            key = problem.split(",")[0][:70]
            first.setdefault(key, {"attributes": atts, "stream": (stream or "").replace("\x1b", "ESC").replace(sgr.TEXT, "<text>"),
                                   "problem": problem})
        rep.case(any(atts.values()), {"attributes": atts, "runs": r} if n % 1303 == 1 else None)
    rep.exhaustive = True
    f = fs.f
    if bad:
        for key, w in list(first.items())[:5]:
            rep.ob("R3-model-round-trip", f.where(), f.scope, "round trip: %s" % key, False,
                   "%s (attribute set %s); %d deviating sets" % (w["problem"], w["attributes"], bad), witness=w)
    else:
        rep.ob("R3-model-round-trip", f.where(), f.scope, "writer -> tokens -> reader -> from_str over %d attribute sets" % n, True)
    counts["round_trip_sets"] = n


def rule_r4(src, rep, fold, counts):
    C = "termformatconstants"
    for fwd, inv in (("FG_COLORS", "FG_NUMBER_TO_COLOR"), ("BG_COLORS", "BG_NUMBER_TO_COLOR"), ("STYLES", "NUMBER_TO_STYLE")):
        a = fold.const(C, fwd, dict)
        b = fold.const(C, inv, dict)
        ok = len(set(a.values())) == len(a) and b == {v: k for k, v in a.items()}
        rep.ob("R4-inverse-tables", "curtsies/termformatconstants.py", C + ":<module>", "%s inverts %s" % (inv, fwd), ok,
               "%s is not the inverse of %s: %s vs %s (a number that reads back as another name breaks repr and the round trip)" % (inv, fwd, b, a))
    for name, want in (("RESET_ALL", 0), ("RESET_FG", 39), ("RESET_BG", 49)):
        v = fold.const(C, name, int)
        rep.ob("R4-reset-codes", "curtsies/termformatconstants.py", C + ":<module>", "%s = %d" % (name, v), v == want,
               "%s must be SGR %d" % (name, want))
    fgc = fold.const(C, "FG_COLORS", dict)
    bgc = fold.const(C, "BG_COLORS", dict)
    sty = fold.const(C, "STYLES", dict)
    rep.ob("R4-code-tables", "curtsies/termformatconstants.py", C + ":<module>", "FG 30-37, BG 40-47, same colour names",
           sorted(set(fgc.values())) == list(range(30, 38)) and sorted(set(bgc.values())) == list(range(40, 48)) and
           all(bgc.get(k) == v + 10 for k, v in fgc.items()),
           "colour tables are not 30-37/40-47 over the same names: %s %s" % (fgc, bgc))
    rep.ob("R4-code-tables", "curtsies/termformatconstants.py", C + ":<module>", "STYLES = %s" % sty,
           sty == {sgr.STYLE_NAME[c]: c for c in sgr.STYLE_CODES}, "style table differs from ECMA-48: %s" % sty)
    return fgc, bgc, sty


def rule_concrete(src, rep, it, counts):
    """R7 / R8: the statement itself, on concrete values - from_str(str(f)) against f for run layouts with awkward texts, and every
    string of up to 3 (thorough 4) tokens of the grammar (text | ESC[ p1;..;pn m)* against the reference SGR machine."""
    import itertools
    from ..par import pmap
    from ..models import cells, mk_fmtstr, runs_of
    f = src.func("formatstring", "FmtStr.from_str")
    pool = [{}, {"fg": 31}, {"bg": 44, "bold": True}, {"fg": 32, "underline": True, "invert": True}, {"dark": True, "italic": True, "blink": True},
            {"fg": 37, "bg": 40}]
    texts = ["a", "x\ny", "\t ", "\u00e9\uff25", "", "q\r\n", "[1m", "\x07\x08"]
    layouts = []
    for a in pool:
        for t in texts:
            layouts.append([(t, a)])
    for a, b in itertools.product(pool, repeat=2):
        layouts.append([("ab", a), ("c\nd", b)])
        layouts.append([("", a), ("z", b)])
    for a, b, c in itertools.product(pool[:4], repeat=3):
        layouts.append([("a", a), ("\n", b), ("c", c)])

    def st(a):
        return sgr.expected_state(a.get("fg"), a.get("bg"), {k: v for k, v in a.items() if k not in ("fg", "bg")})

    def one_layout(runs):
        obj = mk_fmtstr(it, *runs)
        r = it.call1("formatstring", "FmtStr.__str__", obj)
        if r[0] != "ok" or not isinstance(r[1], str):
            return ("error", "str(f) not evaluable for %s: %s" % (runs, r))
        r2 = it.call1("formatstring", "FmtStr.from_str", r[1])
        if r2[0] == "opaque":
            return ("error", "from_str outside the evaluated subset for %r: %s" % (r[1], r2[1]))
        want = [(ch, st(a)) for t, a in runs for ch in t]
        if r2[0] != "ok":
            return ("R7-from_str-of-str-gives-the-same-cells", str(runs), "from_str(str(f)) raises %s for f = %s" % (r2[1], runs))
        got = [(ch, st(dict(e))) for ch, e in cells(runs_of(r2[1]))]
        if got != want:
            return ("R7-from_str-of-str-gives-the-same-cells", str(runs), "f = %s: str(f) = %r reads back as %s" % (runs, r[1], runs_of(r2[1])))
        return None

    params = [[], [0], [1], [4], [7], [31], [39], [44], [49], [1, 31], [31, 1], [0, 4], [44, 32, 2], [39, 49]]
    toks = [("t", "a"), ("t", "b\n")] + [("s", p) for p in params]
    maxlen = 4 if rep.tier == "thorough" else 3
    strings = []
    for n in range(1, maxlen + 1):
        for combo in itertools.product(toks, repeat=n):
            if any(k == "t" for k, _ in combo):
                strings.append(combo)

    def one_string(combo):
        s_ = "".join(v if k == "t" else "\x1b[%sm" % ";".join(map(str, v)) for k, v in combo)
        state = sgr.DEFAULT
        want = []
        for k, v in combo:
            if k == "t":
                want.extend((ch, state) for ch in v)
            else:
                state = sgr.apply_params(state, v)
        r = it.call1("formatstring", "FmtStr.from_str", s_)
        if r[0] == "opaque":
            return ("error", "from_str outside the evaluated subset for %r: %s" % (s_, r[1]))
        if r[0] != "ok":
            return ("R8-grammar-strings-read-as-a-terminal-would-display-them", s_, "from_str(%r) raises %s" % (s_, r[1]))
        got = [(ch, st(dict(e))) for ch, e in cells(runs_of(r[1]))]
        if got != want:
            k = next((i for i, (a, b) in enumerate(zip(got, want)) if a != b), min(len(got), len(want)))
            return ("R8-grammar-strings-read-as-a-terminal-would-display-them", s_,
                    "from_str(%r): character %d is read as %s, a terminal displays %s" % (s_, k, got[k] if k < len(got) else None, want[k] if k < len(want) else None))
        return None
    res = pmap(one_layout, layouts, min_chunk=16) + pmap(one_string, strings, min_chunk=64)
    # the same statement on values arrived at through a history (operations on base values that were looked at first)
    from ..derive import derived_values
    it2 = new_interp(src)
    dv = derived_values(it2)
    for how, v in dv:
        if isinstance(v, tuple):
            continue
        runs = runs_of(v)
        if any("\x1b" in t or "\x9b" in t for t, _ in runs):
            continue
        r = it2.callm(v, "__str__")
        r2 = it2.call1("formatstring", "FmtStr.from_str", r[1]) if r[0] == "ok" and isinstance(r[1], str) else r
        if r2[0] == "opaque":
            raise AnalysisError("from_str(str(f)) outside the evaluated subset for %s: %s" % (how, r2[1]))
        want = [(ch, st(a)) for t, a in runs for ch in t]
        got = [(ch, st(dict(e))) for ch, e in cells(runs_of(r2[1]))] if r2[0] == "ok" else None
        res.append(None if got == want else ("R7-from_str-of-str-gives-the-same-cells", how,
                                             "f = %s with the runs %s: str(f) = %r reads back as %s" % (how, runs, r[1] if r[0] == "ok" else r, runs_of(r2[1]) if r2[0] == "ok" else r2)))
    counts["derived_values"] = len(dv)
    bad = {}
    for x in res:
        rep.case(True)
        if x is None:
            continue
        if x[0] == "error":
            raise AnalysisError(x[1])
        bad.setdefault(x[0], []).append(x[1:])
    for rule, group in (("R7-from_str-of-str-gives-the-same-cells", "%d run layouts with concrete texts" % len(layouts)),
                        ("R8-grammar-strings-read-as-a-terminal-would-display-them", "every string of up to %d grammar tokens" % maxlen)):
        items = bad.get(rule, [])
        if items:
            items.sort(key=lambda y: len(y[0]))
            rep.ob(rule, f.where(), f.scope, group.split(" ", 1)[1] if group[0].isdigit() else group, False,
                   "%s (%d cases fail this rule)" % (items[0][1], len(items)), witness={"input": items[0][0]})
        else:
            rep.ob(rule, f.where(), f.scope, group.split(" ", 1)[1] if group[0].isdigit() else group, True)
    counts["concrete_layouts"] = len(layouts)
    counts["grammar_strings"] = len(strings)


def check(src, rep):
    rep.explanation = EXPLANATION
    rep.not_decided = NOT_DECIDED
    rep.assumptions = ["ECMA-48 SGR subset as encoded in sa/sgr.py", "re.match semantics (leftmost, lazy/greedy quantifiers)"]
    rep.trusted_base = ["CPython ast and re._parser modules", "sa/consteval.py", "sa/absint.py", "sa/objinterp.py",
                        "sa/regexast.py (NFA/DFA)", "sa/sgr.py"]
    it = new_interp(src, check_views=True)
    fold = it.folder
    counts = {}
    names = rep.guard(rule_r4, src, rep, fold, counts)
    if names is None:
        return
    try:
        writer, reader, fs = Writer(src, it), Reader(src, it), FromStr(src, it)
    except AnalysisError as e:
        rep.errors.append(str(e))
        return
    rep.guard(rule_r1, src, rep, reader, names, counts)
    rep.guard(rule_r2, src, rep, fs, names, counts)
    rep.guard(rule_r3, src, rep, writer, reader, fs, names, counts)
    rep.guard(tokenizer.rules_tokenizer, src, rep, fold, "R5", counts)
    rep.guard(tokenizer.rules_parse_loop, src, rep, "R6")
    from .c01 import cache_coherence, joining
    rep.guard(cache_coherence, src, rep)
    # R3 composes single-run round trips: that needs str(f) to be the runs' own strings joined in order (C01's J rules)
    rep.guard(joining, src, rep, it, writer)
    rep.guard(rule_concrete, src, rep, it, counts)
    rep.extracted["counts"] = counts
    rep.floor("supported SGR codes read", counts.get("supported_codes", 0), 20)
    rep.floor("round-trip attribute sets", counts.get("round_trip_sets", 0), 5000)
    rep.floor("tokenizer patterns", counts.get("tokenizer_patterns", 0), 2)
    rep.floor("grammar strings", counts.get("grammar_strings", 0), 1000)
