"""C05 - parsing a FmtStr's terminal string gives the same FmtStr back (DESIGN.md section 3, C05: R1..R8)."""
import ast
import itertools

from .. import sgr
from ..absint import Interp
from ..consteval import Folder
from ..models import FromStrFold, Reader, Writer, T
from ..report import AnalysisError
from ..srcmodel import unparse
from . import tokenizer

EXPLANATION = (
    "R1 reader table: token_type is abstractly interpreted (constant-propagation domain) for every SGR code 0..107 and "
    "for parameter lists (empty, singles, all ordered pairs, all a;b;a triples; thorough: all triples) of the supported "
    "codes; applying the extracted updates in order to probe states must equal the effect of an independent ECMA-48 SGR "
    "machine.  R2 fold: the token loop of FmtStr.from_str is extracted as a transition function and checked on probe "
    "states: an update token changes exactly its keys and emits nothing, a text token emits exactly one run whose "
    "attributes are the non-None entries (through parse_args), the result is FmtStr(*runs) in order.  R3 model round "
    "trip: for every attribute set of C01's enumeration, writer stream -> tokens -> reader table -> fold gives one run "
    "with exactly the set's truthy attributes and ends with every attribute reset, so adjacent runs compose.  R4 the "
    "number->name tables invert the name->number tables.  R5-R8 tokenizer: both patterns are total (DOTALL), partition "
    "their input, recognise (regular-language inclusion on DFAs built from the patterns' syntax trees) every sequence "
    "the writer emits and every ordinary numeric CSI as one token, only ever take tokens that begin with ESC/0x9b, the "
    "CSI match wins ties; parse() alternates text and updates in order."
)
NOT_DECIDED = ("behaviour of re.match itself; that the terminal string contains no ESC in its text (excluded by C01's "
               "quantifier); interaction with unsupported codes (C17).")


def _semantic(fmt, names):
    """running-format dict (names / True / None) -> reference state"""
    fgc, bgc, sty = names
    fg = fgc.get(fmt.get("fg")) if fmt.get("fg") is not None else None
    bg = bgc.get(fmt.get("bg")) if fmt.get("bg") is not None else None
    st = frozenset(sty[k] for k, v in fmt.items() if k in sty and v)
    return (fg, bg, st)


def _apply_updates(fmt, updates):
    fmt = dict(fmt)
    for u in updates:
        fmt.update(u)
    return fmt


def rule_r1(src, rep, fold, reader, names, counts):
    f = reader.f
    fgc, bgc, sty = names
    inv_fg = {v: k for k, v in fgc.items()}
    inv_bg = {v: k for k, v in bgc.items()}
    probes = [({}, sgr.DEFAULT)]
    full = {"fg": inv_fg.get(31, "red"), "bg": inv_bg.get(44, "blue")}
    full.update({k: True for k in sty})
    probes.append((full, _semantic(full, names)))
    n_codes = 0
    for c in range(0, 108):
        kind, val = reader.token("m", [c])
        supported = c in sgr.SUPPORTED
        if kind == "opaque":
            raise AnalysisError("token_type is outside the decision-list subset for code %d: %s" % (c, val))
        if supported:
            n_codes += 1
            ok = kind == "ok" and isinstance(val, list) and all(isinstance(u, dict) for u in val)
            why = "code %d is not accepted by the reader (%s %s)" % (c, kind, val)
            if ok:
                for p, pstate in probes:
                    got = _semantic(_apply_updates(p, val), names)
                    want = sgr.apply(pstate, c)
                    if got != want:
                        ok = False
                        why = "SGR %d read as %s: from state %s it gives %s, a terminal shows %s" % (c, val, pstate, got, want)
                # unknown keys in an update would be rejected later by parse_args
                if ok:
                    bad = [k for u in val for k in u if k not in ("fg", "bg") and k not in sty]
                    if bad:
                        ok, why = False, "update for code %d names unknown attribute(s) %s" % (c, bad)
            rep.ob("R1-reader-code-effect", f.where(), f.scope, "SGR %d -> %s" % (c, val if kind == "ok" else kind), ok, why,
                   witness={"code": c, "reader": str(val)})
            rep.case(True, {"code": c, "updates": str(val)} if c in (0, 31, 49) else None)
        else:
            # unsupported codes must not be silently read as something
            ok = kind == "raise" or (kind == "ok" and not val)
            rep.ob("R1-unsupported-code-not-misread", f.where(), f.scope, "SGR %d -> %s %s" % (c, kind, val if kind != "ok" else val), ok,
                   "unsupported code %d is read as %s" % (c, val))
            rep.case(False)
    counts["supported_codes"] = n_codes
    # parameter lists
    S = sgr.SUPPORTED
    seqs = [[]] + [[a] for a in S] + [[a, b] for a in S for b in S] + [[a, b, a] for a in S for b in S if a != b]
    if rep.tier == "thorough":
        seqs += [[a, b, c] for a in S for b in S for c in S if not (a == c)]
    bad = None
    nbad = 0
    for seq in seqs:
        kind, val = reader.token("m", seq)
        if kind == "opaque":
            raise AnalysisError("token_type is outside the decision-list subset for parameters %s: %s" % (seq, val))
        for p, pstate in probes:
            want = sgr.apply_params(pstate, seq)
            got = _semantic(_apply_updates(p, val), names) if kind == "ok" else None
            if got != want:
                nbad += 1
                if bad is None:
                    bad = (seq, pstate, got if kind == "ok" else "%s %s" % (kind, val), want)
        rep.case(bool(seq), {"params": seq, "updates": str(val)[:120]} if len(seq) == 3 and seq[0] == 31 and seq[1] == 0 else None)
    rep.ob("R1-parameter-lists-in-order", f.where(), f.scope, "%d parameter lists x %d probe states" % (len(seqs), len(probes)),
           bad is None, "ESC[%sm from state %s is read as %s, a terminal shows %s (%d deviating cases)"
           % ((";".join(map(str, bad[0])),) + bad[1:] + (nbad,)) if bad else "",
           witness={"params": bad[0], "from_state": str(bad[1]), "reader": str(bad[2]), "terminal": str(bad[3])} if bad else None)
    counts["parameter_lists"] = len(seqs)


def rule_r2(src, rep, fold, fsf, names, counts):
    f = fsf.f
    fgc, bgc, sty = names
    inv_fg = {v: k for k, v in fgc.items()}
    inv_bg = {v: k for k, v in bgc.items()}
    states = [{}, {"fg": "red"}, {"fg": "red", "bg": "blue"}, {"fg": None, "bg": "blue", "bold": True},
              dict({k: True for k in sty}, fg="green", bg="red"), dict({k: None for k in sty}, fg=None, bg=None)]
    updates = [{"fg": "blue"}, {"bg": "cyan"}, {"bold": True}, {"fg": None}, {"bg": None}, {"bold": None},
               dict({k: None for k in sty}, fg=None, bg=None), {}]
    n = 0
    for st in states:
        for u in updates:
            n += 1
            r = fsf.step(st, u)
            if r[0] == "opaque":
                raise AnalysisError("from_str loop body: %s" % r[1])
            want = dict(st)
            want.update(u)
            ok = r[0] == "ok" and _nn(r[1]) == _nn(want) and r[2] == []
            rep.ob("R2-update-token-updates-exactly-its-keys", f.where(fsf.loop), f.scope,
                   "state %s + token %s" % (_short(st), _short(u)), ok,
                   "an update token must change exactly its own keys of the running format and emit no run; got %s"
                   % (r[1:] if r[0] == "ok" else r,), witness={"state": st, "token": u, "result": str(r)})
        r = fsf.step(st, T)
        if r[0] == "opaque":
            raise AnalysisError("from_str loop body: %s" % r[1])
        n += 1
        exp_atts = {}
        for k, v in st.items():
            if v is None:
                continue
            exp_atts[k] = fgc[v] if k == "fg" else bgc[v] if k == "bg" else v
        ok = r[0] == "ok" and _nn(r[1]) == _nn(st) and len(r[2]) == 1 and _chunk_eq(r[2][0], T, exp_atts)
        rep.ob("R2-text-token-emits-one-run", f.where(fsf.loop), f.scope, "state %s + text" % _short(st), ok,
               "a text piece must leave the running format alone and emit exactly one run carrying the non-None attributes "
               "%s; got %s" % (exp_atts, r[1:] if r[0] == "ok" else r,), witness={"state": st, "result": str(r)})
    ok, outs = fsf.result_is_all_runs()
    rep.ob("R2-result-is-all-runs-in-order", f.where(fsf.loop), f.scope, "return FmtStr(*chunks)", ok,
           "from_str must return FmtStr(*runs) with every emitted run in order; got %s" % outs)
    # the loop iterates over parse(<the parameter>)
    calls = [n for n in f.own_nodes() if isinstance(n, ast.Call) and unparse(n.func) == "parse"]
    ok = len(calls) == 1 and len(calls[0].args) == 1 and unparse(calls[0].args[0]) == f.params()[0]
    asg = f.module.parent.get(calls[0]) if calls else None
    ok = ok and isinstance(asg, ast.Assign) and unparse(asg.targets[0]) == fsf.iter_name
    rep.ob("R2-loop-over-parse-of-input", f.where(calls[0]) if calls else f.where(), f.scope,
           "%s = parse(%s)" % (fsf.iter_name, f.params()[0]), ok, "the fold must run over parse(<input>) unchanged")
    counts["fold_transitions"] = n


def _nn(d):
    """semantic view of a running format: entries that are set (None means 'reset')"""
    return {k: v for k, v in d.items() if v is not None}


def _chunk_eq(ch, text, atts):
    if not (isinstance(ch, tuple) and ch and ch[0] == "<Chunk>"):
        return False
    pos = [x for x in ch[1:] if not (isinstance(x, tuple) and len(x) == 2 and x[0] in ("atts", "string"))]
    kw = dict(x for x in ch[1:] if isinstance(x, tuple) and len(x) == 2 and x[0] in ("atts", "string"))
    s = kw.get("string", pos[0] if pos else None)
    a = kw.get("atts", pos[1] if len(pos) > 1 else None)
    return s == text and isinstance(s, type(text)) and dict(a or {}) == atts


def _short(d):
    return "{" + ", ".join("%s: %s" % (k, v) for k, v in d.items()) + "}" if len(d) <= 3 else "{%d keys}" % len(d)


def rule_r3(src, rep, fold, writer, reader, fsf, names, counts):
    fgc, bgc, sty = names
    n = bad = 0
    first = {}
    for fg, bg, styles in sgr.attribute_sets(rep.tier):
        atts = dict(styles)
        if fg is not None:
            atts["fg"] = fg
        if bg is not None:
            atts["bg"] = bg
        want = {k: v for k, v in atts.items() if v}
        n += 1
        stream = writer.stream(atts)
        problem = None
        runs = []
        fmt = {}
        if stream is None:
            problem = "the writer model is not deterministic for this set (see C01)"
        else:
            for t in sgr.tokenize(stream):
                if t[0] == "JUNK":
                    problem = "writer emits junk %r" % t[1]
                    break
                if t[0] == "TEXT":
                    toks = [T]
                else:
                    kind, val = reader.token("m", t[1])
                    if kind == "opaque":
                        raise AnalysisError("token_type outside the subset for %s: %s" % (t[1], val))
                    if kind != "ok":
                        problem = "reader rejects the writer's own sequence ESC[%sm: %s %s" % (";".join(map(str, t[1])), kind, val)
                        break
                    toks = val
                for tk in toks:
                    r = fsf.step(fmt, tk)
                    if r[0] == "opaque":
                        raise AnalysisError("from_str loop body: %s" % r[1])
                    if r[0] != "ok":
                        problem = "fold fails on token %r in state %s: %s" % (tk, fmt, r)
                        break
                    fmt = r[1]
                    runs.extend(r[2])
                if problem:
                    break
        if problem is None:
            if len(runs) != 1 or not _chunk_eq(runs[0], T, want):
                problem = "round trip gives runs %s, expected one run with %s" % (runs, want)
            elif any(v is not None for v in fmt.values()):
                problem = "after the run the reader's running format is %s, not fully reset: the next run inherits it" % fmt
        if problem:
            bad += 1
            key = problem.split(",")[0][:70]
            first.setdefault(key, {"attributes": atts, "stream": (stream or "").replace("\x1b", "ESC").replace(sgr.TEXT, "<text>"),
                                   "problem": problem})
        rep.case(bool(want), {"attributes": atts, "runs": str(runs)} if n % 1303 == 1 else None)
    rep.exhaustive = True
    f = fsf.f
    if bad:
        for key, w in list(first.items())[:5]:
            rep.ob("R3-model-round-trip", f.where(), f.scope, "round trip: %s" % key, False,
                   "%s (attribute set %s); %d deviating sets" % (w["problem"], w["attributes"], bad), witness=w)
    else:
        rep.ob("R3-model-round-trip", f.where(), f.scope, "writer -> tokens -> reader -> fold over %d attribute sets" % n, True)
    counts["round_trip_sets"] = n


def rule_r4(src, rep, fold, counts):
    C = "termformatconstants"
    for fwd, inv in (("FG_COLORS", "FG_NUMBER_TO_COLOR"), ("BG_COLORS", "BG_NUMBER_TO_COLOR"), ("STYLES", "NUMBER_TO_STYLE")):
        a = fold.const(C, fwd, dict)
        b = fold.const(C, inv, dict)
        ok = len(set(a.values())) == len(a) and b == {v: k for k, v in a.items()}
        rep.ob("R4-inverse-tables", "curtsies/termformatconstants.py", C + ":<module>", "%s inverts %s" % (inv, fwd), ok,
               "%s is not the inverse of %s: %s vs %s" % (inv, fwd, b, a))
    for name, want in (("RESET_ALL", 0), ("RESET_FG", 39), ("RESET_BG", 49)):
        v = fold.const(C, name, int)
        rep.ob("R4-reset-codes", "curtsies/termformatconstants.py", C + ":<module>", "%s = %d" % (name, v), v == want,
               "%s must be SGR %d" % (name, want))
    fgc = fold.const(C, "FG_COLORS", dict)
    bgc = fold.const(C, "BG_COLORS", dict)
    sty = fold.const(C, "STYLES", dict)
    rep.ob("R4-code-tables", "curtsies/termformatconstants.py", C + ":<module>", "FG 30-37, BG 40-47, same colour names",
           sorted(fgc.values()) == list(range(30, 38)) and sorted(bgc.values()) == list(range(40, 48)) and
           all(bgc.get(k) == v + 10 for k, v in fgc.items()),
           "colour tables are not 30-37/40-47 over the same names: %s %s" % (fgc, bgc))
    rep.ob("R4-code-tables", "curtsies/termformatconstants.py", C + ":<module>", "STYLES = %s" % sty,
           sty == {sgr.STYLE_NAME[c]: c for c in sgr.STYLE_CODES},
           "style table differs from ECMA-48: %s" % sty)
    return fgc, bgc, sty


def check(src, rep):
    rep.explanation = EXPLANATION
    rep.not_decided = NOT_DECIDED
    rep.assumptions = ["ECMA-48 SGR subset as encoded in sa/sgr.py", "re.match semantics (leftmost, lazy/greedy quantifiers)"]
    rep.trusted_base = ["CPython ast and re._parser modules", "sa/consteval.py", "sa/absint.py", "sa/regexast.py (NFA/DFA)", "sa/sgr.py"]
    fold = Folder(src, fuel=10 ** 10)
    counts = {}
    names = rep.guard(rule_r4, src, rep, fold, counts)
    if names is None:
        return
    try:
        writer, reader, fsf = Writer(src, fold), Reader(src, fold), FromStrFold(src, fold)
    except AnalysisError as e:
        rep.errors.append(str(e))
        return
    rep.guard(rule_r1, src, rep, fold, reader, names, counts)
    rep.guard(rule_r2, src, rep, fold, fsf, names, counts)
    rep.guard(rule_r3, src, rep, fold, writer, reader, fsf, names, counts)
    rep.guard(tokenizer.rules_tokenizer, src, rep, fold, "R5", counts)
    rep.guard(tokenizer.rules_parse_loop, src, rep, "R6")
    from .c01 import cache_coherence
    rep.guard(cache_coherence, src, rep)
    rep.extracted["counts"] = counts
    rep.floor("supported SGR codes read", counts.get("supported_codes", 0), 25)
    rep.floor("round-trip attribute sets", counts.get("round_trip_sets", 0), 5184)
    rep.floor("tokenizer patterns", counts.get("tokenizer_patterns", 0), 2)
