"""C19 - equality, hashing and repr of FmtStr are coherent with what it displays (DESIGN.md section 3, C19: H1, H2)."""
import ast
import itertools

from .. import sgr
from ..absint import FoldedRaise
from ..consteval import Unknown
from ..objinterp import Obj, ObjInterp
from ..report import AnalysisError
from .c14 import mk, runs_of

EXPLANATION = (
    "Object-aware abstract interpretation of FmtStr.__eq__/__hash__/__repr__ (and what they call: __str__, Chunk.__str__, "
    "color_str, repr_part, the fmtfuncs helpers, fmtstr, parse_args, __add__) on a pool of model values built from the "
    "package's constant tables.  H1: for every ordered pair of a pool of FmtStr values (same text/different formatting, "
    "same display/different run boundaries, empty runs, False-valued attributes) f == g must equal str(f) == str(g); "
    "for every pool value and every plain string of a pool (its own terminal string, its bare text, another value's "
    "terminal string) f == s and s == f (reflected) must both equal str(f) == s; hash(f) must be the hash of the same "
    "string that equality compares (hash taken symbolically as hash-of(<value>)); __eq__ with a foreign type returns "
    "NotImplemented.  H2: repr(f) for every attribute set of a domain (all 3^6 style states with and without colours, "
    "every colour) and for multi-run values is parsed as a Python expression over fmtfuncs names, string literals, calls "
    "and +, and evaluated through the same interpreted fmtfuncs/fmtstr code: the result must have the same characters and "
    "the same effective formatting per character."
)
NOT_DECIDED = "repr of texts whose repr() is not a plain literal is delegated to Python's repr(str); pools are finite samples of run layouts (<= 3 runs)."


def per_char(obj):
    if isinstance(obj, str):
        return [(ch, ()) for ch in obj]      # a plain str: its characters, unformatted
    out = []
    for t, a in runs_of(obj):
        eff = tuple(sorted((k, v) for k, v in a.items() if v))
        for ch in t:
            out.append((ch, eff))
    return out


def pool(it):
    P = []
    P.append(("plain 'hello'", mk(it, ("hello", {}))))
    P.append(("red 'hello'", mk(it, ("hello", {"fg": 31}))))
    P.append(("blue 'hello'", mk(it, ("hello", {"fg": 34}))))
    P.append(("red 'hel'+'lo'", mk(it, ("hel", {"fg": 31}), ("lo", {"fg": 31}))))
    P.append(("red 'hello' + empty run", mk(it, ("hello", {"fg": 31}), ("", {}))))
    P.append(("empty bold run + red 'hello'", mk(it, ("", {"bold": True}), ("hello", {"fg": 31}))))
    P.append(("red bold=False 'hello'", mk(it, ("hello", {"fg": 31, "bold": False}))))
    P.append(("bold red 'hello'", mk(it, ("hello", {"fg": 31, "bold": True}))))
    P.append(("on_blue 'hello'", mk(it, ("hello", {"bg": 44}))))
    P.append(("'he'+red 'llo'", mk(it, ("he", {}), ("llo", {"fg": 31}))))
    P.append(("no runs", it.new("formatstring", "FmtStr")))
    P.append(("one empty run", mk(it, ("", {}))))
    P.append(("red 'hellp'", mk(it, ("hellp", {"fg": 31}))))
    P.append(("newline text", mk(it, ("a\nb", {"underline": True}))))
    # many runs (round 10): the same characters in six runs, with and without an empty formatted run among them
    R, B = {"fg": 31}, {"fg": 34}
    six = [("h", R), ("e", B), ("l", R), ("l", B), ("o", R), ("!", B)]
    P.append(("'hello!' in six runs red / blue", mk(it, *six)))
    P.append(("'hello!' in six runs red / blue with an empty bold run inside", mk(it, *(six[:3] + [("", {"bold": True})] + six[3:]))))
    P.append(("'hello!' in six runs red / blue, the fourth run red", mk(it, *(six[:3] + [("l", R)] + six[4:]))))
    return P


def _str_of(it, obj):
    r = it.call1("formatstring", "FmtStr.__str__", obj)
    if r[0] != "ok" or not isinstance(r[1], str):
        raise AnalysisError("FmtStr.__str__ outside the evaluated subset: %s" % (r,))
    return r[1]


def rule_h1(src, rep, it, counts):
    f_eq = src.func("formatstring", "FmtStr.__eq__")
    f_hash = src.func("formatstring", "FmtStr.__hash__")
    P = pool(it)
    strs = {name: _str_of(it, o) for name, o in P}
    n = 0
    bad = 0
    for (na, a), (nb, b) in itertools.product(P, repeat=2):
        n += 1
        want = strs[na] == strs[nb]
        try:
            got = it.folder.v_compare(ast.Eq(), a, b)
            ne = it.folder.v_compare(ast.NotEq(), a, b)
        except FoldedRaise as e:
            got = ne = "raises %s" % e.name
        except Unknown as e:
            raise AnalysisError("FmtStr.__eq__ outside the evaluated subset: %s" % e)
        rep.case(want)
        if got != want or ne == want:
            bad += 1
            if bad <= 3:
                rep.ob("H1-eq-iff-same-terminal-string", f_eq.where(), f_eq.scope, "(%s) == (%s)" % (na, nb), False,
                       "== gives %s (!= gives %s) but the terminal strings are %s" % (got, ne, "equal" if want else "different"),
                       witness={"left": na, "right": nb, "str_left": strs[na], "str_right": strs[nb]})
    if not bad:
        rep.ob("H1-eq-iff-same-terminal-string", f_eq.where(), f_eq.scope, "%d ordered pairs of pool values" % n, True)
    counts["eq_pairs"] = n
    # plain strings, both operand orders
    m = bad = 0
    texts = {"hello", "", "a\nb"}
    for (na, a) in P:
        cands = {strs[na], "hello", "", strs["red 'hello'"], strs["plain 'hello'"], "a\nb", strs["bold red 'hello'"]}
        for s in sorted(cands):
            m += 1
            want = strs[na] == s
            for order, (l, r) in (("f == s", (a, s)), ("s == f", (s, a))):
                try:
                    got = it.folder.v_compare(ast.Eq(), l, r)
                except FoldedRaise as e:
                    got = "raises %s" % e.name
                except Unknown as e:
                    raise AnalysisError("FmtStr.__eq__ with str outside the evaluated subset: %s" % e)
                rep.case(want)
                if got != want:
                    bad += 1
                    if bad <= 3:
                        rep.ob("H1-eq-plain-str-both-orders", f_eq.where(), f_eq.scope, "%s with f = %s, s = %r" % (order, na, s), False,
                               "%s gives %s but str(f) %s s" % (order, got, "==" if want else "!="),
                               witness={"f": na, "s": s, "str_f": strs[na]})
    if not bad:
        rep.ob("H1-eq-plain-str-both-orders", f_eq.where(), f_eq.scope, "%d (value, plain str) pairs x 2 operand orders" % m, True)
    counts["eq_str_pairs"] = m
    # hash coherent with equality
    bad = 0
    for na, a in P:
        r = it.call1("formatstring", "FmtStr.__hash__", a)
        if r[0] == "opaque":
            raise AnalysisError("FmtStr.__hash__ outside the evaluated subset: %s" % r[1])
        want = ("hash-of", strs[na])
        rep.case(True)
        if r != ("ok", want):
            bad += 1
            if bad <= 2:
                rep.ob("H1-hash-of-what-eq-compares", f_hash.where(), f_hash.scope, "hash(%s)" % na, False,
                       "hash(f) is %s; f == str(f) holds, so it must be hash(%r): equal values hash differently and a FmtStr "
                       "is not found under its own terminal string in a dict/set" % (r[1] if r[0] == "ok" else r, strs[na]),
                       witness={"f": na, "hash": str(r), "str_f": strs[na]})
    if not bad:
        rep.ob("H1-hash-of-what-eq-compares", f_hash.where(), f_hash.scope, "%d pool values" % len(P), True)
    # foreign types
    for other in (5, None, 1.5, ("a",)):
        r = it.call1("formatstring", "FmtStr.__eq__", P[1][1], other)
        if r[0] == "opaque":
            raise AnalysisError("FmtStr.__eq__ outside the evaluated subset: %s" % r[1])
        rep.ob("H1-eq-foreign-type-NotImplemented", f_eq.where(), f_eq.scope, "FmtStr.__eq__(f, %r)" % (other,),
               r == ("ok", NotImplemented), "must return NotImplemented for a foreign type; got %s" % (r,))


def eval_repr(it, text):
    """Evaluate a repr string as an expression over the fmtfuncs namespace with the interpreted helpers."""
    try:
        tree = ast.parse(text, mode="eval")
    except SyntaxError as e:
        return ("syntax", str(e))
    env = dict(it.folder.module("fmtfuncs"))
    for n in ast.walk(tree):
        if not isinstance(n, (ast.Expression, ast.Call, ast.Name, ast.Load, ast.Constant, ast.BinOp, ast.Add)):
            return ("syntax", "unexpected %s in repr" % type(n).__name__)
    missing = sorted({n.id for n in ast.walk(tree) if isinstance(n, ast.Name) and n.id not in env})
    if missing:
        return ("raise", "NameError (fmtfuncs defines no %s)" % ", ".join(missing))
    try:
        return ("ok", it.folder.expr(tree.body, env))
    except FoldedRaise as e:
        return ("raise", e.name)
    except Unknown as e:
        return ("unknown", str(e))


def rule_h2(src, rep, it, counts):
    f = src.func("formatstring", "FmtStr.__repr__")
    g = src.func("formatstring", "Chunk.repr_part")
    names = [sgr.STYLE_NAME[c] for c in sgr.STYLE_CODES]
    sets = []
    for sv in itertools.product((None, True, False), repeat=6):
        st = {n: v for n, v in zip(names, sv) if v is not None}
        sets.append(dict(st, fg=31, bg=44))
        if rep.tier == "thorough" or sum(v is not None for v in sv) <= 2:
            sets.append(dict(st))
    for c in range(30, 38):
        sets.append({"fg": c})
        sets.append({"bg": c + 10})
        sets.append({"fg": c, "bg": 47 - (c - 30)})
    n = bad = 0
    for a in sets:
        n += 1
        obj = mk(it, ("hi", a))
        r = it.call1("formatstring", "FmtStr.__repr__", obj)
        if r[0] == "opaque":
            raise AnalysisError("FmtStr.__repr__ outside the evaluated subset: %s" % r[1])
        problem = None
        if r[0] != "ok" or not isinstance(r[1], str):
            problem = "repr %s" % (r,)
        else:
            v = eval_repr(it, r[1])
            if v[0] == "unknown":
                raise AnalysisError("evaluating the repr %r is outside the evaluated subset: %s" % (r[1], v[1]))
            if v[0] != "ok" or not isinstance(v[1], (Obj, str)):
                problem = "repr %r does not evaluate to a FmtStr: %s" % (r[1], v)
            elif per_char(v[1]) != per_char(obj):
                problem = "repr %r evaluates to characters/formatting %s, the value has %s" % (r[1], per_char(v[1])[:1], per_char(obj)[:1])
        rep.case(any(a.values()), {"attributes": a, "repr": r[1]} if n % 311 == 1 and r[0] == "ok" else None)
        if problem:
            bad += 1
            if bad <= 3:
                rep.ob("H2-repr-evaluates-to-same-value", g.where(), g.scope, "run with attributes %s" % a, False, problem,
                       witness={"attributes": a, "repr": r[1] if r[0] == "ok" else str(r)})
    if not bad:
        rep.ob("H2-repr-evaluates-to-same-value", g.where(), g.scope, "%d attribute sets" % n, True)
    counts["repr_sets"] = n
    # multi-run values
    multi = [
        [("a", {"fg": 31}), ("b", {}), ("c", {"bg": 44, "bold": True})],
        [("it's", {"underline": True}), ('say "x"', {"fg": 32})],
        [("x", {"fg": 31, "bold": False}), ("\n", {}), ("\ty", {"invert": True, "dark": True})],
        [("", {"fg": 31}), ("z", {"blink": True})],
        [("", {})],
        [("", {"fg": 31})],
        [("", {"bg": 44}), ("", {})],
        [("abc", {}), ("", {"bold": True})],
        [("the quick brown fox jumps over the lazy dog, twice: " * 2, {"fg": 31})],
        [("x" * 300, {}), ("y" * 40, {"underline": True})],
        # texts that hold an escape character without being an escape sequence (built without parsing, e.g. by + or copy_with_new_str)
        [("key: ", {"fg": 31}), ("\x1bOP", {})],
        [("a\x9b1mb", {"fg": 31, "bold": True})],
        [("tail\x1b", {"bg": 44})],
    ]
    for runs in multi:
        obj = mk(it, *runs)
        r = it.call1("formatstring", "FmtStr.__repr__", obj)
        ok = False
        why = str(r)
        if r[0] == "ok" and isinstance(r[1], str):
            v = eval_repr(it, r[1])
            if v[0] == "unknown":
                raise AnalysisError("evaluating the repr %r is outside the evaluated subset: %s" % (r[1], v[1]))
            ok = v[0] == "ok" and isinstance(v[1], (Obj, str)) and per_char(v[1]) == per_char(obj)
            why = "repr %r evaluates to %s, the value is %s" % (r[1], per_char(v[1]) if v[0] == "ok" and isinstance(v[1], (Obj, str)) else v, per_char(obj))
        rep.ob("H2-repr-multi-run", f.where(), f.scope, "runs %s" % runs, ok, why)


def rule_h6(src, rep, it, counts):
    """repr is an expression over the fmtfuncs names: it has to evaluate to the same value whatever those helpers were called with
    before in the same process (a helper that remembers an extra style from an earlier call makes every later repr lie)."""
    g = src.func("formatstring", "Chunk.repr_part")
    env = it.folder.module("fmtfuncs")
    for name, extra in (("red", ("bold",)), ("on_blue", ("underline",)), ("bold", ("green",)), ("red", ("blink", "green", "yellow"))):
        p = env.get(name)
        if p is None:
            continue
        try:
            it.folder.v_call(p, ["careful"] + list(extra), {}, None, {})
        except FoldedRaise:
            pass
        except Unknown as e:
            raise AnalysisError("fmtfuncs.%s%r outside the evaluated subset: %s" % (name, extra, e))
    bad = None
    for a in ({"fg": 31}, {"bg": 44}, {"bold": True}, {"fg": 31, "bg": 44, "bold": True}):
        obj = mk(it, ("hi", a))
        r = it.call1("formatstring", "FmtStr.__repr__", obj)
        v = eval_repr(it, r[1]) if r[0] == "ok" and isinstance(r[1], str) else r
        if v[0] == "unknown":
            raise AnalysisError("evaluating the repr %r is outside the evaluated subset: %s" % (r[1], v[1]))
        rep.case(True)
        if v[0] != "ok" or not isinstance(v[1], (Obj, str)) or per_char(v[1]) != per_char(obj):
            bad = bad or ("run with attributes %s" % a, "after red('careful', 'bold'), on_blue('careful', 'underline'), ... in the same process, repr %r evaluates to %s, the value has %s"
                          % (r[1] if r[0] == "ok" else r, per_char(v[1])[:1] if v[0] == "ok" and isinstance(v[1], (Obj, str)) else v, per_char(obj)[:1]))
    rep.ob("H2-repr-evaluates-to-same-value-after-other-helper-calls", g.where(), g.scope, bad[0] if bad else "4 attribute sets after helper calls with extra names", not bad, bad[1] if bad else "")


def rule_h5(src, rep, it, counts):
    """Values arrived at through a history: equal to, hashing like, and repr-evaluating to a freshly built value with the same runs."""
    from ..derive import derived_values
    f_eq = src.func("formatstring", "FmtStr.__eq__")
    dv = derived_values(it)
    bad = []
    for how, d in dv:
        rep.case(True)
        if isinstance(d, tuple):
            bad.append((how, d[1]))
            continue
        runs = runs_of(d)
        twin = mk(it, *runs)
        try:
            eq = it.folder.v_compare(ast.Eq(), d, twin)
            eq2 = it.folder.v_compare(ast.Eq(), twin, d)
        except FoldedRaise as e:
            eq = eq2 = "raises %s" % e.name
        except Unknown as e:
            raise AnalysisError("FmtStr.__eq__ outside the evaluated subset: %s" % e)
        h1, h2 = it.callm(d, "__hash__"), it.callm(twin, "__hash__")
        if "opaque" in (h1[0], h2[0]):
            raise AnalysisError("FmtStr.__hash__ outside the evaluated subset: %s" % (h1,))
        if eq is not True or eq2 is not True:
            bad.append((how, "it has the runs %s but does not compare equal to a freshly built value with the same runs (== gives %s / %s): "
                             "its terminal string is %r, the twin's %r" % (runs, eq, eq2, _str_of(it, d), _str_of(it, twin))))
            continue
        if h1 != h2:
            bad.append((how, "it equals a freshly built value with the same runs but hashes differently"))
            continue
        if any(t for t, _ in runs):
            r = it.callm(d, "__repr__")
            if r[0] == "ok" and isinstance(r[1], str) and not any("\x1b" in t or "\x9b" in t for t, _ in runs):
                v = eval_repr(it, r[1])
                if v[0] == "unknown":
                    raise AnalysisError("evaluating the repr %r is outside the evaluated subset: %s" % (r[1], v[1]))
                if v[0] != "ok" or not isinstance(v[1], (Obj, str)) or per_char(v[1]) != per_char(d):
                    bad.append((how, "its repr %r evaluates to %s, the value has %s" % (r[1], per_char(v[1]) if v[0] == "ok" and isinstance(v[1], (Obj, str)) else v, per_char(d))))
    counts["derived_values"] = len(dv)
    if bad:
        bad.sort(key=lambda x: len(x[0]))
        rep.ob("H5-derived-values-equal-their-fresh-twin", f_eq.where(), f_eq.scope, "==, hash and repr of every value of the derived pool", False,
               "%s: %s (%d of %d derived values)" % (bad[0][0], bad[0][1], len(bad), len(dv)), witness={"made by": bad[0][0]})
    else:
        rep.ob("H5-derived-values-equal-their-fresh-twin", f_eq.where(), f_eq.scope, "==, hash and repr of every value of the derived pool", True)


def check(src, rep):
    rep.explanation = EXPLANATION
    rep.not_decided = NOT_DECIDED
    rep.assumptions = ["str.__eq__ returns NotImplemented for a non-str so that Python tries the reflected FmtStr.__eq__",
                       "hash() is a function of the value of its argument"]
    rep.trusted_base = ["CPython ast", "sa/consteval.py", "sa/absint.py", "sa/objinterp.py"]
    it = ObjInterp(src)
    counts = {}
    rep.guard(rule_h1, src, rep, it, counts)
    rep.guard(rule_h2, src, rep, it, counts)
    rep.guard(rule_h5, src, rep, it, counts)
    rep.guard(rule_h6, src, rep, it, counts)
    from .c01 import cache_coherence
    rep.guard(cache_coherence, src, rep)
    rep.extracted["counts"] = counts
    rep.floor("equality pairs", counts.get("eq_pairs", 0), 190)
    rep.floor("repr attribute sets", counts.get("repr_sets", 0), 700)
