"""C02 - FullscreenWindow: after every render the screen equals the array (DESIGN.md section 3, C02: P1..P11)."""
import ast

from ..report import AnalysisError
from ..srcmodel import unparse
from . import render

EXPLANATION = (
    "Path rules over terminal-effect tokens of FullscreenWindow.render_to_terminal (every write is classified by the "
    "blessed capability it names: MOVE, TEXT, CLEAR_EOL, CLEAR_BOL ...; an unclassifiable write is a violation of the "
    "whitelist).  P1 every drawn row is move(row,0), text, then clear_eol exactly when len(line) < width (pending-wrap "
    "column); P2 every pass through the row loop - drawn or skipped - records current[row] = line; P3 a row is skipped "
    "only under equality with the cached content of the same row; P4/P5 rows below the array are blanked (move, clear_eol, "
    "clear_bol, recorded as None) unless a non-empty cache has no entry for them; P7 the cache is dropped when height OR "
    "width differs from the last render's and each dimension is recorded under its own name (argument -> parameter -> "
    "stored attribute dataflow); P8 the per-call record starts empty and becomes the cache after the loops, unconditionally, "
    "and nobody else writes the cache; P9 the last cursor movement is move(*cursor_pos); P10 writes are bounded by the "
    "terminal size: at most `height` rows are iterated and the text written is cut to `width` (never scrolls, shows the "
    "top-left part); P11 the comparison used by P3 is FmtStr.__eq__, which must compare terminal strings, plain str "
    "included (C19's rule H1, re-run here on its value pool)."
)
NOT_DECIDED = ("what the terminal does with the tokens (blessed capability strings and terminal semantics are external); "
               "multi-column characters; exceptions raised in the middle of a render.")


def check(src, rep):
    rep.explanation = EXPLANATION
    rep.not_decided = NOT_DECIDED
    rep.assumptions = ["blessed capabilities do what their names say; xterm pending-wrap semantics at the last column",
                       "the for_stdout transform is str()"]
    rep.trusted_base = ["CPython ast", "sa/cfg.py (path enumeration, feasibility)", "sa/rules/render.py"]
    counts = {}
    rep.guard(rule_render, src, rep, counts)
    rep.guard(rule_eq, src, rep, counts)
    rep.extracted["counts"] = counts
    rep.floor("row loops", counts.get("loops", 0), 2)
    rep.floor("loop-body paths", counts.get("paths", 0), 4)


def rule_render(src, rep, counts):
    f = src.func("window", "FullscreenWindow.render_to_terminal")
    h, w = render.size_locals(f)
    tf = render.text_funcs(src, f)
    # the stdout transform is str()
    x = src.func("window", "BaseWindow.fmtstr_to_stdout_xform")
    inner = [g for (m, qn), g in src.funcs.items() if m == "window" and g.outer is x]
    ok = len(inner) == 1 and len([n for n in inner[0].own_nodes() if isinstance(n, ast.Return)]) == 1 and \
        unparse([n for n in inner[0].own_nodes() if isinstance(n, ast.Return)][0].value) == "str(%s)" % inner[0].params()[0]
    rep.ob("P1-text-is-terminal-string", x.where(), x.scope, "for_stdout(s) = str(s)", ok,
           "what is written for a row must be its terminal string str(row)")
    loops = [n for n in f.node.body if isinstance(n, ast.For)]
    if len(loops) != 2:
        raise AnalysisError("FullscreenWindow.render_to_terminal: expected two top-level row loops, found %d" % len(loops))
    content, blank = loops
    counts["loops"] = len(loops)
    # current dict
    recs = [n for n in ast.walk(content) if isinstance(n, ast.Assign) and isinstance(n.targets[0], ast.Subscript)]
    if not recs:
        raise AnalysisError("content loop records nothing")
    current = unparse(recs[0].targets[0].value)
    # loop headers
    it = content.iter
    tgt = content.target
    if not (isinstance(tgt, ast.Tuple) and len(tgt.elts) == 2 and isinstance(it, ast.Call) and unparse(it.func) == "enumerate"
            and len(it.args) == 1):
        raise AnalysisError("content loop is not `for row, line in enumerate(<array>)`: %s" % unparse(it))
    rowvar, linevar = unparse(tgt.elts[0]), unparse(tgt.elts[1])
    arr = f.params()[1]
    src_txt = unparse(it.args[0])
    rows_bounded = src_txt in ("%s[:%s]" % (arr, h), "%s[0:%s]" % (arr, h))
    # alternative idiom: `if row >= height: break` as first statement
    first = content.body[0] if content.body else None
    if isinstance(first, ast.If) and unparse(first.test) in ("%s >= %s" % (rowvar, h), "%s <= %s" % (h, rowvar)) and \
            any(isinstance(s, ast.Break) for s in first.body) and src_txt == arr:
        rows_bounded = True
    rep.ob("P10-rows-bounded-by-height", f.where(content), f.scope, "for %s in %s" % (unparse(tgt), unparse(it)),
           rows_bounded and src_txt.startswith(arr),
           "the content loop writes every row of the array; rows beyond the terminal height are addressed past the last line "
           "(the terminal clamps them onto the bottom row, which then shows the wrong row) - only the first `%s` rows fit" % h,
           witness={"history": "render an array with height+2 rows on a height-row terminal: the bottom screen row shows array row height+1"})
    nd, ns = render.check_content_loop(rep, f, content, rowvar, linevar, w, current, tf, "", bounded_text=None)
    # P10 width: the TEXT argument is cut to the width
    texts = []
    for n in ast.walk(content):
        if isinstance(n, ast.Expr):
            t = render.token_of(n, tf)
            if t and t[0] == "TEXT":
                texts.append((n, t[1]))
    for n, a in texts:
        ok = unparse(a) in ("%s[:%s]" % (linevar, w), "%s[0:%s]" % (linevar, w))
        rep.ob("P10-text-bounded-by-width", f.where(n), f.scope, unparse(n), ok,
               "a row longer than the terminal width is written whole: it wraps onto the next screen row (and on the last row "
               "scrolls the screen); only the first `%s` cells fit" % w,
               witness={"history": "render a row of width+2 characters on the last screen row: the screen scrolls"})
    # blank loop
    bi = blank.iter
    ok = isinstance(bi, ast.Call) and unparse(bi.func) == "range" and len(bi.args) == 2 and unparse(bi.args[0]) == "len(%s)" % arr and \
        unparse(bi.args[1]) == h and isinstance(blank.target, ast.Name)
    rep.ob("P4-blank-range", f.where(blank), f.scope, "for %s in %s" % (unparse(blank.target), unparse(bi)), ok,
           "the rows to blank are exactly range(len(array), height)")
    render.check_blank_loop(rep, f, blank, unparse(blank.target), current, tf, "")
    from ..cfg import enumerate_paths
    counts["paths"] = len(enumerate_paths(content.body)) + len(enumerate_paths(blank.body))
    render.check_invalidation(src, rep, f, h, w, content, "")
    render.check_commit(src, rep, f, current, loops, "")
    counts["cache_writers"] = render.who_writes_cache(src, rep, "")
    # P9: last cursor-moving token at top level is move(*cursor_pos)
    toks = []
    for st in f.node.body:
        t = render.token_of(st, tf)
        if t is not None:
            toks.append((st, t))
    moves = [(st, t) for st, t in toks if t[0] in ("MOVE", "MOVE_X", "MOVE_DOWN", "MOVE_UP", "HOME", "TEXT", "CLEAR_EOL", "CLEAR_BOL",
                                                    "CLEAR_EOS", "CLEAR_ALL", "OTHER", "SCROLL")]
    cp = f.params()[2]
    ok = bool(moves) and moves[-1][1] == ("MOVE", "*" + cp) and moves[-1][0].lineno > blank.lineno
    rep.ob("P9-cursor-placed-last", f.where(moves[-1][0]) if moves else f.where(), f.scope,
           render._show([t for _, t in moves[-2:]]), ok,
           "after all rows are written the cursor must be moved to cursor_pos and nothing may move it afterwards")
    for st, t in toks:
        if t[0] == "OTHER":
            rep.ob("P0-known-terminal-effects-only", f.where(st), f.scope, unparse(st), False,
                   "a write whose effect on the screen is not one of the modelled capabilities")
    for n in f.own_nodes():
        if isinstance(n, ast.Expr) and render.token_of(n, tf) == ("SCROLL",):
            rep.ob("P10-never-scrolls", f.where(n), f.scope, unparse(n), False, "FullscreenWindow must never scroll the screen")


def rule_eq(src, rep, counts):
    """P11: the row cache relies on FmtStr.__eq__ comparing what would be displayed - C19's H1, re-run on its pool."""
    from ..objinterp import ObjInterp
    from . import c19
    from ..report import Report
    it = ObjInterp(src)
    tmp = Report("C02", rep.tier, rep.repo)
    c19.rule_h1(src, tmp, it, {})
    for o in tmp.obligations:
        if o.rule.startswith("H1-eq"):
            o.rule = "P11-" + o.rule
            rep.obligations.append(o)
    rep.model_cases += tmp.model_cases
    rep.model_nontrivial += tmp.model_nontrivial
