"""C02 - FullscreenWindow: after every render the screen equals the array (DESIGN.md section 3, C02)."""
import itertools

from .. import sgr, termmodel
from ..fold import new_interp
from ..models import cells, runs_of
from ..objinterp import Obj
from ..report import AnalysisError
from ..winmodel import Rig

EXPLANATION = (
    "FullscreenWindow (its own __init__, __enter__, render_to_terminal, on_terminal_size_change, write ... and everything "
    "they call in formatstring / formatstringarray) is abstractly interpreted with blessed.Terminal replaced by a stub "
    "whose capabilities are xterm control strings; every string the window writes is fed to an independent reference "
    "model of the terminal (sa/termmodel.py: cursor addressing with clamping, deferred autowrap at the last column, line "
    "feed scrolling, erase with the current background, SGR through the ECMA-48 machine, alternate screen).  For a "
    "catalogue of terminal sizes, arrays (FSArray, lists of FmtStr, lists of str; heights 0 .. beyond the screen, row "
    "lengths 0 .. beyond the width, full-width rows, rows that differ only in formatting, formatted blanks) and histories "
    "(for every ordered pair of arrays A, B: A, A again, B, A; with and without a resize to a different size - height "
    "only, width only, both - that leaves junk in every cell and the cursor elsewhere; hide_cursor on and off) the model "
    "screen after each render is compared cell by cell (character and formatting) with the array's top-left part, every "
    "other cell blank and unformatted, the cursor at cursor_pos, and no line scrolled.  P11: the row cache relies on "
    "FmtStr.__eq__ comparing what would be displayed (C19's rule re-run here); the cache-coherence rules of C13 are "
    "re-run on the window classes."
)
NOT_DECIDED = ("histories longer than three renders and terminals larger than the catalogue's (bounded claim: the code's only "
               "cross-render state is the row cache and the two remembered dimensions, which pairs of renders exhaust for the "
               "catalogue's arrays); multi-column characters; what a real terminal does with the control strings (the reference "
               "model is an assumption); exceptions raised in the middle of a render.")

JUNK = ("#", (35, 44, frozenset({1})))


def expected_cells(row):
    """[(char, SGR state)] a row value (FmtStr model object or str) shows."""
    if isinstance(row, str):
        return termmodel.cells_of_text([(ch, sgr.DEFAULT) for ch in row])
    out = []
    for ch, eff in cells(runs_of(row)):
        d = dict(eff)
        styles = {k: v for k, v in d.items() if k not in ("fg", "bg")}
        out.append((ch, sgr.expected_state(d.get("fg"), d.get("bg"), styles)))
    return termmodel.cells_of_text(out)


def rows_of(array):
    if isinstance(array, Obj) and array.cls == "FSArray":
        return list(array.fields["rows"])
    return list(array)


def expected_screen(array, h, w):
    rows = rows_of(array)
    out = []
    for r in range(h):
        line = expected_cells(rows[r])[:w] if r < len(rows) else []
        out.append(line + [termmodel.BLANK] * (w - len(line)))
    return out


def show(grid):
    return ["".join(ch for ch, _ in row) + ("" if all(st == sgr.DEFAULT for _, st in row) else
                                            " /" + "".join("." if st == sgr.DEFAULT else "^" for _, st in row)) for row in grid]


def first_difference(got, want):
    for r, (g, w) in enumerate(zip(got, want)):
        for c, (a, b) in enumerate(zip(g, w)):
            if a != b:
                def d(cell):
                    ch, (fg, bg, st) = cell
                    return "%r fg=%s bg=%s styles=%s" % (ch, fg, bg, sorted(sgr.STYLE_NAME.get(x, x) for x in st))
                return "; first difference at row %d column %d: shown %s, expected %s" % (r, c, d(a), d(b))
    return ""


class Pool:
    def __init__(self, it):
        self.it = it

    def fs(self, s, *args, **kw):
        r = self.it.call1("formatstring", "fmtstr", s, *args, **kw)
        if r[0] != "ok":
            raise AnalysisError("fmtstr(%r, %r, %r) not evaluable: %s" % (s, args, kw, r))
        return r[1]

    def cat(self, a, b):
        r = self.it.callm(a, "__add__", b)
        if r[0] != "ok":
            raise AnalysisError("FmtStr + FmtStr not evaluable: %s" % (r,))
        return r[1]

    def cat_all(self, parts):
        out = parts[0]
        for p in parts[1:]:
            out = self.cat(out, p)
        return out

    def arrays(self, h, w, tier):
        fs, cat = self.fs, self.cat
        out = [
            ("[]", lambda: []),
            ("['ab']", lambda: [fs("ab"[:w])]),
            ("[red 'ab']", lambda: [fs("ab"[:w], "red")]),
            ("%d full-width rows" % h, lambda: [fs(("x" * w)) for _ in range(h)]),
            ("%d full-width rows, bold on blue" % h, lambda: [fs(("x" * w), "bold", bg="blue") for _ in range(h)]),
            ("%d rows of %d columns (beyond the screen both ways)" % (h + 2, w + 2),
             lambda: [fs("abcdefghij"[i:i + w + 2] if i % 2 else "ABCDEFGHIJ"[i:i + w + 2]) for i in range(h + 2)]),
            ("['', 'a'] + blanks on green", lambda: [fs(""), cat(fs("a"), fs(" " * (w - 1), bg="green")) if w > 1 else fs("a")]),
            ("str rows ['ab', 'c']", lambda: ["ab"[:w], "c"]),
            ("fsarray(['a', '', 'abc'])", lambda: self.fsarray(["a", "", "abc"[:w]], w)),
            ("one cell per style, then colours", lambda: [
                self.cat_all([fs("b", bold=True), fs("d", dark=True), fs("i", italic=True), fs("u", underline=True), fs("k", blink=True),
                              fs("v", invert=True)][:w]),
                self.cat_all([fs("r", fg="red"), fs("g", bg="green"), fs("y", fg="yellow", bg="blue", invert=True)][:w])]),
            ("two-run rows wider than the screen", lambda: [cat(fs("ab", "red"), fs("cdefgh"[:w], "underline")) for _ in range(max(1, h - 1))]),
            # blanks whose formatting can be seen (a coloured blank shows its colour when inverted or underlined)
            ("blank runs with visible formatting", lambda: [self.cat_all([fs("a"), fs("  ", fg="red", invert=True), fs(" ", fg="blue", underline=True),
                                                                            fs(" ", fg="green", bg="yellow")]), fs("  ", fg="red", invert=True)]),
            # a row exactly as wide as the terminal that ends in plain blanks (nothing tells the terminal to erase behind it)
            ("full-width rows ending in plain blanks", lambda: [fs(("ab" + " " * w)[:w]) for _ in range(h)]),
            # the same content whatever the terminal size (what a row shows depends on the width of the moment, not of the first render)
            ("the same long rows at every size", lambda: [fs("abcdefghij"), fs("ABCDEFGHIJ", "red"), fs("0123456789", bg="blue")]),
        ]
        if tier == "thorough":
            out += [
                ("%d rows 'a'" % (h + 1), lambda: [fs("a") for _ in range(h + 1)]),
                ("[red 'ab', 'ab']", lambda: [fs("ab"[:w], "red"), fs("ab"[:w])]),
                ("['ab', red 'ab']", lambda: [fs("ab"[:w]), fs("ab"[:w], "red")]),
                ("h-1 full-width rows", lambda: [fs("y" * w) for _ in range(h - 1)]),
            ]
        return out

    def fsarray(self, strings, w):
        r = self.it.call1("formatstringarray", "fsarray", list(strings), w)
        if r[0] != "ok":
            raise AnalysisError("fsarray(%r) not evaluable: %s" % (strings, r))
        return r[1]


def _cursor(i, h, w):
    return [(0, 0), (h - 1, w - 1), (h // 2, w // 2), (0, w - 1)][i % 4]


def run_history(src_it, h, w, steps, hide_cursor):
    """steps: list of ('render', name, thunk, cursor) | ('resize', h2, w2).  Returns None or (rule, history, detail)."""
    it = src_it
    rig = Rig(it, "FullscreenWindow", h, w, init_kwargs={"hide_cursor": hide_cursor})
    scr = rig.screen
    r = rig.call("__enter__")
    if r[0] != "ok":
        return ("F0-enter", "FullscreenWindow.__enter__()", "raised %s" % (r[1],))
    trail = ["%dx%d terminal%s" % (scr.height, scr.width, "" if hide_cursor else ", hide_cursor=False")]
    for st in steps:
        if st[0] == "resize":
            scr.resize(st[1], st[2])
            scr.rows = [[JUNK] * scr.width for _ in range(scr.height)]
            scr.r, scr.c = scr.height - 1, 0
            trail.append("resize to %dx%d leaving junk" % (st[1], st[2]))
            continue
        _, name, thunk, cur = st
        array = thunk()
        cur = (min(cur[0], scr.height - 1), min(cur[1], scr.width - 1))
        scr.mark()
        r = rig.call("render_to_terminal", array, cur)
        trail.append("render %s cursor_pos=%s" % (name, cur))
        hist = "; ".join(trail)
        if r[0] != "ok":
            return ("F1-screen-equals-array", hist, "the render raised %s" % (r[1],))
        want = expected_screen(array, scr.height, scr.width)
        if scr.scrolls:
            return ("F3-never-scrolls", hist, "the screen scrolled %d line(s); it shows %s" % (scr.scrolls, show(scr.rows)))
        if scr.rows != want:
            return ("F1-screen-equals-array", hist, "the screen shows %s, the array's visible part is %s ('^' marks formatted cells)%s"
                    % (show(scr.rows), show(want), first_difference(scr.rows, want)))
        if (scr.r, scr.c) != cur or scr.pending:
            return ("F2-cursor-at-cursor-pos", hist, "the cursor is at %s%s" % ((scr.r, scr.c), " with a deferred wrap pending" if scr.pending else ""))
        if scr.alt is None:
            return ("F4-stays-on-the-alternate-screen", hist, "the window left the alternate screen")
    r = rig.call("__exit__", None, None, None)
    if r[0] != "ok":
        return ("F5-exit-restores-the-screen", "; ".join(trail) + "; __exit__", "raised %s" % (r[1],))
    if scr.alt is not None or not scr.visible:
        return ("F5-exit-restores-the-screen", "; ".join(trail) + "; __exit__",
                "after leaving the context the terminal is %s" % ("still on the alternate screen" if scr.alt is not None else "left with a hidden cursor"))
    return None


GROUPS = {
    "F0-enter": "entering the context",
    "F1-screen-equals-array": "screen after each render of the history catalogue",
    "F2-cursor-at-cursor-pos": "cursor after each render of the history catalogue",
    "F3-never-scrolls": "lines scrolled by each render of the history catalogue",
    "F4-stays-on-the-alternate-screen": "screen buffer in use during the history catalogue",
    "F5-exit-restores-the-screen": "terminal state after leaving the context",
}


def rule_semantic(src, rep, counts):
    from ..par import pmap
    it = new_interp(src)
    pool = Pool(it)
    f = src.func("window", "FullscreenWindow.render_to_terminal")
    sizes = [(3, 4), (2, 2), (1, 3)] if rep.tier == "quick" else [(3, 4), (2, 2), (1, 3), (4, 6), (1, 1), (3, 1)]
    jobs = []
    for (h, w) in sizes:
        arrs = pool.arrays(h, w, rep.tier)
        others = [(h + 1, w), (h, w + 2), (max(1, h - 1), max(1, w - 1))] + ([(w, h)] if h != w else [])
        others = [o for o in others if o != (h, w)]     # a resize is to a size different from the one last rendered at
        for (i, a), (j, b) in itertools.product(enumerate(arrs), repeat=2):
            for k, rs in enumerate([None] + others):
                if rs is not None and rep.tier == "quick" and (i + j + k) % 3:
                    continue
                hide = (i + j + k) % 2 == 0 if rep.tier == "quick" else None
                for hc in ([hide] if hide is not None else [True, False]):
                    jobs.append((h, w, i, j, rs, hc))

    for (h, w) in sizes:
        for hc in (True, False):
            jobs.append((h, w, "in place", None, None, hc))
            jobs.append((h, w, "in place", "FSArray", None, hc))

    def one(job):
        h, w, i, j, rs, hc = job
        if i == "in place" and j == "FSArray":
            # the same with ONE FSArray edited by whole-row assignment a[i] = row
            arr = pool.fsarray(["ab"[:w], "cd"[:w]][:max(1, h)], w)

            def set_row(k, row):
                r = it.call1("formatstringarray", "FSArray.__setitem__", arr, k, row)
                if r[0] != "ok":
                    raise AnalysisError("a[%d] = row gives %s" % (k, r))
                return arr
            steps = [("render", "an FSArray a", lambda: arr, (0, 0)), ("render", "the same FSArray after a[0] = bold 'xy'", lambda: set_row(0, pool.fs("xy"[:w], "bold")), (0, 0)),
                     ("render", "the same FSArray after a[0] = 'pq'", lambda: set_row(0, pool.fs("pq"[:w])), (0, 0)), ("render", "the same FSArray, unchanged", lambda: arr, (0, 0))]
            try:
                return run_history(it, h, w, steps, hc)
            except AnalysisError as e:
                return ("error", str(e), "")
        if i == "in place":
            # the caller keeps ONE list and edits it between renders: the window must show what the list holds now
            shared = [pool.fs("ab"[:w]), pool.fs("cd"[:w], "red")][:h]

            def edit1():
                shared[0] = pool.fs("xy"[:w], "bold")
                return shared

            def edit2():
                if len(shared) < h:
                    shared.append(pool.fs("ef"[:w]))
                else:
                    shared[-1] = pool.fs("gh"[:w])
                return shared
            steps = [("render", "a list L", lambda: shared, (0, 0)), ("render", "the same list after L[0] = bold 'xy'", edit1, (0, 0)),
                     ("render", "the same list after its last row was replaced / a row appended", edit2, (0, 0)),
                     ("render", "the same list, unchanged", lambda: shared, (0, 0))]
            try:
                return run_history(it, h, w, steps, hc)
            except AnalysisError as e:
                return ("error", str(e), "")
        arrs = pool.arrays(h, w, rep.tier)
        steps = [("render", arrs[i][0], arrs[i][1], _cursor(i, h, w))]
        if rs is not None:
            steps.append(("resize", rs[0], rs[1]))
            arrs2 = pool.arrays(rs[0], rs[1], rep.tier)
            steps.append(("render", arrs2[i][0], arrs2[i][1], _cursor(i + 1, rs[0], rs[1])))
            steps.append(("render", arrs2[j][0], arrs2[j][1], _cursor(j + 2, rs[0], rs[1])))
            steps.append(("render", arrs2[i][0], arrs2[i][1], _cursor(i + 3, rs[0], rs[1])))
        else:
            steps.append(("render", arrs[i][0], arrs[i][1], _cursor(i + 1, h, w)))
            steps.append(("render", arrs[j][0], arrs[j][1], _cursor(j + 2, h, w)))
            steps.append(("render", arrs[i][0], arrs[i][1], _cursor(i + 3, h, w)))
        try:
            return run_history(it, h, w, steps, hc)
        except AnalysisError as e:
            return ("error", str(e), "")
    results = pmap(one, jobs, min_chunk=8)
    bad = {}
    n = 0
    for job, res in zip(jobs, results):
        n += 1
        rep.case(True, {"terminal": job[:2], "arrays": job[2:4], "resize_to": job[4], "hide_cursor": job[5]} if n % 397 == 1 else None)
        if res is None:
            continue
        if res[0] == "error":
            raise AnalysisError(res[1])
        bad.setdefault(res[0], []).append(res[1:])
    for rule, group in GROUPS.items():
        items = bad.get(rule, [])
        if items:
            items.sort(key=lambda x: len(x[0]))
            hist, why = items[0]
            rep.ob(rule, f.where(), f.scope, group, False, "%s: %s (%d of %d histories fail this rule)" % (hist, why, len(items), n),
                   witness={"history": hist, "failing_histories": len(items)})
        else:
            rep.ob(rule, f.where(), f.scope, group, True)
    counts["histories"] = n


def check(src, rep):
    rep.explanation = EXPLANATION
    rep.not_decided = NOT_DECIDED
    rep.assumptions = ["the reference terminal model (sa/termmodel.py) describes the terminal: xterm control functions, deferred wrap at the last column",
                       "blessed returns the xterm capability strings for the capabilities the window names"]
    rep.trusted_base = ["CPython ast", "sa/consteval.py", "sa/absint.py", "sa/objinterp.py", "sa/termmodel.py", "sa/winmodel.py", "sa/sgr.py"]
    counts = {}
    rep.guard(rule_semantic, src, rep, counts)
    rep.guard(rule_eq, src, rep, counts)
    rep.guard(rule_cache, src, rep, counts)
    rep.extracted["counts"] = counts
    rep.floor("render histories", counts.get("histories", 0), 100)


def rule_eq(src, rep, counts):
    """P11: the row cache relies on FmtStr.__eq__ comparing what would be displayed - C19's H1, re-run on its pool."""
    from ..objinterp import ObjInterp
    from . import c19
    from ..report import Report
    it = ObjInterp(src)
    tmp = Report("C02", rep.tier, rep.repo)
    c19.rule_h1(src, tmp, it, {})
    for o in tmp.obligations:
        if o.rule.startswith("H1-eq"):
            o.rule = "P11-" + o.rule
            rep.obligations.append(o)
    rep.model_cases += tmp.model_cases
    rep.model_nontrivial += tmp.model_nontrivial


def rule_cache(src, rep, counts):
    """The cached rows must not go stale: C13's cache-coherence rules, re-run (a stale cached string makes the row comparison lie)."""
    from . import c13
    from ..report import Report
    tmp = Report("C02", rep.tier, rep.repo)
    c13.run_rules(src, tmp)
    k = 0
    for o in tmp.obligations:
        if o.rule.startswith(("I1", "I2", "I3", "I7")):
            o.rule = "P12-" + o.rule
            rep.obligations.append(o)
            k += 1
    if tmp.errors:
        raise AnalysisError("cache-coherence rules: %s" % tmp.errors[0])
    counts["cache_obligations"] = k
