"""C13, interpreted part: straight-line programs over a pool of FmtStr values; every earlier value is re-observed after every step."""
import itertools

from ..fold import new_interp
from ..models import cells, runs_of
from ..objinterp import Obj
from ..report import AnalysisError
from .c14 import mk

LOOKALIKES = [({"fg": 31, "bold": 0}, {"fg": 31, "bold": False}), ({"bold": 1}, {"bold": True}), ({"fg": 31}, {"fg": 31.0}),
              ({"underline": 0, "bg": 44}, {"underline": False, "bg": 44})]

GROUPS = {
    "V4-a-value-does-not-depend-on-other-values": "terminal strings of look-alike values rendered one after the other in the same process",
    "V1-earlier-values-unchanged": "observations of every earlier value after each step of the programs",
    "V2-memoised-views-equal-fresh-ones": "memoised text / length / width / terminal string vs freshly computed ones",
    "V3-formatting-not-editable-in-place": "item assignment and attribute mutation on runs",
}


def observe(it, v):
    out = []
    for what, call in (("str", lambda: it.callm(v, "__str__")), ("len", lambda: it.callm(v, "__len__")),
                       ("s", lambda: ("ok", it.folder.obj_attr(v, "s"))), ("width", lambda: ("ok", it.folder.obj_attr(v, "width"))),
                       ("repr", lambda: it.callm(v, "__repr__"))):
        try:
            r = call()
        except Exception as e:
            nm = getattr(e, "name", None)
            if nm is None:
                raise AnalysisError("observing %s of a FmtStr is outside the evaluated subset: %s" % (what, e))
            r = ("raise", nm)
        if r[0] == "opaque":
            raise AnalysisError("observing %s of a FmtStr is outside the evaluated subset: %s" % (what, r[1]))
        out.append((what, r))
    out.append(("cells", cells(runs_of(v))))
    return out


def base_pool(it):
    return [
        ("a", lambda: mk(it, ("ab", {"fg": 31}), ("cd", {"bold": True}))),
        ("b", lambda: mk(it, ("x y", {}))),
        ("c", lambda: mk(it, ("Ｅ!", {"bg": 44}))),
        ("e", lambda: mk(it, ("p", {"fg": 32}), ("", {}), ("q\nr", {"fg": 32, "underline": True}))),
        # a text that also occurs inside its own escape codes (ESC[31m ... ): code that finds a piece by searching the rendering
        ("d", lambda: mk(it, ("1m", {"fg": 31}), ("31", {"bold": True}), ("1m", {"fg": 31}))),
    ]


def _m(it, v, name, *args, **kw):
    return it.callm(v, name, *args, **kw)


def operations(it):
    """(label, number of pool operands, function(operands) -> result tuple as from callm)"""
    fs = lambda s, *a, **k: it.call1("formatstring", "fmtstr", s, *a, **k)   # noqa: E731
    return [
        ("x + y", 2, lambda x, y: _m(it, x, "__add__", y)),
        ("'s' + x", 1, lambda x: _m(it, x, "__radd__", "s")),
        ("x + 's'", 1, lambda x: _m(it, x, "__add__", "s")),
        ("x * 2", 1, lambda x: _m(it, x, "__mul__", 2)),
        ("x[1:3]", 1, lambda x: _m(it, x, "__getitem__", slice(1, 3))),
        ("x[0]", 1, lambda x: _m(it, x, "__getitem__", 0)),
        ("x[:]", 1, lambda x: _m(it, x, "__getitem__", slice(None, None))),
        ("x.splice(y, 1, 2)", 2, lambda x, y: _m(it, x, "splice", y, 1, 2)),
        ("x.splice('', 0, 1)", 1, lambda x: _m(it, x, "splice", "", 0, 1)),
        ("x.splice(y, 0)", 2, lambda x, y: _m(it, x, "splice", y, 0)),
        ("x.splice(y, 0, 1)", 2, lambda x, y: _m(it, x, "splice", y, 0, 1)),
        ("x + 'Ｈｉ'", 1, lambda x: _m(it, x, "__add__", "\uff28\uff49")),
        ("x.append('z')", 1, lambda x: _m(it, x, "append", "z")),
        ("x.setslice_with_length(1, 2, 'long', 40)", 1, lambda x: _m(it, x, "setslice_with_length", 1, 2, "long", 40)),
        ("x.setslice_with_length(len(x) + 1, len(x) + 2, 'k=1', 40)", 1, lambda x: _m(it, x, "setslice_with_length", len(it.folder.obj_attr(x, "s")) + 1, len(it.folder.obj_attr(x, "s")) + 2, "k=1", 40)),
        ("x.copy()", 1, lambda x: _m(it, x, "copy")),
        ("x.splitlines(True)", 1, lambda x: _m(it, x, "splitlines", True)),
        ("x[1:]", 1, lambda x: _m(it, x, "__getitem__", slice(1, None))),
        ("x.join([y, x])", 2, lambda x, y: _m(it, x, "join", [y, x])),
        ("x.split(' ')", 1, lambda x: _m(it, x, "split", " ")),
        ("x.splitlines()", 1, lambda x: _m(it, x, "splitlines")),
        ("x.ljust(7)", 1, lambda x: _m(it, x, "ljust", 7)),
        ("x.rjust(7, '*')", 1, lambda x: _m(it, x, "rjust", 7, "*")),
        ("x.copy_with_new_atts(bold=True)", 1, lambda x: _m(it, x, "copy_with_new_atts", bold=True)),
        ("x.new_with_atts_removed('fg')", 1, lambda x: _m(it, x, "new_with_atts_removed", "fg")),
        ("x.copy_with_new_str('new')", 1, lambda x: _m(it, x, "copy_with_new_str", "new")),
        ("x.width_aware_slice(slice(0, 2))", 1, lambda x: _m(it, x, "width_aware_slice", slice(0, 2))),
        ("list(x.width_aware_splitlines(2))", 1, lambda x: _m(it, x, "width_aware_splitlines", 2)),
        ("x.upper()", 1, lambda x: ("ok", it.folder.v_call(it.folder.obj_attr(x, "upper"), [], {}, None, {}))),
        ("fmtstr(x, 'underline')", 1, lambda x: fs(x, "underline")),
        ("fmtstr(x)", 1, lambda x: fs(x)),
        ("x == y", 2, lambda x, y: _m(it, x, "__eq__", y)),
        ("hash(x)", 1, lambda x: _m(it, x, "__hash__")),
    ]


def run_program(it, prog, observe_first):
    """prog: list of (op index, operand indices into the pool as it stands).  Returns None or (rule, description, detail)."""
    ops = operations(it)
    pool = [(n, f()) for n, f in base_pool(it)]
    recorded = {}
    trail = []
    if observe_first:
        for n, v in pool:
            recorded[id(v)] = (n, v, observe(it, v))
        trail.append("observe all")
    for oi, operands in prog:
        label, k, fn = ops[oi]
        args = [pool[i % len(pool)][1] for i in operands[:k]]
        names = [pool[i % len(pool)][0] for i in operands[:k]]
        desc = label
        for ph, nm in zip(("x", "y"), names):
            desc = desc.replace(ph, nm, 1) if ph in desc else desc
        for n, v in pool:
            if id(v) not in recorded:
                recorded[id(v)] = (n, v, observe(it, v))
        try:
            r = fn(*args)
        except Exception as e:
            nm = getattr(e, "name", None)
            if nm is None:
                raise AnalysisError("operation %s is outside the evaluated subset: %s" % (label, e))
            r = ("raise", nm)
        if r[0] == "opaque":
            raise AnalysisError("operation %s is outside the evaluated subset: %s" % (label, r[1]))
        res_name = "v%d" % len(pool)
        trail.append("%s = %s" % (res_name, desc))
        if r[0] == "ok":
            results = r[1] if isinstance(r[1], list) else [r[1]]
            for j, v in enumerate(results):
                if isinstance(v, Obj) and v.cls == "FmtStr":
                    pool.append((res_name if len(results) == 1 else "%s[%d]" % (res_name, j), v))
        # every value that existed before this step reads the same as when it was first observed
        for key, (n, v, obs) in list(recorded.items()):
            now = observe(it, v)
            if now != obs:
                diff = [w for (w, a), (_, b) in zip(obs, now) if a != b]
                return ("V1-earlier-values-unchanged", "; ".join(trail), "%s of %s changed: was %s, now %s"
                        % (diff[0], n, dict(obs)[diff[0]], dict(now)[diff[0]]))
    # memoised views of every value equal those of a freshly built equal value
    for n, v in pool:
        got = observe(it, v)
        fresh = observe(it, mk(it, *runs_of(v)))
        if got != fresh:
            diff = [w for (w, a), (_, b) in zip(got, fresh) if a != b]
            return ("V2-memoised-views-equal-fresh-ones", "; ".join(trail), "%s of %s is %s, computed afresh from its runs it is %s"
                    % (diff[0], n, dict(got)[diff[0]], dict(fresh)[diff[0]]))
    return None


def run(src, rep, counts):
    from ..par import pmap
    it = new_interp(src, check_views=True)
    f = src.func("formatstring", "FmtStr.__init__")
    nops = len(operations(it))
    npool = len(base_pool(it))
    progs = []
    # every operation on every base value (second operand: the next base value)
    for oi in range(nops):
        for i in range(npool):
            progs.append(([(oi, (i, i + 1))], True))
            progs.append(([(oi, (i, i + 1))], False))
    # every ordered pair of operations: the second works on the first one's result (and on its operand)
    for o1, o2 in itertools.product(range(nops), repeat=2):
        if rep.tier == "quick" and (o1 * 7 + o2) % 3:
            continue
        i = (o1 + o2) % npool
        progs.append(([(o1, (i, i + 1)), (o2, (npool, i))], (o1 + o2) % 2 == 0))
        progs.append(([(o1, (i, i + 1)), (o2, (i, npool))], (o1 + o2) % 2 == 1))
    if rep.tier == "thorough":
        for o1, o2, o3 in itertools.product(range(nops), repeat=3):
            if (o1 * 11 + o2 * 5 + o3) % 7:
                continue
            i = (o1 + o2 + o3) % npool
            progs.append(([(o1, (i, i + 1)), (o2, (npool, i)), (o3, (npool + 1, npool))], True))

    def one(p):
        try:
            return run_program(it, p[0], p[1])
        except AnalysisError as e:
            return ("error", str(e), "")
    results = pmap(one, progs, min_chunk=8)
    bad = {}
    n = 0
    for p, res in zip(progs, results):
        n += 1
        rep.case(True, {"program": repr(p)[:120]} if n % 197 == 1 else None)
        if res is None:
            continue
        if res[0] == "error":
            raise AnalysisError(res[1])
        bad.setdefault(res[0], []).append(res[1:])
    # what a value displays does not depend on which other values were displayed before it in the same process (a cache shared
    # between values must not confuse two values that merely compare equal: 0 == False, 1 == True, 31 == 31.0)
    def alone(a):
        i2 = new_interp(src)
        return observe(i2, mk(i2, ("ok", a)))
    for a, b in LOOKALIKES:
        want = {0: alone(a), 1: alone(b)}
        for order in ((0, 1), (1, 0)):
            i3 = new_interp(src)
            pair = (a, b)
            got = {}
            for k in order:
                got[k] = observe(i3, mk(i3, ("ok", pair[k])))
            rep.case(True)
            for k in order:
                if got[k] != want[k]:
                    diff = [w for (w, x), (_, y) in zip(got[k], want[k]) if x != y]
                    bad.setdefault("V4-a-value-does-not-depend-on-other-values", []).append(
                        ("'ok' with %s displayed %s 'ok' with %s" % (pair[k], "after" if order[1] == k else "before", pair[1 - k]),
                         "its %s is %s; displayed alone in a fresh process it is %s" % (diff[0], dict(got[k])[diff[0]], dict(want[k])[diff[0]])))
                    break
    # formatting cannot be edited in place
    def fresh():
        v = mk(it, ("ab", {"fg": 31}), ("cd", {"bold": True}))
        return v, it.folder.obj_attr(v.fields["chunks"][0], "atts")

    def set_attr(obj, name, value):
        import ast as _ast
        from ..absint import FoldedRaise
        tgt = _ast.parse("o.%s = v" % name).body[0].targets[0]
        try:
            it.folder.assign(tgt, value, {"o": obj})
        except FoldedRaise as e:
            return ("raise", e.name)
        return ("ok", None)

    def dict_call(atts, name, *args):
        # a dict subclass inherits every mutator it does not override
        if it.folder._find_method(atts, name) is not None:
            return it.callm(atts, name, *args)
        if atts.payload is None or not hasattr(atts.payload, name):
            return ("raise", "AttributeError")
        return ("ok", getattr(atts.payload, name)(*args))

    for label, call in (
            ("f[0] = 'x'", lambda v, atts: it.callm(v, "__setitem__", 0, "x")),
            ("f.chunks[0].atts |= {'fg': 34}", lambda v, atts: dict_call(atts, "__ior__", {"fg": 34})),
            ("f.chunks[0].atts['fg'] = 34", lambda v, atts: dict_call(atts, "__setitem__", "fg", 34)),
            ("f.chunks[0].atts.update(fg=34)", lambda v, atts: dict_call(atts, "update", {"fg": 34})),
            ("f.chunks[0].atts.pop('fg')", lambda v, atts: dict_call(atts, "pop", "fg")),
            ("f.chunks[0].atts.clear()", lambda v, atts: dict_call(atts, "clear")),
            ("f.chunks[0].atts.setdefault('bg', 44)", lambda v, atts: dict_call(atts, "setdefault", "bg", 44)),
            ("del f.chunks[0].atts['fg']", lambda v, atts: dict_call(atts, "__delitem__", "fg")),
            ("f.chunks[0].atts.popitem()", lambda v, atts: dict_call(atts, "popitem")),
            ("f.chunks[0].atts = {'fg': 34}", lambda v, atts: set_attr(v.fields["chunks"][0], "atts", {"fg": 34})),
            ("f.chunks[0].s = 'zz'", lambda v, atts: set_attr(v.fields["chunks"][0], "s", "zz"))):
        v, atts = fresh()
        before = observe(it, v)
        try:
            r = call(v, atts)
        except Exception as e:
            nm = getattr(e, "name", None)
            if nm is None:
                raise AnalysisError("%s is outside the evaluated subset: %s" % (label, e))
            r = ("raise", nm)
        if r[0] == "opaque":
            raise AnalysisError("%s is outside the evaluated subset: %s" % (label, r[1]))
        rep.case(True)
        # the terminal string was memoised by the observation above: recompute from the runs to see an edit
        after = observe(it, mk(it, *runs_of(v)))
        if r[0] != "raise" or after != before:
            bad.setdefault("V3-formatting-not-editable-in-place", []).append(
                (label, "%s%s" % ("raises %s" % r[1] if r[0] == "raise" else "is accepted",
                                  "" if after == before else " and the run's formatting changed")))
    for rule, group in GROUPS.items():
        items = bad.get(rule, [])
        if items:
            items.sort(key=lambda x: len(x[0]))
            d, why = items[0]
            rep.ob(rule, f.where(), f.scope, group, False, "%s: %s (%d cases fail this rule)" % (d, why, len(items)),
                   witness={"program": d, "failing": len(items)})
        else:
            rep.ob(rule, f.where(), f.scope, group, True)
    counts["programs"] = n
