"""C06 - indexing, slicing, +, * and join act like str and carry formatting along (bounded; DESIGN.md section 3, C06)."""
import itertools

from ..fold import new_interp
from ..models import cells, runs_of, view_problem
from ..objinterp import Obj
from ..report import AnalysisError
from .c14 import mk

EXPLANATION = (
    "BOUNDED, small-scope exhaustive.  FmtStr.__getitem__ / __add__ / __radd__ / __mul__ / __len__ / join (and normalize_slice, "
    "Chunk, fmtstr ... whatever they call) are abstractly interpreted on a pool of run layouts (no runs, one empty run, one to "
    "three runs with empty runs in every position, up to 4 characters, a value of 11 characters in ten runs) and compared with the SAME operation of CPython applied "
    "to the plain text (for the characters) and to the list of per-character (character, formatting) cells (for the formatting) - "
    "list and str indexing are the oracle, nothing is re-implemented: every index and every slice bound in [-len-2, len+2] and "
    "None; + with every pool value and with plain str on either side; * 0..5; join of every list of up to 3 items drawn from "
    "{'', 'x', a one-run value, a two-run value, a value without runs} for a plain, an empty and a formatted separator; len(); "
    "every operation also with operands whose memoised views (.s, len, width, terminal string) were filled beforehand; every result's own .s, "
    "len() and str() (what a terminal shows for it, through the reference SGR machine) must agree with its runs; after every operation "
    "every FmtStr operand must still hold the runs it was built from and agree with itself (L8)."
)
NOT_DECIDED = ("values longer than the pool's, slice steps (not supported by the class by design: NotImplementedError), repeat counts "
               "above 5, item lists longer than 3.")

A1, A2, A3 = {"fg": 31}, {"bg": 44, "bold": True}, {"underline": True}
A4 = {"fg": 32}
POOL = [
    ("no runs", []),
    ("one empty run", [("", {})]),
    ("'a' red", [("a", A1)]),
    ("'ab' red + 'c' on blue bold", [("ab", A1), ("c", A2)]),
    ("'a' red + '' + 'bc' on blue bold", [("a", A1), ("", {}), ("bc", A2)]),
    ("'' + 'abc' plain", [("", A3), ("abc", {})]),
    ("'ab' + 'cd' + '' three runs", [("ab", A1), ("cd", A3), ("", A2)]),
    ("'ab' red + 'c' + 'ab' red + 'd' (the same run twice)", [("ab", A1), ("c", A3), ("ab", A1), ("d", A2)]),
    # many runs: neighbours that carry the same attribute names with different values, an empty formatted run among them
    ("'abcdefghijk' in ten runs alternating red / green", [("a", A1), ("b", A4), ("", A3), ("cd", A1), ("e", A4), ("f", A1), ("g", A4),
                                                          ("h", A1), ("i", A4), ("jk", A1)]),
]

GROUPS = {
    "L1-index-like-str": "f[i] for every index of the scope",
    "L2-slice-like-str": "f[a:b] for every pair of bounds of the scope",
    "L3-negative-index-and-bounds-like-str": "negative indices and bounds of the scope",
    "L4-concatenation-like-str": "+ with FmtStr and str operands on either side",
    "L5-repetition-like-str": "f * n",
    "L6-join-like-str": "sep.join(items)",
    "L7-len-is-number-of-characters": "len(f)",
    "L8-operands-read-the-same-afterwards": "the operands of every operation of the scope, read again after it",
}


def _res(it, r):
    """('ok', text, cells) | ('raise', name) | ('incoherent', why): the result's own views (.s, len, str without escapes) must agree
    with its runs - a result whose memoised text or length was pre-seeded wrongly is not "what str gives" """
    if r[0] == "opaque":
        raise AnalysisError("outside the evaluated subset: %s" % r[1])
    if r[0] == "raise":
        return ("raise", str(r[1]))
    v = r[1]
    if isinstance(v, Obj) and v.cls == "FmtStr":
        rs = runs_of(v)
        text = "".join(t for t, _ in rs)
        why = view_problem(it, v)
        if why is not None:
            return ("incoherent", "the result disagrees with itself: " + why, None)
        return ("ok", text, cells(rs))
    return ("ok", v, None)


def _look(it, v):
    """fill the memoised views of an operand (text, length, width, terminal string) before it is used"""
    for name in ("s", "width"):
        try:
            it.folder.obj_attr(v, name)
        except Exception:
            pass
    it.callm(v, "__len__")
    it.callm(v, "__str__")
    return v


def check(src, rep):
    from ..par import pmap
    rep.explanation = EXPLANATION
    rep.not_decided = NOT_DECIDED
    rep.assumptions = ["CPython's str and list indexing / slicing / concatenation / repetition / join are the reference"]
    rep.trusted_base = ["CPython ast", "sa/consteval.py", "sa/absint.py", "sa/objinterp.py"]
    it = new_interp(src)
    f = src.func("formatstring", "FmtStr.__getitem__")
    if rep.tier == "thorough" and len(POOL) < 12:
        # every way of cutting 'abcde' into three (possibly empty) runs
        for i in range(0, 6):
            for j in range(i, 6):
                POOL.append(("'abcde' cut at %d and %d" % (i, j), [("abcde"[:i], A1), ("abcde"[i:j], A2), ("abcde"[j:], A3)]))
    jobs = []
    for pi, (label, runs) in enumerate(POOL):
        n = sum(len(t) for t, _ in runs)
        for i in range(-n - 2, n + 3):
            jobs.append(("index", pi, i))
            jobs.append(("index*", pi, i))
        bounds = [None] + list(range(-n - 2, n + 3))
        for a, b in itertools.product(bounds, repeat=2):
            jobs.append(("slice", pi, (a, b)))
            jobs.append(("slice*", pi, (a, b)))
            if len(runs) >= 3 and n >= 2:
                jobs.append(("slice@", pi, (a, b)))      # @: another lookup was made on the same object just before
        for qi in range(len(POOL)):
            jobs.append(("add", pi, qi))
            jobs.append(("add*", pi, qi))
        for s_ in ("", "xy", "\x1b[31mred?\x1b[39m", "\x1b["):      # a plain str is plain characters, whatever they look like
            for star in ("", "*"):          # *: the operands have been looked at (views memoised) before the operation
                jobs.append(("add-str" + star, pi, s_))
                jobs.append(("radd-str" + star, pi, s_))
        for k in range(0, 6):
            jobs.append(("mul", pi, k))
            jobs.append(("mul*", pi, k))
        jobs.append(("len", pi, None))
    items = ["", "x", 2, 3, 0]       # 2, 3, 0: pool indices (0: a FmtStr without runs)
    for sep in ("", ", ", 3):
        for n in range(0, 4):
            for combo in itertools.product(items, repeat=n):
                jobs.append(("join", sep, combo))

    def text_cells(runs):
        return "".join(t for t, _ in runs), cells(runs)

    def one(job):
        kind, a, b = job
        looked = kind.endswith("*")
        earlier = kind.endswith("@")
        kind = kind.rstrip("*@")
        operands = []        # (label, model value, runs it was built from)
        try:
            if kind == "join":
                sep_runs = POOL[a][1] if isinstance(a, int) else None
                sep_v = mk(it, *sep_runs) if sep_runs is not None else it.call1("formatstring", "fmtstr", a)[1]
                sep_t, sep_c = text_cells(sep_runs) if sep_runs is not None else (a, [(ch, ()) for ch in a])
                if sep_runs is not None:
                    operands.append(("the separator", sep_v, sep_runs))
                vals, ts, cs = [], [], []
                for x in b:
                    if isinstance(x, int):
                        vals.append(mk(it, *POOL[x][1]))
                        operands.append(("item %s" % POOL[x][0], vals[-1], POOL[x][1]))
                        t, c = text_cells(POOL[x][1])
                    else:
                        vals.append(x)
                        t, c = x, [(ch, ()) for ch in x]
                    ts.append(t)
                    cs.append(c)
                got = _res(it, it.callm(sep_v, "join", vals))
                want_c = []
                for i, c in enumerate(cs):
                    if i:
                        want_c += sep_c
                    want_c += c
                want = ("ok", sep_t.join(ts), want_c)
                desc = "%r.join(%s)" % (POOL[a][0] if isinstance(a, int) else a, [POOL[x][0] if isinstance(x, int) else x for x in b])
                rule = "L6-join-like-str"
            else:
                label, runs = POOL[a]
                v = mk(it, *runs)
                operands.append((label, v, runs))
                if looked:
                    _look(it, v)
                    label += " (looked at before)"
                text, cl = text_cells(runs)
                if kind == "index":
                    got = _res(it, it.callm(v, "__getitem__", b))
                    try:
                        want = ("ok", text[b], [cl[b]])
                    except IndexError:
                        want = ("raise", "IndexError")
                    desc = "(%s)[%d]" % (label, b)
                    rule = "L1-index-like-str" if b >= 0 else "L3-negative-index-and-bounds-like-str"
                elif kind == "slice":
                    sl = slice(b[0], b[1])
                    if earlier:
                        n_ = len(text)
                        for k_ in (n_ - 1, n_ - 2):
                            it.callm(v, "__getitem__", slice(k_, None))
                        label += " (after f[%d:] and f[%d:] on the same object)" % (n_ - 1, n_ - 2)
                    got = _res(it, it.callm(v, "__getitem__", sl))
                    want = ("ok", text[sl], cl[sl])
                    desc = "(%s)[%s:%s]" % (label, "" if b[0] is None else b[0], "" if b[1] is None else b[1])
                    rule = "L3-negative-index-and-bounds-like-str" if any(x is not None and x < 0 for x in b) else "L2-slice-like-str"
                elif kind == "add":
                    w = mk(it, *POOL[b][1])
                    operands.append((POOL[b][0], w, POOL[b][1]))
                    if looked:
                        _look(it, w)
                    t2, c2 = text_cells(POOL[b][1])
                    got = _res(it, it.callm(v, "__add__", w))
                    want = ("ok", text + t2, cl + c2)
                    desc = "(%s) + (%s)" % (label, POOL[b][0])
                    rule = "L4-concatenation-like-str"
                elif kind in ("add-str", "radd-str"):
                    got = _res(it, it.callm(v, "__add__" if kind == "add-str" else "__radd__", b))
                    pc = [(ch, ()) for ch in b]
                    want = ("ok", text + b, cl + pc) if kind == "add-str" else ("ok", b + text, pc + cl)
                    desc = "(%s) + %r" % (label, b) if kind == "add-str" else "%r + (%s)" % (b, label)
                    rule = "L4-concatenation-like-str"
                elif kind == "mul":
                    got = _res(it, it.callm(v, "__mul__", b))
                    want = ("ok", text * b, cl * b)
                    desc = "(%s) * %d" % (label, b)
                    rule = "L5-repetition-like-str"
                else:
                    got = _res(it, it.callm(v, "__len__"))
                    want = ("ok", len(text), None)
                    desc = "len(%s)" % label
                    rule = "L7-len-is-number-of-characters"
            if got == want:
                # a str never changes by being used: neither may a FmtStr (a later operation on it would not act like str)
                for olabel, ov, oruns in operands:
                    now = runs_of(ov)
                    if cells(now) != cells(oruns) or "".join(t for t, _ in now) != "".join(t for t, _ in oruns):
                        return ("L8-operands-read-the-same-afterwards", desc, "afterwards the operand (%s) holds the runs %s; it was built from %s" % (olabel, now, oruns))
                    why = view_problem(it, ov)
                    if why is not None:
                        return ("L8-operands-read-the-same-afterwards", desc, "afterwards the operand (%s) disagrees with itself: %s" % (olabel, why))
        except AnalysisError as e:
            return ("error", "%s: %s" % (job, e), "")
        if got == want:
            return None
        if got[0] == "incoherent":
            return (rule, desc, got[1])
        if got[0] == "ok" and want[0] == "ok" and got[1] == want[1] and got[2] != want[2]:
            why = "text %r is right, the formatting is %s, the operands' characters carry %s" % (got[1], got[2], want[2])
        else:
            why = "FmtStr gives %s, the same operation on the text gives %s" % (
                ("%r" % (got[1],) if got[0] == "ok" else "raises %s" % got[1]), ("%r" % (want[1],) if want[0] == "ok" else "raises %s" % want[1]))
        return (rule, desc, why)
    results = pmap(one, jobs, min_chunk=32)
    bad = {}
    for job, res in zip(jobs, results):
        rep.case(True)
        if res is None:
            continue
        if res[0] == "error":
            rep.errors.append(res[1])
            break
        bad.setdefault(res[0], []).append(res[1:])
    for rule, group in GROUPS.items():
        items_ = bad.get(rule, [])
        if items_:
            items_.sort(key=lambda x: len(x[0]))
            rep.ob(rule, f.where(), "formatstring:FmtStr", group, False, "%s: %s (%d of the scope's cases fail this rule)" % (items_[0][0], items_[0][1], len(items_)),
                   witness={"call": items_[0][0], "failing": len(items_)})
        else:
            rep.ob(rule, f.where(), "formatstring:FmtStr", group, True)
    rep.extracted["counts"] = {"cases": len(jobs), "pool": len(POOL)}
    rep.floor("cases", len(jobs), 1000)
