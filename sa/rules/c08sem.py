"""C08, interpreted part: Input's request loop run against the reference OS model over a catalogue of histories."""
from .. import osmodel
from ..consteval import Record
from ..fold import new_interp
from ..objinterp import NativeFunc, Obj
from ..report import AnalysisError

# (bytes as they arrive in one read, the keypress names they decode to under the default naming and utf-8)
KEYS = {
    "a": (b"a", ["a"]), "b": (b"b", ["b"]), "up": (b"\x1b[A", ["<UP>"]), "e'": (b"\xc3\xa9", ["é"]),
    "ab": (b"ab", ["a", "b"]), "up+a": (b"\x1b[Aa", ["<UP>", "a"]), "esc": (b"\x1b", ["<ESC>"]),
    "burst": (b"hello w\xc3\xb6rld \x1b[B!", [c if c != " " else "<SPACE>" for c in "hello wörld "] + ["<DOWN>", "!"]),
    # a key cut by the 1024-byte read boundary: ESC [ at 1022-1023, A at 1024; a two-byte character at 1023-1024
    "cut-seq": (b"y" * 1022 + b"\x1b[A" + b"z" * 5, ["y"] * 1022 + ["<UP>"] + ["z"] * 5),
    "cut-char": (b"y" * 1023 + b"\xc3\xa9" + b"z" * 5, ["y"] * 1023 + ["\u00e9"] + ["z"] * 5),
    "big": (b"x" * 1500 + b"\xe2\x9c\x93" * 200 + b"\x1b[A" * 40, ["x"] * 1500 + ["✓"] * 200 + ["<UP>"] * 40),
}

# a history is a list of steps:
#   ("arrive", key)            bytes become readable on the input stream
#   ("unget", key)             unget_bytes(...)
#   ("event", trigger, n)      the n-th call of the callback made by event_trigger number `trigger`
#   ("tsevent", trigger, n)    same for threadsafe_event_trigger
#   ("sched", dt, n)           scheduled_event_trigger callback(when = now + dt)
#   ("request", timeout)       a request; what it returns is recorded
#   ("drain",)                 requests with timeout 0 until one returns None (at most 3000)
HISTORIES = [
    ("keys one by one", None, [("arrive", "a"), ("request", 1), ("arrive", "up"), ("request", None), ("arrive", "e'"), ("request", 0.5), ("request", 0.5), ("drain",)]),
    ("two keys in one read", None, [("arrive", "ab"), ("request", 1), ("request", 0), ("request", 0)]),
    ("sequence then key in one read", None, [("arrive", "up+a"), ("request", None), ("request", None), ("request", 0)]),
    ("unget before and after an arrival", None, [("unget", "a"), ("arrive", "up"), ("unget", "b"), ("drain",)]),
    ("unget while bytes are buffered", None, [("arrive", "ab"), ("request", 1), ("unget", "up"), ("drain",)]),
    ("events from two triggers", None, [("event", 0, 1), ("event", 1, 1), ("event", 0, 2), ("request", 0), ("request", None), ("request", 1), ("request", 0)]),
    ("event while keys are waiting", None, [("arrive", "ab"), ("event", 0, 1), ("request", 0), ("request", 0), ("request", 0), ("request", 0)]),
    ("threadsafe events", None, [("tsevent", 0, 1), ("tsevent", 0, 2), ("request", None), ("request", None), ("request", 0.5)]),
    ("threadsafe event and a key", None, [("tsevent", 0, 1), ("arrive", "a"), ("drain",)]),
    ("scheduled events, equal and different times", None, [("sched", 2.0, 1), ("sched", 2.0, 2), ("sched", 1.0, 3), ("request", 0), ("request", 5), ("request", 5), ("request", 5), ("request", 0)]),
    ("scheduled event not yet due", None, [("sched", 50.0, 1), ("request", 0), ("request", 1), ("arrive", "a"), ("request", 1)]),
    ("scheduled event due while a key waits", None, [("sched", 0.1, 1), ("arrive", "a"), ("request", 1), ("request", 1), ("request", 0)]),
    ("timeout with nothing to deliver", None, [("request", 0), ("request", 0.75), ("request", 3)]),
    ("paste burst", None, [("arrive", "burst"), ("request", 1), ("request", 0)]),
    ("paste burst with keys buffered after it", None, [("arrive", "burst"), ("request", 1), ("arrive", "a"), ("request", 1), ("request", 0)]),
    ("multi-kilobyte burst", None, [("arrive", "big"), ("request", 1), ("drain",)]),
    ("escape sequence cut by the read boundary", None, [("arrive", "cut-seq"), ("request", 1), ("drain",)]),
    ("multi-byte character cut by the read boundary", None, [("arrive", "cut-char"), ("request", 1), ("drain",)]),
    ("burst with paste_threshold None", "none", [("arrive", "burst"), ("drain",)]),
    ("burst below a large threshold", 100, [("arrive", "burst"), ("drain",)]),
    ("threshold 0: every read is a paste", 0, [("arrive", "a"), ("request", 1), ("arrive", "ab"), ("request", 1), ("request", 0)]),
    ("threshold 1: two bytes are a paste", 1, [("arrive", "ab"), ("request", 1), ("request", 0)]),
    ("lone escape at the end of a read", None, [("arrive", "esc"), ("request", 1), ("request", 0)]),
    ("trigger created after a request has already waited", None, [("request", 0.1), ("tsevent", 0, 1), ("request", None), ("tsevent", 1, 1), ("request", 2), ("request", 0)]),
    ("threadsafe trigger fires while a request is blocked", None, [("tsevent-during", 0, 1), ("request", 5), ("request", 0)]),
    ("trigger created later fires while a request is blocked", None, [("request", 0.1), ("tsevent", 0, 1), ("request", 1), ("tsevent-during", 0, 2), ("request", 5),
                                                                      ("tsevent-during", 1, 1), ("request", None), ("request", 0)]),
    ("SIGINT between requests", "sigint", [("sigint",), ("request", 1), ("request", 0.5), ("arrive", "a"), ("request", 0.5), ("request", 0)]),
    ("SIGINT, then a blocking request for a key", "sigint", [("sigint",), ("sigint",), ("request", None), ("request", None), ("arrive", "up"), ("request", None), ("request", 0.25)]),
    ("a wake-up byte left over from a SIGINT, then a trigger fires during the request's second wait", "sigint",
     [("sigint",), ("request", 1), ("tsevent-during-2nd", 0, 1), ("request", 5), ("request", 0)]),
    ("the context is left and entered again while keys are still buffered", None, [("arrive", "up+a"), ("request", 1), ("reenter",), ("drain",)]),
    ("keys typed before the context is entered", None, [("typed-ahead", "ab"), ("request", 1), ("request", 1), ("request", 0)]),
    ("everything at once", None, [("arrive", "ab"), ("event", 0, 1), ("tsevent", 0, 1), ("sched", 0.0, 1), ("unget", "up"), ("drain",)]),
]

GROUPS = {
    "H1-every-byte-returned-once-in-order": "keypresses returned by the histories of the catalogue",
    "H2-every-event-returned-once-in-trigger-order": "events returned by the histories of the catalogue",
    "H3-scheduled-not-early-and-in-time-order": "scheduled events returned by the histories of the catalogue",
    "H4-no-timeout-while-something-is-deliverable": "requests that returned None in the histories of the catalogue",
    "H5-none-not-before-the-timeout": "time spent by requests that returned None",
    "H6-burst-comes-back-as-one-paste-event": "bursts above the paste threshold in the histories of the catalogue",
}


def _name(v):
    if isinstance(v, Obj):
        return v
    return v


def run_history(it, title, threshold, steps):
    osm = osmodel.OS()
    osm.tick = 0.01
    osmodel.install(it, osm)
    stdin = Record(fileno=NativeFunc(lambda a, k: 0), name="<stdin>", encoding="utf-8")
    kw = {"in_stream": stdin}
    if threshold == "sigint":
        kw["sigint_event"] = True
    elif threshold == "none":
        kw["paste_threshold"] = None
    elif threshold is not None:
        kw["paste_threshold"] = threshold
    inp = it.new("input", "Input", **kw)
    thr = inp.fields.get("paste_threshold")
    typed_ahead = None
    if steps and steps[0][0] == "typed-ahead":
        # bytes that are already waiting in the terminal's input queue when the context is entered
        typed_ahead = KEYS[steps[0][1]]
        osm.data.setdefault(0, []).append(typed_ahead[0])
        steps = steps[1:]
    r = it.callm(inp, "__enter__")
    if r[0] != "ok":
        raise AnalysisError("Input.__enter__ gives %s" % (r,))
    ev_cls = it.folder.module("events")["WindowChangeEvent"]
    sch_cls = it.folder.module("events")["ScheduledEvent"]
    triggers, ts_triggers = {}, {}
    sched_cb = None
    expected_keys = []          # names, in the order the bytes were handed to the Input
    pending_os = []             # names of bytes that are readable but not read yet
    triggered = []              # (kind, trigger, n) in call order
    scheduled = {}              # n -> when
    returned = []               # (kind, payload, clock)
    sigints = {"pending": 0, "sent": 0, "returned": 0}
    fired_during = []
    fire_count = {}
    arrivals = []               # key names of every chunk that arrived, in order

    def unread():
        k = len(osm.data.get(0, []))
        return [n for names in (arrivals[len(arrivals) - k:] if k else []) for n in names]
    trail = []
    hist = lambda: "%s%s: %s" % (title, "" if threshold is None else " (paste_threshold=%s)" % threshold, "; ".join(trail))   # noqa: E731

    def call_cb(cb, **kwargs):
        try:
            it.folder.v_call(cb, [], kwargs, None, {})
        except Exception as e:
            raise AnalysisError("calling a trigger callback: %s" % e)

    def ident(v):
        if isinstance(v, Obj) and v.cls == "WindowChangeEvent":
            return ("event", v.fields.get("rows"), v.fields.get("columns"))
        if isinstance(v, Obj) and v.cls == "ScheduledEvent":
            return ("sched", v.fields.get("when"))
        if isinstance(v, Obj) and v.cls == "SigIntEvent":
            return ("sigint",)
        if isinstance(v, Obj) and v.cls == "PasteEvent":
            return ("paste", list(v.fields.get("events", [])))
        if isinstance(v, str):
            return ("key", v)
        return ("other", repr(v))

    def request(timeout):
        nonlocal pending_os
        t0 = osm.clock
        buffered = list(inp.fields.get("unprocessed_bytes", []))
        pending_os = unread()
        deliverable = bool(buffered) or bool(pending_os) or any(k in ("event", "tsevent") for k, *_ in outstanding()) or \
            any(w <= t0 for w in outstanding_sched().values())
        burst = len(osm.data.get(0, [b""])[0]) if osm.data.get(0) and not buffered else 0
        deliverable = deliverable or sigints["pending"] > 0
        del fired_during[:]
        try:
            r = it.callm(inp, "send", timeout)
        except osmodel.WouldBlock as e:
            trail.append("request(%s)" % timeout)
            if deliverable or fired_during:
                return ("H4-no-timeout-while-something-is-deliverable", hist(), "the request blocks forever although something was deliverable: %s" % e)
            raise AnalysisError("history %r asks for a request that blocks forever by design: %s" % (title, e))
        if r[0] == "opaque":
            raise AnalysisError("Input.send outside the evaluated subset: %s" % r[1])
        trail.append("request(%s)" % timeout)
        if r[0] != "ok":
            return ("H1-every-byte-returned-once-in-order", hist(), "the request raised %s" % (r[1],))
        v = r[1]
        t1 = osm.clock
        pending_os = unread()
        if v is None:
            trail[-1] += " -> None"
            if deliverable or fired_during:
                return ("H4-no-timeout-while-something-is-deliverable", hist(), "the request returned None although %s"
                        % ("bytes were waiting" if buffered or pending_os else "an event fired while it was waiting" if fired_during
                           else "an event was waiting"))
            if timeout is not None and not outstanding_sched() and t1 - t0 < timeout - 1e-9:
                return ("H5-none-not-before-the-timeout", hist(), "None came back after %.2f s of a %.2f s timeout" % (t1 - t0, timeout))
            return None
        k = ident(v)
        if k[0] == "sigint":
            sigints["pending"] -= 1
            sigints["returned"] += 1
        trail[-1] += " -> %s" % (k[1] if k[0] == "key" else k[0] if k[0] != "paste" else "paste of %d" % len(k[1]))
        returned.append((k, t1))
        if thr is not None and burst > thr and k[0] != "paste" and not any(x[0][0] != "key" for x in []):
            # a read that brought more than the threshold at once, with nothing buffered before and no event pending
            if not any(kk in ("event", "tsevent") for kk, *_ in outstanding_before) and not due_before:
                return ("H6-burst-comes-back-as-one-paste-event", hist(), "%d bytes arrived in one read (threshold %s) and came back as %s" % (burst, thr, k[0]))
        return None

    def outstanding():
        got = [x[0] for x in returned]
        out = []
        for kind, trig, n in triggered:
            if ("event", trig, n) not in [(g[0], g[1], g[2]) for g in got if g[0] == "event"]:
                out.append((kind, trig, n))
        return out

    def outstanding_sched():
        got = [g[1] for g, _ in returned if g[0] == "sched"]
        left = dict(scheduled)
        for w in got:
            for n, ww in list(left.items()):
                if ww == w:
                    del left[n]
                    break
        return left

    outstanding_before, due_before = [], False
    if typed_ahead is not None:
        expected_keys.extend(typed_ahead[1])
        arrivals.append(typed_ahead[1])
        trail.append("%d byte(s) were typed before the context was entered" % len(typed_ahead[0]))
        if not osm.data.get(0):
            return ("H1-every-byte-returned-once-in-order", hist(), "entering the context discarded the %d byte(s) waiting in the terminal's input queue "
                    "(tty attributes set with TCSAFLUSH instead of TCSANOW)" % len(typed_ahead[0]))
        pending_os = unread()
    for st in steps:
        if st[0] == "sigint":
            # a SIGINT between requests: the interpreter runs the installed handler and the C-level handler writes the
            # signal number to the wake-up descriptor
            h = osm.handler
            if h is osm.default_handler or isinstance(h, int):
                raise AnalysisError("history %r: no SIGINT handler installed by Input(sigint_event=True).__enter__" % title)
            try:
                it.folder.v_call(h, [osmodel.SIGINT, None], {}, None, {})
            except Exception as e:
                raise AnalysisError("calling the SIGINT handler: %s" % e)
            if osm.wakeup_fd in osm.pipes:
                osm.data.setdefault(osm.pipes[osm.wakeup_fd], []).append(bytes([osmodel.SIGINT]))
            sigints["pending"] += 1
            sigints["sent"] += 1
            trail.append("SIGINT arrives")
            continue
        if st[0] == "reenter":
            r1 = it.callm(inp, "__exit__", None, None, None)
            r2 = it.callm(inp, "__enter__")
            if r1[0] != "ok" or r2[0] != "ok":
                raise AnalysisError("leaving and re-entering the Input context gives %s / %s" % (r1, r2))
            trail.append("the context is left and entered again")
            continue
        if st[0] == "arrive":
            data, names = KEYS[st[1]]
            osm.data.setdefault(0, []).append(data)
            expected_keys.extend(names)
            arrivals.append(names)
            pending_os = unread()
            trail.append("%d byte(s) arrive (%s)" % (len(data), st[1]))
        elif st[0] == "unget":
            data, names = KEYS[st[1]]
            # bytes handed back go behind what the Input has buffered, but before what it has not read yet
            pending_os = unread()
            idx = len(expected_keys) - len(pending_os)
            expected_keys[idx:idx] = names
            r = it.callm(inp, "unget_bytes", data)
            if r[0] != "ok":
                raise AnalysisError("unget_bytes gives %s" % (r,))
            trail.append("unget_bytes(%s)" % st[1])
        elif st[0] in ("event", "tsevent", "tsevent-during", "tsevent-during-2nd"):
            table = triggers if st[0] == "event" else ts_triggers
            if st[1] not in table:
                r = it.callm(inp, "event_trigger" if st[0] == "event" else "threadsafe_event_trigger", ev_cls)
                if r[0] != "ok":
                    raise AnalysisError("%s_trigger gives %s" % (st[0], r,))
                table[st[1]] = r[1]
            rows = (1 if st[0] == "event" else 2) * 100 + st[1]
            # the n-th firing of a trigger is numbered when it actually fires (a callback waiting for the next blocked request
            # may fire after later direct calls)
            if st[0] in ("tsevent-during", "tsevent-during-2nd"):
                def fire(cb=table[st[1]], rows=rows):
                    fire_count[rows] = fire_count.get(rows, 0) + 1
                    call_cb(cb, rows=rows, columns=fire_count[rows])
                    triggered.append(("event", rows, fire_count[rows]))
                    fired_during.append(1)
                    trail.append("(the waiting callback of threadsafe trigger %d fires now)" % (rows % 100))
                if st[0] == "tsevent-during-2nd":
                    # ... while the request is blocked for the SECOND time (its first wait was ended by something that did not end the request)
                    def rearm(fire=fire):
                        osm.on_select = fire
                    osm.on_select = rearm
                    trail.append("(threadsafe trigger %d will fire from another thread when the next request blocks for the second time)" % st[1])
                    continue
                osm.on_select = fire
                trail.append("(threadsafe trigger %d will fire from another thread as soon as a request is blocked)" % st[1])
                continue
            fire_count[rows] = fire_count.get(rows, 0) + 1
            call_cb(table[st[1]], rows=rows, columns=fire_count[rows])
            triggered.append(("event", rows, fire_count[rows]))
            trail.append("%s trigger %d fires (%d)" % ("threadsafe" if st[0] == "tsevent" else "event", st[1], fire_count[rows]))
        elif st[0] == "sched":
            if sched_cb is None:
                r = it.callm(inp, "scheduled_event_trigger", sch_cls)
                if r[0] != "ok":
                    raise AnalysisError("scheduled_event_trigger gives %s" % (r,))
                sched_cb = r[1]
            when = osm.clock + st[1]
            call_cb(sched_cb, when=when)
            scheduled[st[2]] = when
            trail.append("event scheduled for now+%s" % st[1])
        elif st[0] == "request":
            outstanding_before, due_before = outstanding(), any(w <= osm.clock for w in outstanding_sched().values())
            bad = request(st[1])
            if bad:
                return bad
        elif st[0] == "drain":
            for _ in range(3000):
                outstanding_before, due_before = outstanding(), any(w <= osm.clock for w in outstanding_sched().values())
                n0 = len(returned)
                bad = request(0)
                if bad:
                    return bad
                if len(returned) == n0:
                    break
            if len(trail) > 14:
                trail[12:-1] = ["... %d more requests ..." % (len(trail) - 13)]
    # ---- what came back, against what went in -----------------------------------------------------------
    keys = []
    for (k, t) in returned:
        if k[0] == "key":
            keys.append(k[1])
        elif k[0] == "paste":
            keys.extend(k[1])
    drained = steps[-1][0] == "drain" or (steps[-1] == ("request", 0) and (not returned or True))
    want = expected_keys if drained and not osm.data.get(0) and not inp.fields.get("unprocessed_bytes") else expected_keys[:len(keys)]
    if keys != want[:len(keys)] or (drained and steps[-1][0] == "drain" and keys != expected_keys):
        i = next((j for j, (a, b) in enumerate(zip(keys, expected_keys)) if a != b), min(len(keys), len(expected_keys)))
        return ("H1-every-byte-returned-once-in-order", hist(), "keypress %d returned is %r, the bytes handed in decode to %s (returned %d, expected %d)"
                % (i, keys[i] if i < len(keys) else None, expected_keys[max(0, i - 2):i + 3], len(keys), len(expected_keys)))
    evs = [(k[1], k[2]) for k, _ in returned if k[0] == "event"]
    if len(set(evs)) != len(evs):
        return ("H2-every-event-returned-once-in-trigger-order", hist(), "an event was returned twice: %s" % evs)
    if any(e not in [(r, c) for _, r, c in triggered] for e in evs):
        return ("H2-every-event-returned-once-in-trigger-order", hist(), "an event was returned that was never triggered: %s" % evs)
    for trig in {r for _, r, _ in triggered}:
        order = [c for r, c in evs if r == trig]
        if order != sorted(order):
            return ("H2-every-event-returned-once-in-trigger-order", hist(), "events of one trigger came back in the order %s" % order)
    if steps[-1][0] == "drain" and len(evs) != len(triggered):
        return ("H2-every-event-returned-once-in-trigger-order", hist(), "%d event(s) were triggered, %d returned after draining" % (len(triggered), len(evs)))
    sch = [(k[1], t) for k, t in returned if k[0] == "sched"]
    for w, t in sch:
        if t < w - 1e-9:
            return ("H3-scheduled-not-early-and-in-time-order", hist(), "an event scheduled for %.2f was returned at %.2f" % (w, t))
    if [w for w, _ in sch] != sorted(w for w, _ in sch):
        return ("H3-scheduled-not-early-and-in-time-order", hist(), "scheduled events came back in the order %s" % [w for w, _ in sch])
    if len(sch) > len(scheduled) or sorted(w for w, _ in sch) != sorted(scheduled.values())[:len(sch)] and len(sch) == len(scheduled):
        return ("H3-scheduled-not-early-and-in-time-order", hist(), "scheduled events returned %s, scheduled %s" % ([w for w, _ in sch], sorted(scheduled.values())))
    if sigints["returned"] > sigints["sent"] or (sigints["returned"] < sigints["sent"] and any(s[0] == "request" for s in steps[-2:])
                                                  and len([s for s in steps if s[0] == "request"]) > sigints["sent"]):
        return ("H2-every-event-returned-once-in-trigger-order", hist(), "%d SIGINT(s) arrived, %d SigIntEvent(s) were returned" % (sigints["sent"], sigints["returned"]))
    it.callm(inp, "__exit__", None, None, None)
    return None


def generated_histories(n, seed=20260928):
    """Deterministic pseudo-random interleavings of the step alphabet (thorough tier): arrivals, unget, the three kinds of triggers
    (also firing while a request is blocked), requests with timeouts 0 / 0.5, ending with a drain."""
    import random
    rnd = random.Random(seed)
    out = []
    keys = ["a", "b", "up", "e'", "ab", "up+a", "burst"]
    for i in range(n):
        steps = []
        counters = {"event": [0, 0], "tsevent": [0, 0], "sched": 0}
        during = False
        for _ in range(rnd.randint(4, 9)):
            k = rnd.choice(["arrive", "arrive", "unget", "event", "tsevent", "tsevent-during", "sched", "request", "request", "request"])
            if during and k != "request":
                continue
            if k == "arrive":
                steps.append(("arrive", rnd.choice(keys)))
            elif k == "unget":
                steps.append(("unget", rnd.choice(["a", "up", "ab"])))
            elif k in ("event", "tsevent", "tsevent-during"):
                t = rnd.randint(0, 1)
                base = "event" if k == "event" else "tsevent"
                counters[base][t] += 1
                steps.append((k, t, counters[base][t]))
                during = k == "tsevent-during"
            elif k == "sched":
                counters["sched"] += 1
                steps.append(("sched", rnd.choice([0.0, 0.3, 0.3, 2.0]), counters["sched"]))
            else:
                steps.append(("request", rnd.choice([0, 0.5, 5] if during else [0, 0.5])))
                during = False
        if during:
            steps.append(("request", 5))
        steps.append(("drain",))
        thr = rnd.choice([None, None, "none", 1, 100])
        out.append(("generated #%d" % i, thr, steps))
    return out


def run(src, rep, counts):
    from ..par import pmap
    it = new_interp(src)
    f = src.func("input", "Input._send") if src.has_func("input", "Input._send") else src.func("input", "Input.send")

    def one(h):
        title, thr, steps = h
        it.folder.overrides.clear()
        log = it.__dict__.setdefault("effect_log", [])
        del log[:]
        forks = getattr(it, "forks", 0)
        try:
            res = run_history(it, title, thr, steps)
        except AnalysisError as e:
            return ("error", "history %r: %s" % (title, e), "")
        skipped = [t for k, t in log if not t.startswith(("logger.", "logging."))]
        if skipped:
            return ("error", "history %r: statement outside the evaluated subset: `%s`" % (title, skipped[0]), "")
        if getattr(it, "forks", 0) != forks:
            return ("error", "history %r: a condition on an unknown value was met while interpreting against the OS model" % title, "")
        return res
    histories = list(HISTORIES) + (generated_histories(2000) if rep.tier == "thorough" else generated_histories(40))
    results = pmap(one, histories, min_chunk=1)
    bad = {}
    n = 0
    for h, res in zip(histories, results):
        n += 1
        rep.case(True, {"history": h[0]} if n % 5 == 1 else None)
        if res is None:
            continue
        if res[0] == "error":
            raise AnalysisError(res[1])
        bad.setdefault(res[0], []).append(res[1:])
    for rule, group in GROUPS.items():
        items = bad.get(rule, [])
        if items:
            items.sort(key=lambda x: len(x[0]))
            d, why = items[0]
            rep.ob(rule, f.where(), f.scope, group, False, "%s: %s (%d of %d histories fail this rule)" % (d, why, len(items), n),
                   witness={"history": d, "failing_histories": len(items)})
        else:
            rep.ob(rule, f.where(), f.scope, group, True)
    counts["histories"] = n
