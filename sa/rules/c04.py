"""C04 - FSArray region assignment composites exactly the assigned block (DESIGN.md section 3, C04: A1..A7)."""
import ast

from ..cfg import CFG, lexical_guard, single_defs
from ..consteval import Record, TOP
from ..objinterp import ObjInterp
from ..report import AnalysisError
from ..srcmodel import is_self_attr, unparse
from .c07 import _linear

EXPLANATION = (
    "Structural clauses of the all-or-nothing / never-wider / grows-downward parts of the statement.  A1 atomic commit: in "
    "the region path of FSArray.__setitem__ the only statement that changes an existing row is one whole-list assignment "
    "`self.rows = ...` which is the last statement, so every raising call (setslice_with_length, normalize_slice) is "
    "evaluated before any cell changes; subscript stores into rows exist only in the int-index path; the earlier extend() "
    "only appends blank rows built from the constructor arguments.  A2 the commit is dominated by a row-count comparison "
    "slicesize(rowslice) != len(value) whose branch always raises.  A3 every row stored comes from "
    "setslice_with_length(colslice.start, colslice.stop, v, self.num_columns) (and in fsarray() with the array's width), and "
    "in setslice_with_length every return is dominated by `len(result) > length -> raise`, the result is "
    "self.splice(fs, startindex, endindex), the left pad is startindex - len(self) spaces, the right pad "
    "endindex - startindex - len(fs) spaces (affine forms), and when the row continues past the region the value's width "
    "is validated to equal the region's width before splicing (a longer block row would push existing content right).  "
    "A4 growth: the row index is normalised against an unbounded length - normalize_slice is abstractly interpreted on int "
    "and slice row indices at and beyond the current height with the length expression written at the call site and must "
    "not reject them.  A5 who-may-write rows.  A6 region read returns [row[colslice] for row in rows[rowslice]]."
)
NOT_DECIDED = "which cells show what (slice arithmetic of splice/normalize_slice, padding widths as numbers): the compositing itself (C06/C09 territory)."


def check(src, rep):
    rep.explanation = EXPLANATION
    rep.not_decided = NOT_DECIDED
    rep.assumptions = ["list concatenation/assignment semantics; zip truncation"]
    rep.trusted_base = ["CPython ast", "sa/cfg.py", "sa/objinterp.py (for normalize_slice on row indices only)"]
    counts = {}
    rep.guard(rule_setitem, src, rep, counts)
    rep.guard(rule_setslice, src, rep, counts)
    rep.guard(rule_growth, src, rep, counts)
    rep.guard(rule_fsarray, src, rep, counts)
    rep.guard(rule_writers, src, rep, counts)
    rep.guard(rule_getitem, src, rep, counts)
    rep.extracted["counts"] = counts
    rep.floor("stores to rows", counts.get("row_writers", 0), 4)


def _always_raises(stmts):
    from ..cfg import enumerate_paths
    ps = enumerate_paths(stmts)
    return bool(ps) and all(p.term == "raise" for p in ps)


def rule_setitem(src, rep, counts):
    f = src.func("formatstringarray", "FSArray.__setitem__")
    body = f.node.body
    # stores
    whole = []
    for n in f.own_nodes():
        if isinstance(n, (ast.Assign, ast.AugAssign, ast.Delete)):
            tg = n.targets if isinstance(n, (ast.Assign, ast.Delete)) else [n.target]
            for t in tg:
                if is_self_attr(t, "rows"):
                    whole.append(n)
                for s in ast.walk(t):
                    if isinstance(s, ast.Subscript) and isinstance(s.ctx, (ast.Store, ast.Del)) and is_self_attr(s.value, "rows"):
                        g = lexical_guard(f.module, n, f.node)
                        in_int_path = any(pol and t2.startswith("isinstance(") and t2.endswith(", int)") for t2, pol in g)
                        rep.ob("A1-no-in-place-row-store-in-region-path", f.where(n), f.scope, unparse(n).split("\n")[0], in_int_path,
                               "rows are overwritten one at a time in the region path: when a later block row is rejected the "
                               "earlier rows have already changed (the assignment is not all-or-nothing)")
        if isinstance(n, ast.Call) and isinstance(n.func, ast.Attribute) and is_self_attr(n.func.value, "rows") and \
                n.func.attr in ("extend", "append", "insert", "pop", "remove", "clear", "sort", "reverse", "__setitem__"):
            ok = n.func.attr == "extend"
            blank = False
            if ok and n.args and isinstance(n.args[0], (ast.ListComp, ast.GeneratorExp)):
                el = n.args[0].elt
                blank = isinstance(el, ast.Call) and unparse(el.func) == "fmtstr" and el.args and \
                    isinstance(el.args[0], ast.Constant) and el.args[0].value == "" and \
                    "self.saved_args" in unparse(el) and "self.saved_kwargs" in unparse(el)
            rep.ob("A1-growth-appends-blank-rows-only", f.where(n), f.scope, unparse(n)[:100], ok and blank,
                   "before the commit the row list may only grow by blank rows built from the constructor's formatting arguments")
    ok = len(whole) == 1 and isinstance(whole[0], ast.Assign) and body[-1] is whole[0]
    rep.ob("A1-single-commit-is-last-statement", f.where(whole[0]) if whole else f.where(), f.scope,
           unparse(whole[0]).split("\n")[0] if whole else "<no whole-list assignment>", ok,
           "the region path must change existing rows by exactly one whole-list assignment `self.rows = ...` as its last "
           "statement, so that every call that can reject the block runs before any cell changes")
    if not ok:
        return
    commit = whole[0]
    # A3: elements come from setslice_with_length(..., self.num_columns)
    calls = [n for n in ast.walk(commit.value) if isinstance(n, ast.Call) and isinstance(n.func, ast.Attribute) and
             n.func.attr == "setslice_with_length"]
    ok = len(calls) == 1 and len(calls[0].args) == 4 and unparse(calls[0].args[3]) in ("self.num_columns", "self.width")
    colv = unparse(calls[0].args[0]).split(".")[0] if calls else "colslice"
    ok = ok and [unparse(a) for a in calls[0].args[:2]] == ["%s.start" % colv, "%s.stop" % colv]
    rep.ob("A3-rows-built-by-width-bounded-primitive", f.where(commit), f.scope, unparse(calls[0]) if calls else "<none>", ok,
           "every row written must be the result of setslice_with_length(col.start, col.stop, value_row, <array width>): that is "
           "what rejects a row wider than the array")
    # shape: rows[:start] + [comprehension over zip(rows[rowslice], value)] + rows[stop:]
    v = commit.value
    parts = []

    def flat(e):
        if isinstance(e, ast.BinOp) and isinstance(e.op, ast.Add):
            flat(e.left)
            flat(e.right)
        else:
            parts.append(e)
    flat(v)
    rowv = None
    ok = len(parts) == 3 and isinstance(parts[1], ast.ListComp)
    if ok:
        gen = parts[1].generators[0]
        it = gen.iter
        ok = isinstance(it, ast.Call) and unparse(it.func) == "zip" and len(it.args) == 2 and not gen.ifs and \
            isinstance(it.args[0], ast.Subscript) and is_self_attr(it.args[0].value, "rows") and unparse(it.args[1]) == f.params()[2]
        if ok:
            rowv = unparse(it.args[0].slice)
            ok = unparse(parts[0]) == "self.rows[:%s.start]" % rowv and unparse(parts[2]) == "self.rows[%s.stop:]" % rowv
            # the value row handed to setslice is the zip's second component, the receiver the first
            tg = gen.target
            ok = ok and isinstance(tg, ast.Tuple) and calls and unparse(calls[0].func.value) == unparse(tg.elts[0]) and \
                unparse(calls[0].args[2]) == unparse(tg.elts[1])
    rep.ob("A1-commit-keeps-rows-outside-the-region", f.where(commit), f.scope, unparse(v)[:140].replace("\n", " "), ok,
           "the new row list must be rows[:start] + [one new row per (old row, block row) of the region] + rows[stop:]: rows "
           "outside the region are carried over unchanged and in place")
    # A2: row count validated before the commit
    idx = body.index(commit)
    found = False
    for st in body[:idx]:
        if isinstance(st, ast.If) and isinstance(st.test, ast.Compare) and len(st.test.ops) == 1 and \
                isinstance(st.test.ops[0], ast.NotEq):
            l, r = unparse(st.test.left), unparse(st.test.comparators[0])
            val = "len(%s)" % f.params()[2]
            if {l, r} == {"slicesize(%s)" % (rowv or "rowslice"), val} and _always_raises(st.body) and not st.orelse:
                found = True
    rep.ob("A2-row-count-validated-before-commit", f.where(commit), f.scope, "if slicesize(rowslice) != len(value): raise", found,
           "a block with the wrong number of rows must be rejected before the commit; zip() would silently truncate it")
    counts["setitem_commit"] = 1


def rule_setslice(src, rep, counts):
    f = src.func("formatstring", "FmtStr.setslice_with_length")
    ps = f.params()
    if len(ps) != 5:
        raise AnalysisError("setslice_with_length: unexpected signature %s" % ps)
    _, start, end, fs, length = ps
    cfg = CFG(f.node)
    rets = [n for n in cfg.nodes if n.kind == "return"]
    splice = [n for n in f.own_nodes() if isinstance(n, ast.Assign) and isinstance(n.value, ast.Call) and unparse(n.value.func) == "self.splice"]
    ok = len(splice) == 1 and [unparse(a) for a in splice[0].value.args] == [fs, start, end]
    res = unparse(splice[0].targets[0]) if splice else None
    rep.ob("A3-result-is-splice-of-region", f.where(splice[0]) if splice else f.where(), f.scope,
           unparse(splice[0]) if splice else "<none>", ok, "the new row must be self.splice(value, startindex, endindex)")
    # every return returns the splice result and is dominated by the false edge of len(result) > length
    tests = [n for n in cfg.nodes if n.kind == "test" and unparse(n.ast) in ("len(%s) > %s" % (res, length), "%s < len(%s)" % (length, res))]
    for r in rets:
        okr = r.ast.value is not None and unparse(r.ast.value) == res
        dom = False
        for t in tests:
            fa = [s for s in t.succ if s.kind == "false"]
            tr = [s for s in t.succ if s.kind == "true"]
            raises_on_true = bool(tr) and not cfg.reaches(tr[0], cfg.exit)
            if fa and cfg.dominates(fa[0], r) and raises_on_true:
                dom = True
        rep.ob("A3-result-never-longer-than-array", f.where(r.ast), f.scope, unparse(r.ast), okr and dom,
               "every return of setslice_with_length must hand out the spliced row and be dominated by `len(result) > length -> "
               "raise`: otherwise a row wider than the array is stored")
    # pads
    pads = {}
    for n in f.own_nodes():
        if isinstance(n, ast.Assign) and unparse(n.targets[0]) == fs and isinstance(n.value, ast.BinOp) and isinstance(n.value.op, ast.Add):
            g = lexical_guard(f.module, n, f.node)
            for side, other in ((n.value.left, n.value.right), (n.value.right, n.value.left)):
                if isinstance(side, ast.BinOp) and isinstance(side.op, ast.Mult) and unparse(other) == fs:
                    amt = side.right if isinstance(side.left, ast.Constant) else side.left
                    ch = side.left if isinstance(side.left, ast.Constant) else side.right
                    where = "left" if side is n.value.left else "right"
                    pads[where] = (n, amt, ch, g)
    defs = {}
    L = pads.get("left")
    ok = L is not None and _linear(L[1], defs) == {start: 1, "len(self)": -1} and isinstance(L[2], ast.Constant) and L[2].value == " " and \
        [(t, p) for t, p in L[3]] in ([("len(self) < %s" % start, True)], [("%s > len(self)" % start, True)])
    rep.ob("A3-left-pad-to-start-column", f.where(L[0]) if L else f.where(), f.scope, unparse(L[0]) if L else "<none>", ok,
           "a row shorter than the region's start column must be padded with exactly startindex - len(row) blanks, under "
           "`len(self) < startindex`")
    R = pads.get("right")
    ok = R is not None and _linear(R[1], defs) == {end: 1, start: -1, "len(%s)" % fs: -1} and isinstance(R[2], ast.Constant) and \
        R[2].value == " " and [(t, p) for t, p in R[3]] in ([("len(self) > %s" % end, True)], [("%s < len(self)" % end, True)])
    rep.ob("A3-right-pad-to-region-width", f.where(R[0]) if R else f.where(), f.scope, unparse(R[0]) if R else "<none>", ok,
           "when the row continues past the region a shorter value must be padded with endindex - startindex - len(value) blanks")
    # width validation when the row continues past the region
    valid = False
    for n in f.own_nodes():
        test = None
        if isinstance(n, ast.Assert):
            test = n.test
            pol = True
        elif isinstance(n, ast.If) and _always_raises(n.body):
            test = n.test
            pol = False
        if test is None or not isinstance(test, ast.Compare) or len(test.ops) != 1:
            continue
        l, r = test.left, test.comparators[0]
        lin_l, lin_r = _linear(l, {}), _linear(r, {})
        if lin_l is None or lin_r is None:
            continue
        diff = dict(lin_l)
        for k, v in lin_r.items():
            diff[k] = diff.get(k, 0) - v
        diff = {k: v for k, v in diff.items() if v}
        want = {"len(%s)" % fs: 1, end: -1, start: 1}
        neg = {k: -v for k, v in want.items()}
        eq_op = isinstance(test.ops[0], ast.Eq) if pol else isinstance(test.ops[0], (ast.NotEq, ast.Gt))
        if (diff == want or diff == neg) and eq_op:
            g = lexical_guard(f.module, n, f.node)
            if [(t, p) for t, p in g] in ([("len(self) > %s" % end, True)], [("%s < len(self)" % end, True)]) and \
                    splice and n.lineno < splice[0].lineno:
                valid = True
    rep.ob("A3-block-row-width-validated-when-row-continues", f.where(), f.scope,
           "under len(self) > endindex: len(%s) == %s - %s checked before splicing" % (fs, end, start), valid,
           "when existing content follows the region, a block row longer than the region must be rejected: without the check it is "
           "spliced in and pushes the content right of the region (cells outside the region change) as long as the row still "
           "fits the array width", witness={"history": "width 10, row 'abXXgh': a[0:1, 2:4] = ['12345'] gives 'ab12345gh' instead of an error"})


def rule_growth(src, rep, counts):
    f = src.func("formatstringarray", "FSArray.__setitem__")
    it = ObjInterp(src)
    calls = [n for n in f.own_nodes() if isinstance(n, ast.Assign) and isinstance(n.value, ast.Call) and
             unparse(n.value.func) == "normalize_slice" and len(n.value.args) == 2 and
             unparse(n.targets[0]) == unparse(n.value.args[1]) and "row" in unparse(n.targets[0])]
    if len(calls) != 1:
        raise AnalysisError("FSArray.__setitem__: expected one `rowslice = normalize_slice(<length>, rowslice)`, found %d" % len(calls))
    c = calls[0]
    env = dict(it.folder.module("formatstringarray"))
    rows = [0, 1]
    env["self"] = Record(rows=rows, num_columns=5, height=len(rows), width=5)
    L = it.folder.try_expr(c.value.args[0], env)
    if L is TOP or not isinstance(L, int):
        raise AnalysisError("length argument `%s` of the row normalisation is not foldable" % unparse(c.value.args[0]))
    bad = None
    n = 0
    for idx in [0, 1, 2, 3, 4, 7, 200, slice(0, 2), slice(1, 5), slice(2, 3), slice(4, 6), slice(16, 17)]:
        n += 1
        r = it.call1("formatstring", "normalize_slice", L, idx)
        if r[0] == "opaque":
            raise AnalysisError("normalize_slice outside the evaluated subset: %s" % r[1])
        want = slice(idx, idx + 1) if isinstance(idx, int) else idx
        ok = r[0] == "ok" and (r[1].start, r[1].stop) == (want.start, want.stop)
        rep.case(True, {"row_index": str(idx), "height": len(rows), "normalised": str(r)} if n in (5, 10) else None)
        if not ok and bad is None:
            bad = (idx, r)
    rep.ob("A4-rows-beyond-height-are-accepted", f.where(c), f.scope, unparse(c), bad is None,
           "with %d existing rows the row index %s is normalised to %s: a region reaching past the last row must grow the array "
           "with blank rows, not be rejected or moved (the row index has to be normalised against an unbounded length)"
           % (len(rows), bad[0] if bad else "", bad[1] if bad else ""), witness={"history": "fsarray(['abcd','efgh'])[4, 1] = ['x']"})
    # growth amount: max(0, rowslice.stop - len(self.rows)) blank rows
    defs = single_defs(f.node)
    ext = [n2 for n2 in f.own_nodes() if isinstance(n2, ast.Call) and isinstance(n2.func, ast.Attribute) and
           n2.func.attr == "extend" and is_self_attr(n2.func.value, "rows")]
    ok = False
    if ext and ext[0].args and isinstance(ext[0].args[0], (ast.ListComp, ast.GeneratorExp)):
        g = ext[0].args[0].generators[0]
        cnt = g.iter.args[0] if isinstance(g.iter, ast.Call) and unparse(g.iter.func) == "range" and len(g.iter.args) == 1 else None
        if isinstance(cnt, ast.Name) and cnt.id in defs:
            cnt = defs[cnt.id]
        if isinstance(cnt, ast.Call) and unparse(cnt.func) == "max" and len(cnt.args) == 2:
            other = [a for a in cnt.args if not (isinstance(a, ast.Constant) and a.value == 0)]
            zero = [a for a in cnt.args if isinstance(a, ast.Constant) and a.value == 0]
            rv = unparse(c.targets[0])
            ok = len(other) == 1 and len(zero) == 1 and _linear(other[0], {}) == {"%s.stop" % rv: 1, "len(self.rows)": -1} and \
                ext[0].lineno > c.lineno
    rep.ob("A4-grows-by-missing-rows", f.where(ext[0]) if ext else f.where(), f.scope, unparse(ext[0])[:120] if ext else "<none>", ok,
           "the array must grow by exactly max(0, rowslice.stop - len(rows)) blank rows after the row index was normalised")
    counts["growth_cases"] = n


def rule_fsarray(src, rep, counts):
    f = src.func("formatstringarray", "fsarray")
    calls = [n for n in f.own_nodes() if isinstance(n, ast.Call) and isinstance(n.func, ast.Attribute) and n.func.attr == "setslice_with_length"]
    ctor = [n for n in f.own_nodes() if isinstance(n, ast.Call) and unparse(n.func) == "FSArray"]
    ok = len(calls) == 1 and len(ctor) == 1 and len(calls[0].args) == 4 and len(ctor[0].args) >= 2 and \
        unparse(calls[0].args[3]) == unparse(ctor[0].args[1]) and unparse(calls[0].args[0]) == "0"
    rep.ob("A3-fsarray-rows-bounded-by-its-width", f.where(calls[0]) if calls else f.where(), f.scope,
           unparse(calls[0]) if calls else "<none>", ok,
           "fsarray() must build each row with setslice_with_length(0, len(s), s, <the width given to FSArray(...)>)")
    # explicit width: rejects longer strings
    checks = [n for n in f.own_nodes() if isinstance(n, ast.If) and "width" in unparse(n.test) and "len(" in unparse(n.test) and
              _always_raises(n.body)]
    rep.ob("A3-fsarray-rejects-strings-wider-than-width", f.where(checks[0]) if checks else f.where(), f.scope,
           unparse(checks[0].test) if checks else "<none>", bool(checks),
           "with an explicit width, a string longer than the width must raise")


def rule_writers(src, rep, counts):
    allowed = {("formatstringarray", "FSArray.__init__"), ("formatstringarray", "FSArray.__setitem__"), ("formatstringarray", "fsarray")}
    n = 0
    for g in src.all_funcs():
        for node in g.own_nodes():
            tg = node.targets if isinstance(node, (ast.Assign, ast.Delete)) else [node.target] if isinstance(node, (ast.AugAssign, ast.AnnAssign)) else []
            for t in tg:
                for a in ast.walk(t):
                    if isinstance(a, ast.Attribute) and a.attr == "rows" and isinstance(a.ctx, (ast.Store, ast.Del)):
                        n += 1
                        rep.ob("A5-who-may-write-rows", g.where(node), g.scope, unparse(node).split("\n")[0][:100],
                               (g.module.name, g.qualname) in allowed or g.module.name in ("events",),
                               "FSArray.rows is written outside FSArray.__init__/__setitem__/fsarray")
                    if isinstance(a, ast.Attribute) and a.attr == "num_columns" and isinstance(a.ctx, (ast.Store, ast.Del)):
                        rep.ob("A5-width-is-fixed", g.where(node), g.scope, unparse(node).split("\n")[0][:100],
                               g.qualname == "FSArray.__init__", "the array's width is changed after construction")
    counts["row_writers"] = n


def rule_getitem(src, rep, counts):
    f = src.func("formatstringarray", "FSArray.__getitem__")
    rets = [n for n in f.own_nodes() if isinstance(n, ast.Return) and isinstance(n.value, ast.ListComp)]
    ok = False
    if len(rets) == 1:
        lc = rets[0].value
        g = lc.generators[0]
        from ..cfg import local_defs
        defs = local_defs(f.node)
        ok = len(lc.generators) == 1 and not g.ifs and isinstance(g.iter, ast.Subscript) and is_self_attr(g.iter.value, "rows") and \
            isinstance(lc.elt, ast.Subscript) and unparse(lc.elt.value) == unparse(g.target)
        if ok:
            rs, cs = unparse(g.iter.slice), unparse(lc.elt.slice)
            d1, d2 = defs.get(rs, []), defs.get(cs, [])
            ok = bool(d1) and bool(d2) and all(d is not None and unparse(d).startswith("normalize_slice(len(self.rows), ") for d in d1) and \
                all(d is not None and unparse(d).startswith("normalize_slice(self.num_columns, ") for d in d2)
    rep.ob("A6-region-read", f.where(rets[0]) if rets else f.where(), f.scope, unparse(rets[0]) if rets else "<none>", ok,
           "reading a region must return [row[colslice] for row in rows[rowslice]] with the slices normalised against the number "
           "of rows and the width")
