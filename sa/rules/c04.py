"""C04 - FSArray region assignment composites exactly the assigned block (DESIGN.md section 3, C04)."""
import ast
import itertools

from ..fold import new_interp
from ..models import cells, runs_of
from ..objinterp import Obj
from ..report import AnalysisError
from ..srcmodel import is_self_attr, unparse

EXPLANATION = (
    "FSArray.__setitem__ / __getitem__ / fsarray() (and everything they call: normalize_slice, setslice_with_length, splice, "
    "divides, fmtstr ...) are abstractly interpreted on a catalogue of arrays of small shapes and region assignments (regions "
    "inside, straddling and beyond the current height; block rows empty, shorter than, equal to and longer than the "
    "region; plain and formatted rows; int and slice indices; wrong row counts; two assignments in a row) and every "
    "resulting array is compared, cell by cell (character and formatting), with an independent reference model of the "
    "statement: region cells show the block (blank where a block row is shorter), cells outside are untouched, the array grows "
    "downward with blank rows, no row becomes wider than the array, and a rejected assignment changes no cell; region reads "
    "return what the cells show; fsarray(strings, width) builds rows that show the strings and rejects strings wider than "
    "an explicit width (0 included).  Structural side conditions: who may write rows / num_columns; splice returns `self` "
    "only for an empty insertion."
)
NOT_DECIDED = ("shapes and block sizes beyond the catalogue (rows <= 4, width <= 6): the compositing is slice arithmetic over "
               "runtime values, so this is a bounded claim.")

BLANK = (" ", ())


class Ref:
    """Independent reference model: rows are lists of (char, attributes-that-are-on)."""

    def __init__(self, rows, width):
        self.rows = [list(r) for r in rows]
        self.width = width

    def copy(self):
        return Ref(self.rows, self.width)

    def shown(self):
        return [r + [BLANK] * (self.width - len(r)) for r in self.rows]

    def assign(self, r0, r1, c0, c1, block):
        """Returns None on success, or raises ValueError (any error) leaving self unchanged."""
        if r1 - r0 == 0 or c1 - c0 == 0:
            rows = [list(r) for r in self.rows]
            while len(rows) < r1:
                rows.append([])
            self.rows = rows
            return
        if len(block) != r1 - r0:
            raise ValueError("row count")
        rows = [list(r) for r in self.rows]
        while len(rows) < r1:
            rows.append([])
        for i, b in enumerate(block):
            row = rows[r0 + i]
            b = list(b)
            rw = c1 - c0
            if len(row) < c0:
                row = row + [BLANK] * (c0 - len(row))
            if len(row) > c1:
                if len(b) > rw:
                    raise ValueError("reaches into existing content")
                b = b + [BLANK] * (rw - len(b))
                row = row[:c0] + b + row[c1:]
            else:
                row = row[:c0] + b
            if len(row) > self.width:
                raise ValueError("wider than the array")
            rows[r0 + i] = row
        self.rows = rows


def _cells_of_rows(arr):
    return [cells(runs_of(x)) for x in arr.fields["rows"]]


def _shown(arr):
    w = arr.fields["num_columns"]
    return [r + [BLANK] * (w - len(r)) for r in _cells_of_rows(arr)]


def _strip(shown):
    """blank cells compare equal whatever formatting a blank has"""
    return [[(c, e if c != " " else ()) for c, e in r] for r in shown]


def rule_semantic(src, rep, counts):
    it = new_interp(src)
    f = src.func("formatstringarray", "FSArray.__setitem__")
    red = lambda s: it.call1("formatstring", "fmtstr", s, "red")[1]     # noqa: E731

    def build(strings, width):
        r = it.call1("formatstringarray", "fsarray", list(strings), width)
        if r[0] != "ok":
            raise AnalysisError("fsarray(%r, %r) not evaluable: %s" % (strings, width, r))
        return r[1]

    arrays = [(["abcdef", "ab", "", "abcd"], 6), (["ab"], 4), ([], 3), (["abc", "abc"], 3), (["", ""], 0)]
    blocks_1 = ["", "x", "xy", "xyz", "wxyz", "vwxyzq"]
    if rep.tier == "thorough":
        arrays += [(["a", "abcde", "abc"], 5), ([""], 1), (["ab", "", "", "a"], 2), (["abcd"], 4), (["", "abc"], 6), ([], 0)]
        blocks_1 += ["vwxyz", "uvwxyzq"]
    n = 0
    bad = {"A-region-shows-block-rest-untouched": [], "A-rejected-assignment-changes-nothing": [], "A-empty-block-row-blanks-the-region": [],
           "A-never-wider-than-the-array": []}
    cases = []
    for strings, width in arrays:
        H = len(strings)
        row_regions = [(0, 1), (1, 3), (H, H + 1), (max(0, H - 1), H + 1), (H + 2, H + 3)]
        col_regions = [(0, 2), (1, 3), (2, width), (0, width), (1, 1)]
        # regions that start at or beyond the right edge: nothing fits there, so only an empty block row can be assigned
        edge_regions = [(width, width + 2), (width + 1, width + 2)]
        for (r0, r1), (c0, c1) in itertools.product(row_regions[:3], edge_regions):
            for bl in ("", "x", "xy"):
                cases.append((strings, width, r0, r1, c0, c1, [bl] * (r1 - r0), False))
        for (r0, r1), (c0, c1) in itertools.product(row_regions, col_regions):
            if c1 > width or c0 > c1:
                continue
            for bl in blocks_1:
                cases.append((strings, width, r0, r1, c0, c1, [bl] * (r1 - r0), False))
            cases.append((strings, width, r0, r1, c0, c1, ["x"] * (r1 - r0 + 1), False))          # wrong row count
            cases.append((strings, width, r0, r1, c0, c1, (["xy", "", "q", "xyz"] * 2)[:r1 - r0], True))   # mixed, formatted
            cases.append((strings, width, r0, r1, c0, c1, (["q", "xy", "", "x"] * 2)[:r1 - r0], "array"))   # block given as an FSArray
            cases.append((strings, width, r0, r1, c0, c1, (["xy", "", "q", "xyz"] * 2)[:r1 - r0], "ctor"))   # array built with bg='blue'
            cases.append((strings, width, r0, r1, c0, c1, (["q", "xy", "", "x"] * 2)[:r1 - r0], "ctor-pos"))   # ... with 'on_blue' positionally
            same = [(strings[r][c0:c1] if r < H else "") for r in range(r0, r1)]
            if any(same):
                cases.append((strings, width, r0, r1, c0, c1, same, True))      # the text already there, other formatting
    def one(case):
        strings, width, r0, r1, c0, c1, block, fmt = case
        ctor, cpos = {}, ()
        if fmt == "ctor":
            # constructor formatting arguments: fsarray(strings, width, bg='blue') - rows show the strings on blue
            ctor, fmt = {"bg": "blue"}, False
        elif fmt == "ctor-pos":
            # the same given positionally: fsarray(strings, width, 'on_blue')
            ctor, cpos, fmt = {"bg": "blue"}, ("on_blue",), False
        r = it.call1("formatstringarray", "fsarray", list(strings), width, *cpos, **({} if cpos else ctor))
        if r[0] != "ok":
            return ("error", "fsarray(%r, %r) not evaluable: %s" % (strings, width, r))
        arr = r[1]
        ref = Ref([[(ch, (("bg", 44),) if ctor else ()) for ch in s] for s in strings], width)
        vals = [red(b) if fmt is True and b else b for b in block]
        bcells = [[(ch, (("fg", 31),) if fmt is True and b else ()) for ch in b] for b in block]
        if fmt == "array":
            v = it.call1("formatstringarray", "fsarray", list(block), max([len(b) for b in block] + [0]))
            if v[0] != "ok":
                return ("error", "fsarray(%r) not evaluable: %s" % (block, v))
            vals = v[1]
        before = _strip(_shown(arr))
        h_before = len(arr.fields["rows"])
        r = it.call1("formatstringarray", "FSArray.__setitem__", arr, (slice(r0, r1), slice(c0, c1)), vals if fmt == "array" else list(vals))
        if r[0] == "opaque":
            return ("error", "FSArray.__setitem__ outside the evaluated subset: %s" % r[1])
        expect_err = False
        ref2 = ref.copy()
        try:
            ref2.assign(r0, r1, c0, c1, bcells)
        except ValueError:
            expect_err = True
        after = _strip(_shown(arr))
        desc = "array %r (width %d%s): a[%d:%d, %d:%d] = %r%s" % (strings, width, ", built with 'on_blue'" if cpos else ", built with bg='blue'" if ctor else "", r0, r1, c0, c1, block,
                                                                 " (red)" if fmt is True else " (as FSArray)" if fmt else "")
        if any(len(x) > width for x in _cells_of_rows(arr)):
            return ("A-never-wider-than-the-array", desc, "a row is wider than the array: %s" % [len(x) for x in _cells_of_rows(arr)])
        if expect_err:
            ok = r[0] == "raise" and after[:h_before] == before and all(all(c == BLANK for c in row) for row in after[h_before:])
            if not ok:
                return ("A-rejected-assignment-changes-nothing", desc, "expected an error and no cell changed; got %s and rows %s" % (r, _txt(after)))
        else:
            want = _strip(ref2.shown())
            ok = r == ("ok", None) and after == want
            if not ok:
                kind = "A-empty-block-row-blanks-the-region" if any(b == "" for b in block) and r == ("ok", None) and \
                    _only_empty_rows_differ(after, want, block, r0) else "A-region-shows-block-rest-untouched"
                return (kind, desc, "cells are %s, expected %s%s" % (_txt(after), _txt(want), "" if r == ("ok", None) else "; result %s" % (r,)))
        return None
    from ..par import pmap
    for case, res in zip(cases, pmap(one, cases, min_chunk=16)):
        n += 1
        strings, width, r0, r1, c0, c1, block, fmt = case
        rep.case(True, {"array": strings, "width": width, "region": [r0, r1, c0, c1], "block": block} if n % 211 == 1 else None)
        if res is None:
            continue
        if res[0] == "error":
            raise AnalysisError(res[1])
        bad[res[0]].append((res[1], res[2]))
    for rule, items in bad.items():
        if items:
            d, why = items[0]
            rep.ob(rule, f.where(), f.scope, _group_key(rule), False, "%s: %s (%d such cases)" % (d, why, len(items)),
                   witness={"first_case": d, "cases": len(items)})
        else:
            rep.ob(rule, f.where(), f.scope, _group_key(rule), True)
    counts["assign_cases"] = n
    # int indices: a[r, c] = [x]
    for strings, width, rr, cc in ((["abcd", "efgh"], 4, 4, 1), (["abcd", "efgh"], 4, 1, 3), (["ab"], 5, 0, 4), ([], 3, 2, 1)):
        arr = build(strings, width)
        ref = Ref([[(ch, ()) for ch in s] for s in strings], width)
        r = it.call1("formatstringarray", "FSArray.__setitem__", arr, (rr, cc), ["x"])
        ref.assign(rr, rr + 1, cc, cc + 1, [[("x", ())]])
        ok = r == ("ok", None) and _strip(_shown(arr)) == _strip(ref.shown())
        rep.ob("A-int-index-assignment", f.where(), f.scope, "array %r: a[%d, %d] = ['x']" % (strings, rr, cc), ok,
               "a single-cell assignment at or beyond the current height must grow the array with blank rows and set the cell; got %s, "
               "rows %s (expected %s)" % (r, _txt(_strip(_shown(arr))), _txt(_strip(ref.shown()))),
               witness={"history": "fsarray(%r)[%d, %d] = ['x']" % (strings, rr, cc)})
        rep.case(True)
    # int indices with a block that does not have exactly one row: rejected, nothing changes - whether or not the row exists yet
    for strings, width, rr, cc, block in ((["abcd", "efgh"], 4, 0, 2, ["X", "Y"]), (["abcd", "efgh"], 4, 1, 0, []), (["ab"], 5, 3, 1, ["X", "Y"]),
                                          (["abcd", "efgh"], 4, 0, 2, "fsarray"), (["abcd"], 4, 0, 1, ["X", "Y", "Z"])):
        arr = build(strings, width)
        before = _strip(_shown(arr))
        val = build(["X", "Y"], 1) if block == "fsarray" else list(block)
        r = it.call1("formatstringarray", "FSArray.__setitem__", arr, (rr, cc), val)
        if r[0] == "opaque":
            raise AnalysisError("FSArray.__setitem__ outside the evaluated subset: %s" % r[1])
        after = _strip(_shown(arr))
        ok = r[0] == "raise" and after[:len(before)] == before and all(all(c == BLANK for c in row) for row in after[len(before):])
        rep.ob("A-int-index-assignment", f.where(), f.scope, "array %r: a[%d, %d] = %s" % (strings, rr, cc, "a two-row FSArray" if block == "fsarray" else block), ok,
               "a block with the wrong number of rows must be rejected and change no cell; got %s, rows %s" % (r, _txt(after)),
               witness={"history": "fsarray(%r)[%d, %d] = %r" % (strings, rr, cc, block)})
        rep.case(True)
    # sequences of assignments (histories)
    histories = [
        (["abcdef", "ab"], 6, [((0, 2, 1, 3), ["XY", "Z"], True), ((1, 3, 0, 2), ["", "pq"], False), ((0, 1, 1, 3), ["xy"], False),
                               ((0, 3, 4, 6), ["1", "22", "333"], False)]),
        (["abcdef", "ab"], 6, [((0, 2, 1, 3), ["XY", "Z"], True), ((0, 2, 1, 3), ["XY", "Z"], False), ((0, 1, 0, 6), ["abc"], True),
                               ((0, 1, 0, 6), ["abc"], False), ((0, 1, 0, 3), ["abc"], True), ((3, 4, 2, 4), ["k"], False)]),
        ([], 4, [((1, 2, 1, 3), ["ab"], True), ((0, 2, 0, 4), ["", " ab"], False), ((0, 3, 3, 4), ["1", "2", "3"], True),
                 ((1, 2, 0, 4), ["wxyz"], False), ((1, 2, 1, 3), ["xy"], True), ((1, 2, 1, 3), ["xyz"], False), ((1, 2, 2, 4), [""], False)]),
    ]
    for strings, width, steps in histories:
        arr = build(strings, width)
        ref = Ref([[(ch, ()) for ch in s] for s in strings], width)
        trail = []
        for (r0, r1, c0, c1), block, fmt in steps:
            vals = [red(b) if fmt and b else b for b in block]
            bcells = [[(ch, (("fg", 31),) if fmt and b else ()) for ch in b] for b in block]
            before = _strip(_shown(arr))
            r = it.call1("formatstringarray", "FSArray.__setitem__", arr, (slice(r0, r1), slice(c0, c1)), list(vals))
            if r[0] == "opaque":
                raise AnalysisError("FSArray.__setitem__ outside the evaluated subset: %s" % r[1])
            trail.append("a[%d:%d, %d:%d] = %r%s" % (r0, r1, c0, c1, block, " (red)" if fmt else ""))
            ref2 = ref.copy()
            try:
                ref2.assign(r0, r1, c0, c1, bcells)
                ref = ref2
                ok = r == ("ok", None) and _strip(_shown(arr)) == _strip(ref.shown())
            except ValueError:
                ok = r[0] == "raise" and _strip(_shown(arr))[:len(before)] == before
            rep.ob("A-assignment-history", f.where(), f.scope, "fsarray(%r, %d): %s" % (strings, width, "; ".join(trail)), ok,
                   "after the last step of this sequence of assignments the cells are %s, expected %s (result %s; * marks a formatted row)"
                   % (_fmt(_strip(_shown(arr))), _fmt(_strip(ref.shown())), r), witness={"history": trail})
            rep.case(True)
            if not ok:
                break
    # region reads
    g = src.func("formatstringarray", "FSArray.__getitem__")
    arr = build(["abcdef", "ab", "", "abcd"], 6)
    it.call1("formatstringarray", "FSArray.__setitem__", arr, (slice(0, 2), slice(1, 3)), [red("XY"), red("Z")])
    rows = _cells_of_rows(arr)
    m = bad_r = 0
    for idx, want in [((slice(0, 2), slice(1, 4)), [rows[0][1:4], rows[1][1:4]]), ((slice(1, 4), slice(0, 6)), [rows[1][0:6], rows[2][0:6], rows[3][0:6]]),
                      ((1, 1), [rows[1][1:2]]), ((2, 3), [rows[2][3:4]]), ((1, 5), [rows[1][5:6]]), ((3, slice(2, 6)), [rows[3][2:6]]),
                      ((slice(0, 4), 0), [r[0:1] for r in rows]), ((0, slice(None, None)), [rows[0]])]:
        r = it.call1("formatstringarray", "FSArray.__getitem__", arr, idx)
        if r[0] == "opaque":
            raise AnalysisError("FSArray.__getitem__ outside the evaluated subset: %s" % r[1])
        m += 1
        got = [cells(runs_of(x)) for x in r[1]] if r[0] == "ok" and isinstance(r[1], list) else r
        rep.case(True)
        if got != want:
            bad_r += 1
            if bad_r <= 3:
                rep.ob("A-region-read-returns-what-cells-show", g.where(), g.scope, "a[%s]" % (idx,), False,
                       "reading a[%s] gives %s, the cells show %s (a blank cell right of a short row reads as nothing, not as an error)"
                       % (idx, got, want), witness={"index": str(idx)})
    if not bad_r:
        rep.ob("A-region-read-returns-what-cells-show", g.where(), g.scope, "%d region / cell reads" % m, True)
    # what a read returns is the reader's: editing it, or assigning to the array afterwards, does not reach the other
    for idx, label in ((slice(None, None), "a[:]"), (slice(0, 4), "a[0:4]"), ((slice(0, 4), slice(0, 6)), "a[0:4, 0:6]")):
        arr2 = build(["abcdef", "ab", "", "abcd"], 6)
        before = _strip(_shown(arr2))
        r = it.call1("formatstringarray", "FSArray.__getitem__", arr2, idx)
        ok, why = True, ""
        if r[0] == "ok" and isinstance(r[1], list):
            n_read = len(r[1])
            r[1].reverse()
            r[1].append(red("zz"))
            if _strip(_shown(arr2)) != before:
                ok, why = False, "after the caller reversed and extended the list %s returned, the array shows %s (it showed %s)" % (label, _txt(_strip(_shown(arr2))), _txt(before))
            else:
                r2 = it.call1("formatstringarray", "FSArray.__getitem__", arr2, idx)
                it.call1("formatstringarray", "FSArray.__setitem__", arr2, (slice(5, 6), slice(0, 1)), ["q"])
                if r2[0] == "ok" and isinstance(r2[1], list) and len(r2[1]) != n_read:
                    ok, why = False, "a list read with %s before an assignment that grows the array has %d rows afterwards (it had %d)" % (label, len(r2[1]), n_read)
        rep.ob("A-region-read-returns-what-cells-show", g.where(), g.scope, "%s handed to the caller" % label, ok, why)
        rep.case(True)
    r = it.call1("formatstringarray", "FSArray.__getitem__", arr, 1)
    rep.ob("A-row-read", g.where(), g.scope, "a[1]", r[0] == "ok" and isinstance(r[1], Obj) and cells(runs_of(r[1])) == rows[1], "a[1] gives %s" % (r,))
    # fsarray()
    h = src.func("formatstringarray", "fsarray")
    for strings, width, want in ((["abc", "d"], None, ("ok", 3)), (["abc", "d"], 5, ("ok", 5)), (["abc"], 2, "raise"), (["abc"], 0, "raise"),
                                 (["", ""], 0, ("ok", 0)), ([], None, ("ok", 0)), ([], 4, ("ok", 4)), (["abc"], 3, ("ok", 3))):
        r = it.call1("formatstringarray", "fsarray", list(strings), width)
        if r[0] == "opaque":
            raise AnalysisError("fsarray outside the evaluated subset: %s" % r[1])
        if want == "raise":
            ok = r[0] == "raise"
        else:
            ok = r[0] == "ok" and r[1].fields.get("num_columns") == want[1] and \
                [[c for c, _ in x] for x in _cells_of_rows(r[1])] == [list(s) for s in strings]
        rep.ob("A-fsarray-builds-rows-that-show-the-strings", h.where(), h.scope, "fsarray(%r, %r)" % (strings, width), ok,
               "fsarray(%r, %r) must %s; got %s" % (strings, width, "raise (a string is wider than the requested width)" if want == "raise"
                                                    else "build %d-column rows showing the strings" % want[1],
                                                    r if r[0] != "ok" else (r[1].fields.get("num_columns"), _txt(_cells_of_rows(r[1])))))
        rep.case(True)

    # formatting arguments apply to the plain strings; a line that already is a FmtStr shows as it was given
    r = it.call1("formatstringarray", "fsarray", [red("ab"), "cd"], 4, bg="blue")
    if r[0] == "opaque":
        raise AnalysisError("fsarray outside the evaluated subset: %s" % r[1])
    rows2 = _cells_of_rows(r[1]) if r[0] == "ok" else None
    want2 = [[("a", (("fg", 31),)), ("b", (("fg", 31),))], [("c", (("bg", 44),)), ("d", (("bg", 44),))]]
    rep.ob("A-fsarray-builds-rows-that-show-the-strings", h.where(), h.scope, "fsarray([red('ab'), 'cd'], 4, bg='blue')", rows2 == want2,
           "the rows show %s; the first line was given as red 'ab' and has to show as given, the second is 'cd' on blue" % (rows2 if rows2 is not None else r,))
    rep.case(True)


def _group_key(rule):
    return {"A-region-shows-block-rest-untouched": "catalogue of region assignments vs reference grid",
            "A-rejected-assignment-changes-nothing": "assignments the reference rejects (wrong row count, row too long)",
            "A-empty-block-row-blanks-the-region": "block rows that are empty strings",
            "A-never-wider-than-the-array": "row widths after every assignment"}[rule]


def _txt(shown):
    return ["".join(c for c, _ in r) + ("*" if any(e for _, e in r) else "") for r in shown]


def _fmt(shown):
    return ["".join(c.upper() if e else c for c, e in r) if all(c.islower() or not c.isalpha() for c, _ in r) else
            "".join(c for c, _ in r) + "/" + "".join("^" if e else "." for _, e in r) for r in shown]


def _only_empty_rows_differ(after, want, block, r0):
    for i, (a, w) in enumerate(zip(after, want)):
        if a != w:
            j = i - r0
            if not (0 <= j < len(block) and block[j] == ""):
                return False
    return len(after) == len(want)


def rule_writers(src, rep, counts):
    allowed = {("formatstringarray", "FSArray.__init__"), ("formatstringarray", "FSArray.__setitem__"), ("formatstringarray", "fsarray")}
    n = 0
    for g in src.all_funcs():
        for node in g.own_nodes():
            tg = node.targets if isinstance(node, (ast.Assign, ast.Delete)) else [node.target] if isinstance(node, (ast.AugAssign, ast.AnnAssign)) else []
            for t in tg:
                for a in ast.walk(t):
                    if isinstance(a, ast.Attribute) and a.attr == "rows" and isinstance(a.ctx, (ast.Store, ast.Del)):
                        n += 1
                        helper = g.module.name == "formatstringarray" and (g.cls is not None and g.cls.name == "FSArray" or g.qualname == "fsarray")
                        rep.ob("A5-who-may-write-rows", g.where(node), g.scope, unparse(node).split("\n")[0][:100],
                               (g.module.name, g.qualname) in allowed or helper or g.module.name in ("events",),
                               "FSArray.rows is written outside the FSArray class / fsarray()")
                    if isinstance(a, ast.Attribute) and a.attr == "num_columns" and isinstance(a.ctx, (ast.Store, ast.Del)):
                        rep.ob("A5-width-is-fixed", g.where(node), g.scope, unparse(node).split("\n")[0][:100],
                               g.qualname == "FSArray.__init__", "the array's width is changed after construction")
    counts["row_writers"] = n


def check(src, rep):
    rep.explanation = EXPLANATION
    rep.not_decided = NOT_DECIDED
    rep.assumptions = ["list / slice semantics of CPython for the values the evaluator folds"]
    rep.trusted_base = ["CPython ast", "sa/consteval.py", "sa/absint.py", "sa/objinterp.py", "the reference grid model in sa/rules/c04.py"]
    counts = {}
    rep.guard(rule_semantic, src, rep, counts)
    rep.guard(rule_writers, src, rep, counts)
    rep.extracted["counts"] = counts
    rep.floor("assignment cases", counts.get("assign_cases", 0), 300)
    rep.floor("stores to rows", counts.get("row_writers", 0), 3)
