"""C12, interpreted part: the package's context managers run against the reference OS model and terminal model."""
import itertools

from .. import osmodel, termmodel
from ..consteval import ExcName, Record
from ..fold import new_interp
from ..objinterp import NativeFunc
from ..report import AnalysisError
from ..winmodel import Rig

TTY_A = None        # the OS model's default attributes
TTY_B = [0x500, 0, 0xb0, 0x0a30, 13, 13, [bytes([0x40 + i]) for i in range(32)]]   # already raw-ish, other speeds, other cc
FLAGS = [2, 2 | osmodel.O_NONBLOCK, 0x8002]

GROUPS = {
    "X1-leaving-restores-what-entering-changed": "state after enter / exit of each context manager and configuration",
    "X2-exception-inside-the-body-still-restores": "state after an exception leaves the body at each crash point",
    "X3-stream-blocking-between-requests": "file status flags of the input stream after each request",
    "X4-repeated-use-leaks-no-descriptors": "descriptor table after repeated enter / exit cycles",
    "X5-nested-contexts-restore": "state after nested contexts on the same terminal are left",
    "X6-cursor-visible-and-main-screen-untouched": "terminal after a window's context is left",
}


def stream(fd=0, name="<stdin>"):
    return Record(fileno=NativeFunc(lambda a, k: fd), name=name, encoding="utf-8", isatty=NativeFunc(lambda a, k: True))


def diff(before, after):
    out = []
    for k in before:
        if before[k] != after[k]:
            b, a = before[k], after[k]
            if k == "SIGINT handler":
                b, a = "the handler installed before (%s)" % ("SIG_DFL" if b == 0 else "SIG_IGN" if b == 1 else "a function"), "a different handler"
            out.append("%s: %s before, %s after" % (k, b, a))
    return "; ".join(out)


EXC = ("KeyboardInterrupt", "KeyboardInterrupt", None)


def _exit(it, obj, exc):
    args = (ExcName("KeyboardInterrupt"), ExcName("KeyboardInterrupt"), None) if exc else (None, None, None)
    return it.callm(obj, "__exit__", *args)


def _must(r, what):
    if r[0] == "opaque":
        raise AnalysisError("%s outside the evaluated subset: %s" % (what, r[1]))
    return r


# ---- scenarios --------------------------------------------------------------------------------------------

def helper_cm(it, job):
    """Nonblocking / Termmode / Cbreak alone: enter, (use the object __enter__ returned), exit."""
    _, cls, tty, flags, exc, later = job
    osm = osmodel.OS(tty_attrs=tty, flags=flags)
    osmodel.install(it, osm)
    s = stream()
    desc = "%s(stream) with %s and file status flags %#x: %senter, leave %s" % (
        cls, "the default tty attributes" if tty is None else "raw-ish tty attributes", flags,
        "constructed, then the flags / attributes change (O_APPEND set, ISIG cleared), " if later else "", "by KeyboardInterrupt" if exc else "normally")
    args = (s, osm.tcgetattr([s], {})) if cls == "Termmode" else (s,)
    try:
        obj = it.new("termhelpers", cls, *args)
    except Exception as e:
        raise AnalysisError("constructing %s: %s" % (cls, e))
    if later:
        osm.flags[0] ^= 0x400
        osm.tty[0][3] ^= 1
        osm.tty[0][6][5] = b"\x63"
    before = osm.snapshot()
    r = _must(it.callm(obj, "__enter__"), cls + ".__enter__")
    if r[0] != "ok":
        return ("X1-leaving-restores-what-entering-changed", desc, "__enter__ raised %s" % (r[1],))
    inner = r[1]
    if cls == "Nonblocking" and not osm.flags[0] & osmodel.O_NONBLOCK:
        return ("X1-leaving-restores-what-entering-changed", desc, "inside the context the stream is not non-blocking")
    if cls == "Cbreak" and osm.tty[0][3] & (osmodel.ECHO | osmodel.ICANON) and (before["tty attributes"][0][3] & (osmodel.ECHO | osmodel.ICANON)):
        return ("X1-leaving-restores-what-entering-changed", desc, "inside the context the terminal is not in cbreak mode")
    if cls == "Cbreak" and inner is not None and hasattr(inner, "cls"):
        # the Termmode that Cbreak.__enter__ hands out puts the original mode back temporarily
        r2 = _must(it.callm(inner, "__enter__"), "Termmode.__enter__")
        r3 = _must(_exit(it, inner, False), "Termmode.__exit__")
        if r2[0] != "ok" or r3[0] != "ok":
            return ("X1-leaving-restores-what-entering-changed", desc, "the Termmode returned by Cbreak raised on enter/exit")
    r = _must(_exit(it, obj, exc), cls + ".__exit__")
    if r[0] != "ok":
        return ("X1-leaving-restores-what-entering-changed", desc, "__exit__ raised %s" % (r[1],))
    d = diff(before, osm.snapshot())
    if d:
        return ("X1-leaving-restores-what-entering-changed", desc, d)
    # the same object used a second time, from a different starting state: leaving restores what THIS entering changed
    osm.flags[0] ^= 0x1000
    osm.tty[0][3] ^= 0x40
    osm.tty[0][6][6] = b"\x05"
    osm.tty[0][6][5] = b"\x64"
    before = osm.snapshot()
    desc += "; then the state changes (another flag, another local mode bit, VMIN/VTIME) and the same object is entered and left again"
    r = _must(it.callm(obj, "__enter__"), cls + ".__enter__")
    if r[0] != "ok":
        return ("X1-leaving-restores-what-entering-changed", desc, "the second __enter__ raised %s" % (r[1],))
    r = _must(_exit(it, obj, exc), cls + ".__exit__")
    if r[0] != "ok":
        return ("X1-leaving-restores-what-entering-changed", desc, "the second __exit__ raised %s" % (r[1],))
    d = diff(before, osm.snapshot())
    if d:
        return ("X1-leaving-restores-what-entering-changed", desc, d)
    return None


REQUESTS = [
    ("a key arrives", lambda osm: (osm.ready.append([0]), osm.data.setdefault(0, []).append(b"a")), 1),
    ("nothing arrives before the timeout", lambda osm: None, 0.5),
    ("an escape sequence arrives", lambda osm: (osm.ready.append([0]), osm.data.setdefault(0, []).append(b"\x1b[A")), None),
    ("a paste arrives", lambda osm: (osm.ready.append([0]), osm.data.setdefault(0, []).append(b"hello world, pasted")), 1),
    ("select is interrupted, then a key arrives", lambda osm: (osm.ready.extend(["InterruptedError", [0]]), osm.data.setdefault(0, []).append(b"b")), 1),
]


def _mk_input(it, osm, cfg):
    sig, dts = cfg
    return it.new("input", "Input", in_stream=stream(), sigint_event=sig, disable_terminal_start_stop=dts)


def input_plain(it, job):
    _, sig, dts, main, platform, tty, flags, exc, handler = job
    osm = osmodel.OS(tty_attrs=tty, flags=flags, main_thread=main, platform=platform, handler=handler)
    osmodel.install(it, osm)
    desc = "Input(sigint_event=%s, disable_terminal_start_stop=%s) on the %s thread%s, %s, flags %#x, SIGINT handler %s: enter, leave %s" % (
        sig, dts, "main" if main else "non-main", " (darwin)" if platform == "darwin" else "",
        "default tty attributes" if tty is None else "raw-ish tty attributes", flags, handler, "by KeyboardInterrupt" if exc else "normally")
    inp = _mk_input(it, osm, (sig, dts))
    before = osm.snapshot()
    r = _must(it.callm(inp, "__enter__"), "Input.__enter__")
    if r[0] != "ok":
        return ("X1-leaving-restores-what-entering-changed", desc, "__enter__ raised %s" % (r[1],))
    if osm.tty[0][3] & osmodel.ICANON and before["tty attributes"][0][3] & osmodel.ICANON:
        return ("X1-leaving-restores-what-entering-changed", desc, "inside the context the terminal is still in canonical (line) mode")
    r = _must(_exit(it, inp, exc), "Input.__exit__")
    if r[0] != "ok":
        return ("X1-leaving-restores-what-entering-changed", desc, "__exit__ raised %s" % (r[1],))
    d = diff(before, osm.snapshot())
    if d:
        return ("X1-leaving-restores-what-entering-changed", desc, d)
    # the same Input used again from the other kind of thread (an object created and first used on the main thread, handed to a worker)
    osm.main_thread = not main
    desc += "; then the same Input is entered and left on the %s thread" % ("non-main" if main else "main")
    before = osm.snapshot()
    r = _must(it.callm(inp, "__enter__"), "Input.__enter__")
    if r[0] != "ok":
        return ("X1-leaving-restores-what-entering-changed", desc, "the second __enter__ raised %s" % (r[1],))
    r = _must(_exit(it, inp, exc), "Input.__exit__")
    d = diff(before, osm.snapshot())
    if r[0] != "ok" or d:
        return ("X1-leaving-restores-what-entering-changed", desc, ("the second __exit__ raised %s; " % (r[1],) if r[0] != "ok" else "") + (d or "the state is restored"))
    return None


def input_body(it, job):
    """enter; requests, the k-th OS call of the body raising KeyboardInterrupt (k = 0: none); exit; compare."""
    _, sig, dts, main, flags, k = job
    osm = osmodel.OS(flags=flags, main_thread=main)
    osmodel.install(it, osm)
    before = osm.snapshot()
    inp = _mk_input(it, osm, (sig, dts))
    desc = ["Input(sigint_event=%s, disable_terminal_start_stop=%s) on the %s thread, flags %#x: enter" % (sig, dts, "main" if main else "non-main", flags)]
    r = _must(it.callm(inp, "__enter__"), "Input.__enter__")
    if r[0] != "ok":
        return ("X1-leaving-restores-what-entering-changed", desc[0], "__enter__ raised %s" % (r[1],))
    osm.arm(crash_at=k or None)
    crashed = False
    for name, script, timeout in REQUESTS:
        script(osm)
        at = len(osm.trace)
        r = _must(it.callm(inp, "send", timeout), "Input.send")
        if r[0] == "raise":
            crashed = True
            desc.append("request (%s) - KeyboardInterrupt arrives at its call of %s" % (name, osm.trace[-1]) if r[1] == "KeyboardInterrupt"
                        else "request (%s) raises %s" % (name, r[1]))
        else:
            desc.append("request (%s)" % name)
        if osm.flags[0] != flags:
            return ("X3-stream-blocking-between-requests", "; ".join(desc), "after the request the input stream's file status flags are %#x, they were %#x"
                    % (osm.flags[0], flags))
        if crashed:
            if r[1] != "KeyboardInterrupt":
                return ("error", "a scripted request raised %s: %s" % (r[1], "; ".join(desc)), "")
            break
    if k and not crashed:
        return ("done", None, None)        # fewer than k OS calls in the body: the enumeration is complete
    r = _must(_exit(it, inp, crashed), "Input.__exit__")
    desc.append("leave %s" % ("by that exception" if crashed else "normally"))
    rule = "X2-exception-inside-the-body-still-restores" if crashed else "X1-leaving-restores-what-entering-changed"
    if r[0] != "ok":
        return (rule, "; ".join(desc), "__exit__ raised %s" % (r[1],))
    d = diff(before, osm.snapshot())
    if d:
        return (rule, "; ".join(desc), d)
    return None


def input_cycles(it, job):
    _, sig, same_object, with_trigger = job
    osm = osmodel.OS()
    osmodel.install(it, osm)
    before = osm.snapshot()
    inp = _mk_input(it, osm, (sig, False))
    desc = "3 cycles of enter / request%s / exit on %s (sigint_event=%s)" % (
        " / threadsafe_event_trigger" if with_trigger else "", "one Input object" if same_object else "fresh Input objects", sig)
    for i in range(3):
        if not same_object and i:
            inp = _mk_input(it, osm, (sig, False))
        r = _must(it.callm(inp, "__enter__"), "Input.__enter__")
        if r[0] != "ok":
            return ("X4-repeated-use-leaks-no-descriptors", desc, "__enter__ raised %s in cycle %d" % (r[1], i + 1))
        REQUESTS[0][1](osm)
        _must(it.callm(inp, "send", 1), "Input.send")
        if with_trigger:
            r = _must(it.callm(inp, "threadsafe_event_trigger", None), "Input.threadsafe_event_trigger")
            if r[0] != "ok":
                return ("error", "threadsafe_event_trigger raised %s" % (r[1],), "")
        r = _must(_exit(it, inp, False), "Input.__exit__")
        if r[0] != "ok":
            return ("X4-repeated-use-leaks-no-descriptors", desc, "__exit__ raised %s in cycle %d" % (r[1], i + 1))
    after = osm.snapshot()
    if after["open descriptors"] != before["open descriptors"]:
        leaked = len(after["open descriptors"]) - len(before["open descriptors"])
        why = "%d descriptor(s) stay open: %s" % (leaked, [f for f in after["open descriptors"] if f not in before["open descriptors"]])
        if with_trigger:
            return ("X4-repeated-use-leaks-no-descriptors-trigger", desc, why,
                    "each enter / threadsafe_event_trigger / exit cycle leaves %s descriptor(s) open" % (leaked / 3.0 if leaked % 3 else leaked // 3))
        return ("X4-repeated-use-leaks-no-descriptors", desc, why)
    d = diff(before, after)
    if d:
        return ("X1-leaving-restores-what-entering-changed", desc, d)
    return None


def nested(it, job):
    """Two contexts on the same terminal, one inside the other: leaving the inner one restores what IT changed (the state the
    outer one had set up), leaving the outer one restores the original state."""
    _, outer, inner, sig, exc = job
    osm = osmodel.OS()
    osmodel.install(it, osm)

    def make(kind):
        if kind == "Input":
            return _mk_input(it, osm, (sig, True))
        return it.new("termhelpers", kind, stream())
    before = osm.snapshot()
    a = make(outer)
    desc = "%s inside %s%s" % (inner, outer, " (sigint_event=True)" if sig else "")
    r = _must(it.callm(a, "__enter__"), outer + ".__enter__")
    if r[0] != "ok":
        return ("X5-nested-contexts-restore", desc, "outer __enter__ raised %s" % (r[1],))
    mid = osm.snapshot()
    b = make(inner)
    r = _must(it.callm(b, "__enter__"), inner + ".__enter__")
    if r[0] != "ok":
        return ("X5-nested-contexts-restore", desc, "inner __enter__ raised %s" % (r[1],))
    r = _must(_exit(it, b, exc), inner + ".__exit__")
    if r[0] != "ok":
        return ("X5-nested-contexts-restore", desc, "inner __exit__ raised %s" % (r[1],))
    d = diff(mid, osm.snapshot())
    if d:
        return ("X5-nested-contexts-restore", desc + ": after leaving the inner context", "the state the outer context had set up is not back: " + d)
    r = _must(_exit(it, a, exc), outer + ".__exit__")
    if r[0] != "ok":
        return ("X5-nested-contexts-restore", desc, "outer __exit__ raised %s" % (r[1],))
    d = diff(before, osm.snapshot())
    if d:
        return ("X5-nested-contexts-restore", desc + ": after leaving both", d)
    return None


def window(it, job):
    """A window alone or around an Input on the same terminal; renders; optional crash at the k-th write; exit."""
    _, cls, hide, keep, with_input, k = job
    osm = osmodel.OS()
    osmodel.install(it, osm)
    scr = termmodel.Screen(4, 6)
    scr.feed("$ ls\r\nfile\r\n$ app\r\n")
    kw = {"hide_cursor": hide}
    if cls == "CursorAwareWindow":
        kw["keep_last_line"] = keep
    rig = Rig(it, cls, 4, 6, screen=scr, init_kwargs=kw, real_cbreak=True)
    main_rows = [list(r) for r in scr.rows]
    main_sb = [list(r) for r in scr.scrollback]
    W = len(scr.scrollback) + scr.r
    before = osm.snapshot()
    desc = ["%s(hide_cursor=%s%s): enter" % (cls, hide, ", keep_last_line=%s" % keep if cls == "CursorAwareWindow" else "")]
    r = rig.call("__enter__")
    if r[0] != "ok":
        return ("X1-leaving-restores-what-entering-changed", desc[0], "__enter__ raised %s" % (r[1],))
    inp = None
    if with_input:
        inp = _mk_input(it, osm, (True, False))
        r = _must(it.callm(inp, "__enter__"), "Input.__enter__")
        desc.append("enter Input(sigint_event=True) on the same terminal")
    rig.writes = 0
    rig.crash_at_write = k or None
    crashed = False
    fs = lambda s: it.call1("formatstring", "fmtstr", s)[1]      # noqa: E731
    for arr in ([fs("ab"), fs("c")], [fs("abcdef"), fs("x"), fs("y"), fs("z"), fs("w")], []):
        r = rig.call("render_to_terminal", arr, (0, 0))
        desc.append("render %d row(s)" % len(arr))
        if r[0] == "raise":
            crashed = True
            desc[-1] += " - KeyboardInterrupt arrives at write %d" % k
            break
        if not hide and not scr.visible:
            return ("X6-cursor-visible-and-main-screen-untouched", "; ".join(desc), "hide_cursor is off but the render left the cursor hidden")
    if k and not crashed:
        return ("done", None, None)
    if inp is not None:
        r = _must(_exit(it, inp, crashed), "Input.__exit__")
        desc.append("leave the Input")
    rig.crash_at_write = None
    r = rig.call("__exit__", *((ExcName("KeyboardInterrupt"), ExcName("KeyboardInterrupt"), None) if crashed else (None, None, None)))
    desc.append("leave the window %s" % ("by that exception" if crashed else "normally"))
    d = "; ".join(desc)
    rule = "X2-exception-inside-the-body-still-restores" if crashed else ("X5-nested-contexts-restore" if with_input else "X1-leaving-restores-what-entering-changed")
    if r[0] != "ok":
        return (rule, d, "__exit__ raised %s" % (r[1],))
    df = diff(before, osm.snapshot())
    if df:
        return (rule, d, df)
    if not scr.visible:
        return ("X6-cursor-visible-and-main-screen-untouched", d, "the cursor is left hidden")
    if cls == "FullscreenWindow":
        if scr.alt is not None:
            return ("X6-cursor-visible-and-main-screen-untouched", d, "the terminal is left on the alternate screen")
        if [list(r) for r in scr.rows] != main_rows or [list(r) for r in scr.scrollback] != main_sb:
            return ("X6-cursor-visible-and-main-screen-untouched", d, "the main screen's content changed: %s" % scr.text())
    else:
        if [list(r) for r in scr.absolute()[:W]] != (main_sb + main_rows)[:W]:
            return ("X6-cursor-visible-and-main-screen-untouched", d, "lines above the window changed")
    return None


SCENARIOS = {"helper": helper_cm, "input": input_plain, "body": input_body, "cycles": input_cycles, "window": window, "nested": nested}


def jobs_for(tier):
    jobs = []
    for cls, tty, flags, exc, later in itertools.product(("Nonblocking", "Termmode", "Cbreak"), (TTY_A, TTY_B), FLAGS, (False, True), (False, True)):
        jobs.append(("helper", cls, tty, flags, exc, later))
    for sig, dts, main, platform, tty, flags, exc in itertools.product((False, True), (False, True), (True, False), ("linux", "darwin"),
                                                                       (TTY_A, TTY_B), FLAGS[:2], (False, True)):
        if tier == "quick" and platform == "darwin" and (tty is TTY_B or flags != 2):
            continue
        for handler in ("default_int_handler", "SIG_DFL", "SIG_IGN"):
            if handler != "default_int_handler" and (tier == "quick" and (tty is TTY_B or flags != 2 or platform == "darwin")):
                continue
            jobs.append(("input", sig, dts, main, platform, tty, flags, exc, handler))
    for sig, dts, main, flags in itertools.product((False, True), (False, True), (True, False), FLAGS[:2]):
        if tier == "quick" and dts and (not main or flags != 2):
            continue
        for k in range(0, 60):
            jobs.append(("body", sig, dts, main, flags, k))
    for sig, same, trig in itertools.product((False, True), (True, False), (False, True)):
        jobs.append(("cycles", sig, same, trig))
    for outer, inner, sig, exc in itertools.product(("Input", "Cbreak", "Nonblocking"), ("Input", "Cbreak", "Nonblocking"), (False, True), (False, True)):
        jobs.append(("nested", outer, inner, sig, exc))
    for cls, hide, keep, with_input in itertools.product(("FullscreenWindow", "CursorAwareWindow"), (True, False), (False, True), (False, True)):
        if cls == "FullscreenWindow" and keep:
            continue
        for k in range(0, 40):
            jobs.append(("window", cls, hide, keep, with_input, k))
    return jobs


def run(src, rep, counts):
    from ..par import pmap
    it = new_interp(src)
    jobs = jobs_for(rep.tier)

    def one(job):
        try:
            it.folder.overrides.clear()
            return SCENARIOS[job[0]](it, job)
        except AnalysisError as e:
            return ("error", "%s: %s" % (job, e), "")
    results = pmap(one, jobs, min_chunk=8)
    bad = {}
    n = 0
    for job, res in zip(jobs, results):
        if res is not None and res[0] == "done":
            continue
        n += 1
        rep.case(True, {"scenario": repr(job)[:160]} if n % 97 == 1 else None)
        if res is None:
            continue
        if res[0] == "error":
            raise AnalysisError(res[1])
        bad.setdefault(res[0], []).append(res[1:])
    anchor = {"X3-stream-blocking-between-requests": ("input", "Input._nonblocking_read"),
              "X4-repeated-use-leaks-no-descriptors-trigger": ("input", "Input.threadsafe_event_trigger")}
    groups = dict(GROUPS)
    groups["X4-repeated-use-leaks-no-descriptors-trigger"] = "descriptor table after repeated cycles that create a threadsafe event trigger"
    for rule, group in groups.items():
        key = anchor.get(rule, ("input", "Input.__exit__"))
        f = src.funcs.get(key) or src.func("input", "Input.__exit__")
        items = bad.get(rule, [])
        if items:
            items.sort(key=lambda x: len(x[0]))
            d, why = items[0][:2]
            if len(items[0]) > 2:
                group = items[0][2]          # the finding itself names the construct (so that a different leak is a different finding)
            rep.ob(rule, f.where(), f.scope, group, False, "%s: %s (%d of %d scenarios fail this rule)" % (d, why, len(items), n),
                   witness={"history": d, "failing_scenarios": len(items)})
        else:
            rep.ob(rule, f.where(), f.scope, group, True)
    counts["scenarios"] = n
    kinds = {}
    for job, res in zip(jobs, results):
        if res is not None and res[0] == "done":
            continue
        k = job[0] if job[0] not in ("body", "window") else "%s%s" % (job[0], " with a crash point" if job[-1] else "")
        kinds[k] = kinds.get(k, 0) + 1
    counts["scenarios_by_kind"] = kinds
