"""Rules about escseqparse.peel_off_esc_code / parse / remove_ansi shared by C05 (R5..R8) and C17 (X2, X3)."""
import ast
import re

from .. import regexast as RX
from ..consteval import TOP
from ..report import AnalysisError
from ..srcmodel import unparse

REF_CSI = r"(?:\x1b\[|\x9b)(?:[0-9]+(?:;[0-9]+)*)?[ -/]*[@-~]"      # ordinary numeric CSI sequence (ECMA-48 5.4, numeric params)
REF_SGR_WRITER = r"\x1b\[[0-9]+m"                                  # what curtsies' own writer emits
REF_STARTS_WITH_INTRODUCER = r"[\x1b\x9b].*"
REF_TWO_BYTE = r"\x1b[@-_]"


def regex_uses(src, fold, f, methods=("search", "match", "fullmatch")):
    """[{pattern, flags, node, method, args (after the pattern), where}] for re.<method>(pattern, ...) calls and for
    <compiled>.<method>(...) calls where <compiled> is a name bound (module level or locally) by re.compile(...)."""
    out = []
    mod = f.module
    env = dict(fold.module(mod.name))
    for n in f.all_nodes():
        if not isinstance(n, ast.Call) or not isinstance(n.func, ast.Attribute) or n.func.attr not in methods:
            continue
        meth = n.func.attr
        c = src.canon(n.func, mod)
        if c and c.startswith("re."):
            pat = fold_local(fold, f, n.args[0]) if n.args else TOP
            flag_pos = {"search": 2, "match": 2, "fullmatch": 2, "finditer": 2, "findall": 2, "sub": 4, "subn": 4, "split": 3}.get(meth, 2)
            flags = RX.flags_from_ast(src, mod, list(n.args[flag_pos:flag_pos + 1]) + [k.value for k in n.keywords if k.arg == "flags"])
            out.append({"pattern": pat, "flags": flags, "node": n, "method": meth, "args": list(n.args[1:]), "keywords": n.keywords,
                        "compiled": False, "where": f.where(n)})
            continue
        if isinstance(n.func.value, ast.Name):
            comp = None
            nm = n.func.value.id
            for st in mod.tree.body:
                if isinstance(st, (ast.Assign, ast.AnnAssign)) and isinstance(getattr(st, "value", None), ast.Call):
                    tg = st.targets if isinstance(st, ast.Assign) else [st.target]
                    if any(isinstance(t, ast.Name) and t.id == nm for t in tg) and (src.canon(st.value.func, mod) or "") == "re.compile":
                        comp = st.value
            from ..cfg import single_defs
            d = single_defs(f.node).get(nm)
            if comp is None and isinstance(d, ast.Call) and (src.canon(d.func, mod) or "") == "re.compile":
                comp = d
            if comp is not None:
                pat = fold_local(fold, f, comp.args[0]) if comp.args else TOP
                if pat is TOP:
                    pat = fold.try_expr(comp.args[0], env) if comp.args else TOP
                flags = RX.flags_from_ast(src, mod, list(comp.args[1:]) + [k.value for k in comp.keywords if k.arg == "flags"])
                out.append({"pattern": pat, "flags": flags, "node": n, "method": meth, "args": list(n.args), "keywords": n.keywords,
                            "compiled": True, "where": "%s (pattern compiled at %s)" % (f.where(n), mod.where(comp))})
    out.sort(key=lambda u: (u["node"].lineno, u["node"].col_offset))
    return out


def _regex_calls(src, f, names=("match", "search", "sub", "finditer", "fullmatch", "compile")):
    out = []
    for n in f.own_nodes():
        if isinstance(n, ast.Call):
            c = src.canon(n.func, f.module)
            if c and c.startswith("re.") and c.split(".")[1] in names:
                out.append((c.split(".")[1], n))
    out.sort(key=lambda x: (x[1].lineno, x[1].col_offset))
    return out


def fold_local(fold, f, expr):
    """Fold an expression inside a function, resolving single-assignment locals (e.g. the pattern string `p`)."""
    from ..cfg import single_defs
    env = dict(fold.module(f.module.name))
    defs = single_defs(f.node)
    for _ in range(3):
        for k, v in defs.items():
            if k not in env or env[k] is TOP:
                val = fold.try_expr(v, env)
                if val is not TOP:
                    env[k] = val
    return fold.try_expr(expr, env)


class TokenizerModel:
    def __init__(self, src, fold):
        self.src, self.fold = src, fold
        self.f = src.func("escseqparse", "peel_off_esc_code")
        self.patterns = []
        for u in regex_uses(src, fold, self.f):
            if not isinstance(u["pattern"], str):
                raise AnalysisError("peel_off_esc_code: pattern of `%s` is not a compile-time constant" % unparse(u["node"])[:60])
            c = u["node"]
            target = None
            p = self.f.module.parent.get(c)
            if isinstance(p, ast.Assign) and isinstance(p.targets[0], ast.Name):
                target = p.targets[0].id
            subj = u["args"][0] if u["args"] else None
            self.patterns.append({"kind": u["method"], "call": c, "pattern": u["pattern"], "flags": u["flags"],
                                  "rx": RX.Regex(u["pattern"], u["flags"]), "var": target,
                                  "subject": unparse(subj) if subj is not None else None, "where": u["where"]})
        self.calls = [(p["kind"], p["call"]) for p in self.patterns]

    def csi(self):
        for p in self.patterns:
            if "numbers" in p["rx"].groupindex:
                return p
        return None

    def two_byte(self):
        for p in self.patterns:
            if "numbers" not in p["rx"].groupindex:
                return p
        return None


def rules_tokenizer(src, rep, fold, prefix, counts):
    tm = TokenizerModel(src, fold)
    f = tm.f
    counts["tokenizer_patterns"] = len(tm.patterns)
    if len(tm.patterns) != 2 or tm.csi() is None or tm.two_byte() is None:
        raise AnalysisError("peel_off_esc_code: expected one CSI pattern (with a `numbers` group) and one two-byte pattern, "
                            "found %d patterns" % len(tm.patterns))
    for p in tm.patterns:
        rx = p["rx"]
        c = p["call"]
        label = "CSI pattern" if p is tm.csi() else "two-byte pattern"
        rep.ob(prefix + "-match-anchored-at-start", f.where(c), f.scope, "re.%s(<%s>, %s)" % (p["kind"], label, p["subject"]),
               p["kind"] == "match" and p["subject"] in f.params(),
               "the tokenizer must match its own parameter from position 0 (re.match)")
        # totality: `.` must be able to hold any character, newline included
        n_any = rx.any_nodes()
        rep.ob(prefix + "-tokenizer-total-DOTALL", f.where(c), f.scope, "%s: %d `.` nodes, DOTALL=%s" % (label, n_any, rx.dotall),
               n_any == 0 or rx.dotall,
               "`.` does not match a newline without re.DOTALL: for text that contains a newline before/after an escape "
               "sequence the front/rest groups cannot hold it - text after the newline is dropped, or the pattern fails "
               "to match and the escape sequence stays in the text",
               witness={"input": "a\\nb" + "ESC[31mc", "pattern_flags": p["flags"]})
        # partition shape
        top = rx.top_level()
        kinds = [k for k, _ in top]
        ok = kinds == ["group:front", "group:seq", "group:rest"] and RX.is_lazy_any_star(top[0][1]) and \
            RX.is_greedy_any_star(top[2][1])
        rep.ob(prefix + "-tokenizer-partition", f.where(c), f.scope, "%s top level: %s" % (label, kinds), ok,
               "the pattern must be exactly (?P<front>.*?)(?P<seq>...)(?P<rest>.*) so that front+seq+rest tile the input")
        # every token starts with an introducer (so ordinary characters are never swallowed as a token head)
        seq = rx.group("seq")
        if seq is None:
            continue
        ref = RX.Regex(REF_STARTS_WITH_INTRODUCER, re.DOTALL)
        w = RX.language_subset(rx, seq, ref, ref.tree)
        rep.ob(prefix + "-token-starts-with-introducer", f.where(c), f.scope, "%s: L(seq) within (ESC|0x9b).*" % label, w is None,
               "the pattern recognises %r as an escape sequence although it does not start with ESC or the 8-bit CSI: ordinary "
               "text is removed" % w, witness={"token": w})
    csi = tm.csi()
    two = tm.two_byte()
    # writer's own sequences and every ordinary numeric CSI are tokens of the CSI pattern
    seq = csi["rx"].group("seq")
    for name, refpat in (("own-SGR-output", REF_SGR_WRITER), ("ordinary-numeric-CSI", REF_CSI)):
        ref = RX.Regex(refpat, re.DOTALL)
        w = RX.language_subset(ref, ref.tree, csi["rx"], seq)
        rep.ob(prefix + "-csi-language-covers-" + name, f.where(csi["call"]), f.scope,
               "L(%s) within L(seq of the CSI pattern)" % refpat, w is None,
               "the well-formed sequence %r is not recognised as one token by the CSI pattern: its bytes leak into the text "
               "or are cut differently" % w, witness={"sequence": w})
    # the groups the code reads exist
    for g in ("front", "seq", "csi", "numbers", "command", "rest"):
        rep.ob(prefix + "-csi-groups", f.where(csi["call"]), f.scope, "CSI pattern has group %s" % g, g in csi["rx"].groupindex,
               "group %s is missing from the CSI pattern" % g)
    # numbers group: digits separated by ';' ; command group contains 'm'
    num = csi["rx"].group("numbers")
    ref = RX.Regex(r"(?:[0-9]+(?:;[0-9]+)*)?", 0)
    if num is not None:
        w = RX.language_subset(ref, ref.tree, csi["rx"], num)
        rep.ob(prefix + "-numbers-group-language", f.where(csi["call"]), f.scope, "L(n(;n)*) within L(numbers group)", w is None,
               "parameter string %r is not accepted by the numbers group" % w, witness={"numbers": w})
    # selection between the two matches, result shape and group handling: decided by interpreting the function on one
    # representative input per case of its case analysis (both match at the same place / two-byte earlier / only one /
    # none / parameters empty, numeric, malformed / text with newlines)
    from ..fold import new_interp
    it = new_interp(src)
    ESC = "\x1b"
    probes = [
        ("both patterns match at the same position: the CSI match must win", ESC + "[31mX", ("", ESC + "[31m", "m", [31], "X")),
        ("text in front and a newline in the rest", "ab" + ESC + "[1;31mX\ny", ("ab", ESC + "[1;31m", "m", [1, 31], "X\ny")),
        ("newline in front of the sequence", "a\nb" + ESC + "[0mc", ("a\nb", ESC + "[0m", "m", [0], "c")),
        ("a two-byte sequence earlier than a CSI: the earlier one is peeled first", "a" + ESC + "Ab" + ESC + "[1mc", ("a", ESC + "A", "A", None, "b" + ESC + "[1mc")),
        ("no escape sequence at all", "plain\ttext\n", ("plain\ttext\n", None, None, None, "")),
        ("empty parameter list", ESC + "[mZ", ("", ESC + "[m", "m", "", "Z")),
        ("8-bit CSI", "q\x9b5Ax", ("q", "\x9b5A", "A", [5], "x")),
        ("parameter list with a trailing separator stays a string", ESC + "[1;m", ("", ESC + "[1;m", "m", "1;", "")),
        ("truncated CSI is a two-byte sequence", "x" + ESC + "[", ("x", ESC + "[", "[", None, "")),
        ("three parameters", ESC + "[38;5;196mX", ("", ESC + "[38;5;196m", "m", [38, 5, 196], "X")),
        ("non-ASCII decimal digits are digits for the pattern and for int()", ESC + "[\u0663mX", ("", ESC + "[\u0663m", "m", [3], "X")),
        ("carriage return and form feed are ordinary text", "a\rb\x0c" + ESC + "[4mc", ("a\rb\x0c", ESC + "[4m", "m", [4], "c")),
    ]
    for label, text, want in probes:
        r = it.call1("escseqparse", "peel_off_esc_code", text)
        if r[0] == "opaque":
            raise AnalysisError("peel_off_esc_code outside the evaluated subset for %r: %s" % (text, r[1]))
        got = None
        if r[0] == "ok" and isinstance(r[1], tuple) and len(r[1]) == 3:
            front, tok, rest = r[1]
            if tok is None:
                got = (front, None, None, None, rest)
            elif isinstance(tok, dict):
                got = (front, tok.get("seq"), tok.get("command"), tok.get("numbers"), rest)
        rep.ob(prefix + "-tokenizer-case-analysis", f.where(), f.scope, "%s: %r" % (label, text), got == want,
               "peel_off_esc_code(%r) gives %s; expected (front, seq, command, numbers, rest) = %s" % (text, got if got is not None else r, want),
               witness={"input": text})
        rep.case(True)
    counts["tokenizer_rules"] = 1
    return tm


def _merge_updates(items):
    """Consecutive update dicts are equivalent to their merge (later keys win); empty updates are no-ops."""
    out = []
    for x in items:
        if isinstance(x, dict):
            if out and isinstance(out[-1], dict):
                out[-1] = dict(out[-1], **x)
            else:
                out.append(dict(x))
        else:
            out.append(x)
    return [x for x in out if x != {}]


def rules_parse_loop(src, rep, prefix):
    """parse() alternates text and updates in order and tokenizes the WHOLE input: interpreted on representative inputs."""
    from ..fold import new_interp
    it = new_interp(src)
    f = src.func("escseqparse", "parse")
    ESC = "\x1b"
    RESET = None
    r0 = it.call1("escseqparse", "parse", ESC + "[0m")
    if r0[0] != "ok" or not isinstance(r0[1], list) or len(r0[1]) != 1:
        raise AnalysisError("parse(ESC[0m) does not give one update: %s" % (r0,))
    RESET = r0[1][0]
    probes = [
        ("text, colour, text, reset, text", "a" + ESC + "[31mb" + ESC + "[0mc", ["a", {"fg": "red"}, "b", RESET, "c"]),
        ("two sequences back to back", ESC + "[31m" + ESC + "[44mx", [{"fg": "red"}, {"bg": "blue"}, "x"]),
        ("combined parameters keep their order", ESC + "[1;32mz", [{"bold": True}, {"fg": "green"}, "z"]),
        ("text with newline, CR and other line boundaries is kept verbatim", "l1\r\nl2\x0c" + ESC + "[4mu\x85v\u2028w", ["l1\r\nl2\x0c", {"underline": True}, "u\x85v\u2028w"]),
        ("cursor movement is dropped, text kept", "a" + ESC + "[2Ab" + ESC + "[Kc", ["a", "b", "c"]),
        ("an 8-bit CSI after the last ESC is still tokenized", ESC + "[31ma\x9b32mb", [{"fg": "red"}, "a", {"fg": "green"}, "b"]),
        ("an 8-bit CSI alone in the tail", "t\x9b1mu", ["t", {"bold": True}, "u"]),
        ("no escape sequences", ">>> []", [">>> []"]),
        ("empty input", "", []),
        ("trailing sequence", "x" + ESC + "[39m", ["x", {"fg": None}]),
    ]
    for label, text, want in probes:
        r = it.call1("escseqparse", "parse", text)
        if r[0] == "opaque":
            raise AnalysisError("parse outside the evaluated subset for %r: %s" % (text, r[1]))
        got = r[1] if r[0] == "ok" else r
        if r[0] == "ok" and isinstance(got, list):
            got = _merge_updates(got)
        want = _merge_updates(want)
        rep.ob(prefix + "-parse-alternates-text-and-updates", f.where(), f.scope, "%s: %r" % (label, text), got == want,
               "parse(%r) gives %s, expected %s: text pieces and updates must come out complete and in order" % (text, got, want),
               witness={"input": text})
        rep.case(True)
    # a sequence the READER rejects (which codes it supports is its own business: the code is picked from what token_type says)
    from ..models import Reader
    reader = Reader(src, it)
    rejected = None
    for code in (90, 20, 21, 6, 8, 9, 10, 26, 50, 60, 99):
        try:
            if reader.token("m", [code]) == ("raise", "ValueError"):
                rejected = code
                break
        except Exception:
            continue
    if rejected is not None:
        r = it.call1("escseqparse", "parse", "a" + ESC + "[%dmb" % rejected)
        rep.ob(prefix + "-parse-unsupported-raises-ValueError", f.where(), f.scope, "parse('a ESC[<code the reader rejects>m b')", r == ("raise", "ValueError"),
               "token_type raises ValueError for SGR code %d; parse('a ESC[%dm b') must let exactly that ValueError out (so that from_str falls back); got %s"
               % (rejected, rejected, r))
