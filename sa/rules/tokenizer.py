"""Rules about escseqparse.peel_off_esc_code / parse / remove_ansi shared by C05 (R5..R8) and C17 (X2, X3)."""
import ast
import re

from .. import regexast as RX
from ..consteval import Folder, TOP
from ..report import AnalysisError
from ..srcmodel import unparse

REF_CSI = r"(?:\x1b\[|\x9b)(?:[0-9]+(?:;[0-9]+)*)?[ -/]*[@-~]"      # ordinary numeric CSI sequence (ECMA-48 5.4, numeric params)
REF_SGR_WRITER = r"\x1b\[[0-9]+m"                                  # what curtsies' own writer emits
REF_STARTS_WITH_INTRODUCER = r"[\x1b\x9b].*"
REF_TWO_BYTE = r"\x1b[@-_]"


def _regex_calls(src, f, names=("match", "search", "sub", "finditer", "fullmatch", "compile")):
    out = []
    for n in f.own_nodes():
        if isinstance(n, ast.Call):
            c = src.canon(n.func, f.module)
            if c and c.startswith("re.") and c.split(".")[1] in names:
                out.append((c.split(".")[1], n))
    out.sort(key=lambda x: (x[1].lineno, x[1].col_offset))
    return out


def fold_local(fold, f, expr):
    """Fold an expression inside a function, resolving single-assignment locals (e.g. the pattern string `p`)."""
    from ..cfg import single_defs
    env = dict(fold.module(f.module.name))
    defs = single_defs(f.node)
    for _ in range(3):
        for k, v in defs.items():
            if k not in env or env[k] is TOP:
                val = fold.try_expr(v, env)
                if val is not TOP:
                    env[k] = val
    return fold.try_expr(expr, env)


class TokenizerModel:
    def __init__(self, src, fold):
        self.src, self.fold = src, fold
        self.f = src.func("escseqparse", "peel_off_esc_code")
        calls = [(k, c) for k, c in _regex_calls(src, self.f) if k in ("match", "search", "fullmatch")]
        self.calls = calls
        self.patterns = []
        for kind, c in calls:
            pat = fold_local(fold, self.f, c.args[0]) if c.args else TOP
            if not isinstance(pat, str):
                raise AnalysisError("peel_off_esc_code: pattern of `%s` is not a compile-time constant" % unparse(c)[:60])
            flag_nodes = list(c.args[2:]) + [k.value for k in c.keywords if k.arg == "flags"]
            flags = RX.flags_from_ast(src, self.f.module, flag_nodes)
            target = None
            p = self.f.module.parent.get(c)
            if isinstance(p, ast.Assign) and isinstance(p.targets[0], ast.Name):
                target = p.targets[0].id
            self.patterns.append({"kind": kind, "call": c, "pattern": pat, "flags": flags, "rx": RX.Regex(pat, flags),
                                  "var": target, "subject": unparse(c.args[1]) if len(c.args) > 1 else None})

    def csi(self):
        for p in self.patterns:
            if "numbers" in p["rx"].groupindex:
                return p
        return None

    def two_byte(self):
        for p in self.patterns:
            if "numbers" not in p["rx"].groupindex:
                return p
        return None


def rules_tokenizer(src, rep, fold, prefix, counts):
    tm = TokenizerModel(src, fold)
    f = tm.f
    counts["tokenizer_patterns"] = len(tm.patterns)
    if len(tm.patterns) != 2 or tm.csi() is None or tm.two_byte() is None:
        raise AnalysisError("peel_off_esc_code: expected one CSI pattern (with a `numbers` group) and one two-byte pattern, "
                            "found %d patterns" % len(tm.patterns))
    for p in tm.patterns:
        rx = p["rx"]
        c = p["call"]
        label = "CSI pattern" if p is tm.csi() else "two-byte pattern"
        rep.ob(prefix + "-match-anchored-at-start", f.where(c), f.scope, "re.%s(<%s>, %s)" % (p["kind"], label, p["subject"]),
               p["kind"] == "match" and p["subject"] in f.params(),
               "the tokenizer must match its own parameter from position 0 (re.match)")
        # totality: `.` must be able to hold any character, newline included
        n_any = rx.any_nodes()
        rep.ob(prefix + "-tokenizer-total-DOTALL", f.where(c), f.scope, "%s: %d `.` nodes, DOTALL=%s" % (label, n_any, rx.dotall),
               n_any == 0 or rx.dotall,
               "`.` does not match a newline without re.DOTALL: for text that contains a newline before/after an escape "
               "sequence the front/rest groups cannot hold it - text after the newline is dropped, or the pattern fails "
               "to match and the escape sequence stays in the text",
               witness={"input": "a\\nb" + "ESC[31mc", "pattern_flags": p["flags"]})
        # partition shape
        top = rx.top_level()
        kinds = [k for k, _ in top]
        ok = kinds == ["group:front", "group:seq", "group:rest"] and RX.is_lazy_any_star(top[0][1]) and \
            RX.is_greedy_any_star(top[2][1])
        rep.ob(prefix + "-tokenizer-partition", f.where(c), f.scope, "%s top level: %s" % (label, kinds), ok,
               "the pattern must be exactly (?P<front>.*?)(?P<seq>...)(?P<rest>.*) so that front+seq+rest tile the input")
        # every token starts with an introducer (so ordinary characters are never swallowed as a token head)
        seq = rx.group("seq")
        if seq is None:
            continue
        ref = RX.Regex(REF_STARTS_WITH_INTRODUCER, re.DOTALL)
        w = RX.language_subset(rx, seq, ref, ref.tree)
        rep.ob(prefix + "-token-starts-with-introducer", f.where(c), f.scope, "%s: L(seq) within (ESC|0x9b).*" % label, w is None,
               "the pattern recognises %r as an escape sequence although it does not start with ESC or the 8-bit CSI: ordinary "
               "text is removed" % w, witness={"token": w})
    csi = tm.csi()
    two = tm.two_byte()
    # writer's own sequences and every ordinary numeric CSI are tokens of the CSI pattern
    seq = csi["rx"].group("seq")
    for name, refpat in (("own-SGR-output", REF_SGR_WRITER), ("ordinary-numeric-CSI", REF_CSI)):
        ref = RX.Regex(refpat, re.DOTALL)
        w = RX.language_subset(ref, ref.tree, csi["rx"], seq)
        rep.ob(prefix + "-csi-language-covers-" + name, f.where(csi["call"]), f.scope,
               "L(%s) within L(seq of the CSI pattern)" % refpat, w is None,
               "the well-formed sequence %r is not recognised as one token by the CSI pattern: its bytes leak into the text "
               "or are cut differently" % w, witness={"sequence": w})
    # the groups the code reads exist
    for g in ("front", "seq", "csi", "numbers", "command", "rest"):
        rep.ob(prefix + "-csi-groups", f.where(csi["call"]), f.scope, "CSI pattern has group %s" % g, g in csi["rx"].groupindex,
               "group %s is missing from the CSI pattern" % g)
    # numbers group: digits separated by ';' ; command group contains 'm'
    num = csi["rx"].group("numbers")
    ref = RX.Regex(r"(?:[0-9]+(?:;[0-9]+)*)?", 0)
    if num is not None:
        w = RX.language_subset(ref, ref.tree, csi["rx"], num)
        rep.ob(prefix + "-numbers-group-language", f.where(csi["call"]), f.scope, "L(n(;n)*) within L(numbers group)", w is None,
               "parameter string %r is not accepted by the numbers group" % w, witness={"numbers": w})
    # tie-break between the two matches
    sel = [n for n in f.own_nodes() if isinstance(n, ast.IfExp) and isinstance(n.test, ast.Compare)]
    v1, v2 = csi["var"], two["var"]
    ok = False
    desc = "<no selection expression found>"
    for s in sel:
        t = s.test
        if len(t.ops) != 1:
            continue
        l, r = unparse(t.left), unparse(t.comparators[0])
        body, orelse = unparse(s.body), unparse(s.orelse)
        desc = unparse(s)
        lf = v1 in l and "front" in l and v2 not in l
        rf = v2 in r and "front" in r and v1 not in r
        lf2 = v2 in l and "front" in l and v1 not in l
        rf2 = v1 in r and "front" in r and v2 not in r
        op = t.ops[0]
        if lf and rf:      # front1 OP front2
            if isinstance(op, ast.LtE) and body == v1 and orelse == v2:
                ok = True
            if isinstance(op, ast.Gt) and body == v2 and orelse == v1:
                ok = True
        if lf2 and rf2:    # front2 OP front1
            if isinstance(op, ast.Lt) and body == v2 and orelse == v1:
                ok = True
            if isinstance(op, ast.GtE) and body == v1 and orelse == v2:
                ok = True
    # is a tie possible?  '[' in the two-byte command class means both match at the same position for every CSI
    cmd2 = two["rx"].group("command")
    tie_possible = True
    if cmd2 is not None:
        ref = RX.Regex(r"\[", 0)
        tie_possible = RX.language_subset(ref, ref.tree, two["rx"], cmd2) is None
    rep.ob(prefix + "-csi-wins-ties", f.where(sel[0]) if sel else f.where(), f.scope, desc, ok or not tie_possible,
           "both patterns match at the same position for every ESC[ sequence ('[' is a two-byte final); the CSI match must be "
           "chosen on equal front length, otherwise ESC[31m is cut after ESC[ and `31m` stays in the text")
    # both-match / single-match selection covers all four cases
    # results: (front, token, rest) from the chosen match; (s, None, "") when neither matches
    rets = [n for n in f.own_nodes() if isinstance(n, ast.Return)]
    shapes = []
    for r in rets:
        if isinstance(r.value, ast.Tuple) and len(r.value.elts) == 3:
            shapes.append(tuple(unparse(e) for e in r.value.elts))
    p0 = f.params()[0]
    nomatch = [s for s in shapes if s[0] == p0 and s[1] == "None" and s[2] in ("''", '""')]
    rep.ob(prefix + "-no-match-returns-input", f.where(), f.scope, "return %s, None, ''" % p0, len(nomatch) == 1,
           "when no escape sequence is found the whole input must come back as text with nothing left to process")
    matched = [s for s in shapes if "front" in s[0] and "rest" in s[2]]
    rep.ob(prefix + "-match-returns-front-token-rest", f.where(), f.scope, "return m['front'], token, m['rest']", len(matched) == 1,
           "on a match the function must return the front text, the token and the rest")
    # groupdict keys used without guard must exist in BOTH patterns
    both = set(csi["rx"].groupindex) & set(two["rx"].groupindex)
    for n in f.own_nodes():
        if isinstance(n, ast.Subscript) and isinstance(n.slice, ast.Constant) and isinstance(n.slice.value, str) and \
                isinstance(n.ctx, ast.Load):
            key = n.slice.value
            if key in both or key not in (set(csi["rx"].groupindex) | set(two["rx"].groupindex)):
                continue
            from ..cfg import lexical_guard
            g = lexical_guard(f.module, n, f.node)
            base = unparse(n.value)
            guarded = any(pol and t.replace('"', "'") == "'%s' in %s" % (key, base) for t, pol in g)
            # `A and B` in the same test: the subscript sits in a later conjunct of a BoolOp whose earlier conjunct is the guard
            bo = f.module.enclosing(n, (ast.BoolOp,))
            while bo is not None and not guarded:
                if isinstance(bo.op, ast.And):
                    for v in bo.values:
                        if any(x is n for x in ast.walk(v)):
                            break
                        if unparse(v).replace('"', "'") == "'%s' in %s" % (key, base):
                            guarded = True
                bo = f.module.enclosing(bo, (ast.BoolOp,))
            rep.ob(prefix + "-group-access-guarded", f.where(n), f.scope, unparse(n), guarded,
                   "group %r exists only in one of the two patterns; reading %s without a `%r in %s` guard raises KeyError "
                   "when the other pattern's match is chosen - an exception from_str does not catch" % (key, unparse(n), key, base))
    counts["tokenizer_rules"] = 1
    return tm


def rules_parse_loop(src, rep, prefix):
    f = src.func("escseqparse", "parse")
    loops = [n for n in f.node.body if isinstance(n, ast.While)]
    if len(loops) != 1:
        raise AnalysisError("parse: expected one while loop")
    lp = loops[0]
    body = lp.body
    # front, token, rest = peel_off_esc_code(rest)
    first = body[0] if body else None
    ok = isinstance(first, ast.Assign) and isinstance(first.targets[0], ast.Tuple) and len(first.targets[0].elts) == 3 and \
        isinstance(first.value, ast.Call) and unparse(first.value.func) == "peel_off_esc_code" and len(first.value.args) == 1
    if not ok:
        raise AnalysisError("parse: loop does not start with `front, token, rest = peel_off_esc_code(rest)`")
    fr, tok, rest = [unparse(x) for x in first.targets[0].elts]
    rep.ob(prefix + "-rest-fed-back", f.where(first), f.scope, unparse(first), unparse(first.value.args[0]) == rest,
           "the unprocessed remainder must be fed back into the tokenizer")
    init = [s for s in f.node.body if isinstance(s, ast.Assign) and unparse(s.targets[0]) == rest]
    rep.ob(prefix + "-starts-with-whole-input", f.where(init[0]) if init else f.where(), f.scope,
           unparse(init[0]) if init else "<none>", len(init) == 1 and unparse(init[0].value) == f.params()[0],
           "tokenizing must start from the whole input string")
    # order: front appended before token handling
    idx_front = idx_tok = None
    acc = None
    for i, s in enumerate(body):
        if isinstance(s, ast.If) and unparse(s.test) == fr:
            for x in s.body:
                if isinstance(x, ast.Expr) and isinstance(x.value, ast.Call) and isinstance(x.value.func, ast.Attribute) and \
                        x.value.func.attr == "append" and unparse(x.value.args[0]) == fr:
                    idx_front = i
                    acc = unparse(x.value.func.value)
        if isinstance(s, ast.If) and unparse(s.test) == tok:
            idx_tok = i
    rep.ob(prefix + "-front-before-token", f.where(lp), f.scope, "if front: stuff.append(front) ... if token: ...",
           idx_front is not None and idx_tok is not None and idx_front < idx_tok,
           "text in front of a token must be appended before the token's updates (order of text and formatting)")
    ext_ok = False
    if idx_tok is not None and acc:
        for x in ast.walk(body[idx_tok]):
            if isinstance(x, ast.Call) and isinstance(x.func, ast.Attribute) and x.func.attr == "extend" and \
                    unparse(x.func.value) == acc and x.args and isinstance(x.args[0], ast.Name):
                # the extended value is token_type(token)
                from ..cfg import single_defs
                ext_ok = True
    rep.ob(prefix + "-token-updates-in-order", f.where(lp), f.scope, "stuff.extend(token_type(token))", ext_ok,
           "the updates of one token must be added in order to the same list as the text pieces")
    # termination: `if not rest: break`
    brk = [s for s in body if isinstance(s, ast.If) and unparse(s.test) == "not %s" % rest and
           any(isinstance(x, ast.Break) for x in s.body)]
    rep.ob(prefix + "-loop-until-rest-empty", f.where(lp), f.scope, "if not rest: break", len(brk) == 1 and body.index(brk[0]) > (idx_tok or 0),
           "the loop must run until nothing is left, and test that after handling the current token")
    rets = [n for n in f.own_nodes() if isinstance(n, ast.Return)]
    rep.ob(prefix + "-returns-accumulator", f.where(), f.scope, "return %s" % acc, len(rets) == 1 and unparse(rets[0].value) == acc,
           "parse must return the accumulated list")
