"""C18 - cursor position query parses the report exactly; movement is conserved (DESIGN.md section 3, C18: U1..U5)."""
import ast
import re

from .. import regexast as RX
from ..cfg import CFG, G, conjuncts, enumerate_paths, lexical_guard, local_defs, single_defs
from ..consteval import Folder, TOP
from ..report import AnalysisError
from ..srcmodel import is_self_attr, unparse
from . import tokenizer

EXPLANATION = (
    "U1 protocol constants: the query written is ESC[6n; the report pattern (found through re.search or a module-level "
    "re.compile) is compared as a regular language (DFAs from the syntax tree): as a full match of the bytes read so far it "
    "must accept exactly <anything, newlines included><ESC[ or 0x9b><digits>;<digits>R - so the bytes before the report, all "
    "of them, land in `extra`.  U2 the returned tuple is (int(row group) - 1, int(column group) - 1) in that order.  U3 the "
    "only reads are read(1) and the match is attempted after every read, so nothing after the report is consumed.  U4 "
    "non-empty `extra` goes, encoded, to extra_bytes_callback when it is not None, else ValueError; OSError from the read "
    "loops back.  U5 conservation by affine effect summaries: in _get_cursor_vertical_diff_once cursor_dy starts as "
    "row - _last_cursor_row (0 on the first call, decided by an `is None` test), every path through each adjustment loop "
    "has delta(top_usable_row) + delta(cursor_dy) == 0 with the sign matching the loop guard, the function returns "
    "cursor_dy and records _last_cursor_row = row on every path; get_cursor_vertical_diff accumulates (+=) every _once() "
    "value into what it returns, sets the busy flag before and clears it after each query, and a nested call only sets "
    "the repeat flag and returns 0.  U6 Optional-int attributes (initialised to None, later holding rows/columns/fds "
    "that may be 0) are tested with `is None`, never by truthiness."
)
NOT_DECIDED = ("the blessed path (_use_blessed), the clamping bounds of the two loops (integer relations), stream encodings, "
               "what the terminal answers.")

REF_REPORT = r"[\s\S]*(?:\x1b\[|\x9b)[0-9]+;[0-9]+R"
REF_REPORT_UPPER = r"[\s\S]*(?:\x1b\[|\x9b)\d+;\d+R"


def regex_uses(src, fold, f):
    """[{pattern, flags, node, method, subject}] for re.search/match calls and <compiled>.search/match calls in f."""
    out = []
    mod = f.module
    env = dict(fold.module(mod.name))
    for n in f.all_nodes():
        if not isinstance(n, ast.Call) or not isinstance(n.func, ast.Attribute):
            continue
        meth = n.func.attr
        if meth not in ("search", "match", "fullmatch"):
            continue
        c = src.canon(n.func, mod)
        if c and c.startswith("re."):
            pat = tokenizer.fold_local(fold, f, n.args[0]) if n.args else TOP
            flags = RX.flags_from_ast(src, mod, list(n.args[2:]) + [k.value for k in n.keywords if k.arg == "flags"])
            subj = n.args[1] if len(n.args) > 1 else None
            out.append({"pattern": pat, "flags": flags, "node": n, "method": meth, "subject": subj, "where": f.where(n)})
            continue
        # compiled pattern object: a Name bound by re.compile(...) at module level or locally
        if isinstance(n.func.value, ast.Name):
            comp = None
            nm = n.func.value.id
            for st in mod.tree.body:
                if isinstance(st, (ast.Assign, ast.AnnAssign)) and isinstance(getattr(st, "value", None), ast.Call):
                    tg = st.targets if isinstance(st, ast.Assign) else [st.target]
                    if any(isinstance(t, ast.Name) and t.id == nm for t in tg) and \
                            (src.canon(st.value.func, mod) or "") == "re.compile":
                        comp = st.value
            d = single_defs(f.node).get(nm)
            if comp is None and isinstance(d, ast.Call) and (src.canon(d.func, mod) or "") == "re.compile":
                comp = d
            if comp is not None:
                pat = fold.try_expr(comp.args[0], env) if comp.args else TOP
                flags = RX.flags_from_ast(src, mod, list(comp.args[1:]) + [k.value for k in comp.keywords if k.arg == "flags"])
                subj = n.args[0] if n.args else None
                out.append({"pattern": pat, "flags": flags, "node": n, "method": meth, "subject": subj,
                            "where": "%s (pattern compiled at %s)" % (f.where(n), mod.where(comp))})
    return out


def rule_position(src, rep, fold, counts):
    f = src.func("window", "CursorAwareWindow.get_cursor_position")
    uses = regex_uses(src, fold, f)
    counts["report_patterns"] = len(uses)
    if len(uses) != 1:
        raise AnalysisError("get_cursor_position: expected exactly one regex use, found %d" % len(uses))
    u = uses[0]
    if not isinstance(u["pattern"], str):
        raise AnalysisError("get_cursor_position: report pattern is not a compile-time constant")
    rx = RX.Regex(u["pattern"], u["flags"])
    where = f.where(u["node"])
    rep.extracted["report_pattern"] = u["pattern"]
    rep.extracted["report_flags"] = u["flags"]
    ref = RX.Regex(REF_REPORT, 0)
    w = RX.language_subset(ref, ref.tree, rx, rx.tree)
    rep.ob("U1-report-pattern-accepts-every-report", where, f.scope, "L(<anything>CSI n;m R) within L(pattern), DOTALL=%s" % rx.dotall, w is None,
           "as a match of everything read so far the pattern rejects %r: the bytes before the report are not all captured in "
           "`extra` (they are neither handed to extra_bytes_callback nor reported), or the report form is not recognised" % w,
           witness={"input": w, "flags": u["flags"]})
    ref2 = RX.Regex(REF_REPORT_UPPER, 0)
    w = RX.language_subset(rx, rx.tree, ref2, ref2.tree)
    rep.ob("U1-report-pattern-accepts-only-reports", where, f.scope, "L(pattern) within L(<anything>CSI n;m R)", w is None,
           "the pattern also accepts %r, which is not a cursor position report" % w, witness={"input": w})
    order = rx.named_group_order()
    ok = "row" in order and "column" in order and order.index("row") < order.index("column") and "extra" in order and order[0] == "extra"
    rep.ob("U1-group-order", where, f.scope, "named groups %s" % order, ok, "the report is CSI row ; column R; the pattern's groups are %s" % order)
    ex = rx.group("extra")
    rep.ob("U1-extra-is-greedy-any", where, f.scope, "(?P<extra>.*)", ex is not None and RX.is_greedy_any_star(ex),
           "`extra` must be a greedy `.*` at the start of the pattern")
    rep.ob("U1-search-from-start", where, f.scope, "%s on the accumulated response" % u["method"], u["method"] in ("search", "match", "fullmatch"), "")
    # the query
    writes = [n for n in f.own_nodes() if isinstance(n, ast.Call) and unparse(n.func) == "self.write"]
    q = [tokenizer.fold_local(fold, f, n.args[0]) for n in writes if n.args]
    rep.ob("U1-query-is-DSR-6", f.where(writes[0]) if writes else f.where(), f.scope, "self.write(%r)" % (q[0] if q else None),
           q == ["\x1b[6n"], "the cursor position query must be exactly ESC[6n, written once before reading; found %r" % q)
    # U2: returned tuple
    rets = [n for n in f.own_nodes() if isinstance(n, ast.Return) and isinstance(n.value, ast.Tuple)]
    defs = single_defs(f.node)
    n_ok = 0
    for r in rets:
        if len(r.value.elts) != 2:
            continue
        comp = []
        for e in r.value.elts:
            grp = None
            minus1 = False
            if isinstance(e, ast.BinOp) and isinstance(e.op, ast.Sub) and isinstance(e.right, ast.Constant) and e.right.value == 1:
                minus1 = True
                e = e.left
            seen = 0
            while isinstance(e, ast.Name) and e.id in defs and seen < 4:
                e = defs[e.id]
                seen += 1
            if isinstance(e, ast.Call) and unparse(e.func) == "int" and e.args:
                t = unparse(e.args[0]).replace('"', "'")
                for g in ("row", "column"):
                    if "['%s']" % g in t or "group('%s')" % g in t:
                        grp = g
            comp.append((grp, minus1))
        ok = comp == [("row", True), ("column", True)]
        rep.ob("U2-zero-based-row-column", f.where(r), f.scope, unparse(r), ok,
               "the result must be (int(row) - 1, int(column) - 1) in that order; found components %s" % comp)
        n_ok += 1
    if not n_ok:
        rep.ob("U2-zero-based-row-column", f.where(), f.scope, "<no tuple return>", False, "get_cursor_position returns no (row, column) tuple")
    # U3: reads
    reads = [n for n in f.all_nodes() if isinstance(n, ast.Call) and isinstance(n.func, ast.Attribute) and n.func.attr in ("read", "readline", "readlines", "read1")]
    for n in reads:
        ok = n.func.attr == "read" and len(n.args) == 1 and isinstance(n.args[0], ast.Constant) and n.args[0].value == 1
        rep.ob("U3-one-character-reads", f.where(n), f.scope, unparse(n), ok,
               "reading more than one character at a time can consume input that follows the report")
    if not reads:
        raise AnalysisError("get_cursor_position: no read call found")
    counts["reads"] = len(reads)
    # the match is attempted after every read: the regex use and the read (or the helper doing it) are in the same loop body
    loops = [n for n in f.node.body if isinstance(n, ast.While)]
    ok = False
    for lp in loops:
        has_use = any(x is u["node"] for x in ast.walk(lp))
        has_read = any(isinstance(x, ast.Call) and (unparse(x.func) in ("retrying_read",) or
                                                    (isinstance(x.func, ast.Attribute) and x.func.attr == "read")) for st in lp.body for x in ast.walk(st))
        if has_use and has_read:
            ok = True
            # resp += c between
    rep.ob("U3-match-after-every-read", f.where(), f.scope, "while True: c = read(1); resp += c; m = search(resp)", ok,
           "the response must be matched after every single character read")
    # U4: extra hand-off
    cb_calls = [n for n in f.own_nodes() if isinstance(n, ast.Call) and unparse(n.func) == "self.extra_bytes_callback"]
    ok = len(cb_calls) == 1
    why = "extra_bytes_callback is called %d times" % len(cb_calls)
    if ok:
        c = cb_calls[0]
        g = lexical_guard(f.module, c, f.node)
        arg = unparse(c.args[0]) if c.args else ""
        enc_arg = unparse(c.args[0].args[0]) if c.args and isinstance(c.args[0], ast.Call) and c.args[0].args else ""
        ok = G("self.extra_bytes_callback is not None") in g and any(t == "extra" and p for t, p in g) and \
            arg.startswith("extra.encode(")
        enc_ok = "in_stream" in enc_arg and enc_arg.rstrip(")").endswith(".encoding")
        rep.ob("U4-extra-bytes-encoded-with-stream-encoding", f.where(c), f.scope, arg, enc_ok,
               "the preceding input was decoded by in_stream with ITS encoding; re-encoding it with `%s` gives other bytes than "
               "arrived whenever the two differ (latin-1 tty under a UTF-8 locale, 8-bit keys)" % enc_arg)
        why = "guard %s, argument %s" % (g, arg)
        exv = defs.get("extra")
        ok = ok and exv is not None and "'extra'" in unparse(exv).replace('"', "'")
    rep.ob("U4-extra-bytes-handed-to-callback", f.where(cb_calls[0]) if cb_calls else f.where(), f.scope,
           "if extra: if callback is not None: callback(extra.encode(...))", ok,
           "exactly the bytes preceding the report must be passed, encoded, to extra_bytes_callback when one is set; " + why)
    raises = [n for n in f.own_nodes() if isinstance(n, ast.Raise)]
    ok = False
    for r in raises:
        g = lexical_guard(f.module, r, f.node)
        if G("self.extra_bytes_callback is not None", False) in g and any(t == "extra" and p for t, p in g) and \
                r.exc is not None and unparse(r.exc.func if isinstance(r.exc, ast.Call) else r.exc) == "ValueError":
            ok = True
    rep.ob("U4-no-callback-raises-ValueError", f.where(), f.scope, "else: raise ValueError(...)", ok,
           "without a callback, bytes preceding the report must raise ValueError instead of being dropped")
    # OSError from the read loops back
    rr = None
    for (m, qn), g2 in src.funcs.items():
        if m == "window" and g2.outer is f:
            rr = g2
    ok = False
    if rr is not None:
        for t in [n for n in rr.own_nodes() if isinstance(n, ast.Try)]:
            in_loop = rr.module.enclosing(t, (ast.While,)) is not None
            for h in t.handlers:
                if h.type is not None and "OSError" in unparse(h.type) and in_loop and \
                        not any(isinstance(x, (ast.Raise, ast.Return)) for x in ast.walk(h)):
                    ok = True
    rep.ob("U4-oserror-retries-read", rr.where() if rr else f.where(), (rr or f).scope, "except OSError: continue (inside while True)", ok,
           "a read that fails with OSError must be retried, not abort the query or drop the response so far")


def _delta(stmts, target_text):
    """Sum of constant +=/-= applied to target on a straight-line path (list of statements); None if not constant."""
    d = 0
    for st in stmts:
        if isinstance(st, ast.AugAssign) and unparse(st.target) == target_text:
            if not (isinstance(st.value, ast.Constant) and isinstance(st.value.value, int)):
                return None
            if isinstance(st.op, ast.Add):
                d += st.value.value
            elif isinstance(st.op, ast.Sub):
                d -= st.value.value
            else:
                return None
        elif isinstance(st, (ast.Assign, ast.AnnAssign)):
            tg = st.targets if isinstance(st, ast.Assign) else [st.target]
            if any(unparse(t) == target_text for t in tg):
                return None
    return d


def rule_conservation(src, rep, counts):
    f = src.func("window", "CursorAwareWindow._get_cursor_vertical_diff_once")
    TOPR = "self.top_usable_row"
    rets = [n for n in f.own_nodes() if isinstance(n, ast.Return)]
    if not rets or any(not isinstance(r.value, ast.Name) for r in rets):
        raise AnalysisError("_get_cursor_vertical_diff_once: returns are not plain names")
    dy = rets[0].value.id
    rep.ob("U5-returns-remaining-movement", f.where(rets[0]), f.scope, "return %s" % dy, all(r.value.id == dy for r in rets),
           "every path must return the same remaining-movement variable")
    defs = local_defs(f.node).get(dy, [])
    plain = [d for d in defs if d is not None]
    # position query
    pos = [n for n in f.own_nodes() if isinstance(n, ast.Assign) and isinstance(n.value, ast.Call) and
           unparse(n.value.func) == "self.get_cursor_position" and isinstance(n.targets[0], ast.Tuple)]
    if len(pos) != 1:
        raise AnalysisError("_get_cursor_vertical_diff_once: expected one `row, col = self.get_cursor_position()`")
    rowv = unparse(pos[0].targets[0].elts[0])
    inits = []
    for n in f.own_nodes():
        if isinstance(n, ast.Assign) and any(isinstance(t, ast.Name) and t.id == dy for t in n.targets):
            inits.append(n)
    zero = [n for n in inits if isinstance(n.value, ast.Constant) and n.value.value == 0]
    diff = [n for n in inits if unparse(n.value) == "%s - self._last_cursor_row" % rowv]
    ok = len(inits) == 2 and len(zero) == 1 and len(diff) == 1
    if ok:
        gz = lexical_guard(f.module, zero[0], f.node)
        gd = lexical_guard(f.module, diff[0], f.node)
        ok = gz == [G("self._last_cursor_row is None")] and gd == [G("self._last_cursor_row is None", False)]
        if not ok:
            why = "the first-call test is %s / %s, not `self._last_cursor_row is None`" % (gz, gd)
    else:
        why = "initialisations found: %s" % [unparse(n) for n in inits]
    rep.ob("U5-movement-is-row-minus-last", f.where(inits[0]) if inits else f.where(), f.scope,
           "%s = 0 if _last_cursor_row is None else %s - _last_cursor_row" % (dy, rowv), ok,
           "the observed movement must be row - _last_cursor_row, and 0 exactly when no row was recorded yet (a recorded row 0 "
           "is a row); " + (why if not ok else ""))
    loops = [n for n in f.own_nodes() if isinstance(n, ast.While)]
    counts["adjustment_loops"] = len(loops)
    for lp in loops:
        paths = enumerate_paths(lp.body)
        for p in paths:
            stmts = p.stmts()
            dt = _delta(stmts, TOPR)
            dd = _delta(stmts, dy)
            ok = dt is not None and dd is not None and dt + dd == 0 and (dt != 0 or dd != 0)
            rep.ob("U5-loop-conserves-movement", f.where(lp), f.scope, "while %s: [%s]" % (unparse(lp.test), "; ".join(unparse(s) for s in stmts)), ok,
                   "every step must move one row from the remaining movement into top_usable_row (delta top_usable_row %s + "
                   "delta %s %s must be 0): otherwise rows are counted twice or lost" % (dt, dy, dd))
            # sign agrees with the guard
            g = unparse(lp.test)
            if ok:
                cjg = conjuncts(lp.test)
                pos_guard = G("%s > 0" % dy) in cjg
                neg_guard = G("%s < 0" % dy) in cjg
                sign_ok = (pos_guard and dd < 0) or (neg_guard and dd > 0)
                rep.ob("U5-loop-direction-matches-guard", f.where(lp), f.scope, "while %s: delta %s = %+d" % (g, dy, dd), sign_ok,
                       "the loop runs while %s but changes %s by %+d per step" % (g, dy, dd))
    # any other store to top_usable_row / dy outside the loops
    for n in f.own_nodes():
        if isinstance(n, (ast.AugAssign, ast.Assign)) and any(unparse(t) == TOPR for t in ([n.target] if isinstance(n, ast.AugAssign) else n.targets)):
            inloop = f.module.enclosing(n, (ast.While,)) is not None
            rep.ob("U5-top-usable-row-only-adjusted-in-loops", f.where(n), f.scope, unparse(n), inloop and isinstance(n, ast.AugAssign),
                   "top_usable_row is changed outside the conserving loops")
    # _last_cursor_row = row on every path
    cfg = CFG(f.node)
    st = [n for n in cfg.nodes if n.kind == "stmt" and isinstance(n.ast, ast.Assign) and
          unparse(n.ast.targets[0]) == "self._last_cursor_row"]
    ok = len(st) == 1 and unparse(st[0].ast.value) == rowv
    if ok:
        pd = cfg.postdominators()
        ok = st[0] in pd.get(cfg.entry, set())
    rep.ob("U5-records-observed-row", f.where(st[0].ast) if st else f.where(), f.scope, "self._last_cursor_row = %s" % rowv, ok,
           "the observed row must be recorded on every path, otherwise the same movement is accounted for again")
    # outer function
    g = src.func("window", "CursorAwareWindow.get_cursor_vertical_diff")
    rets = [n for n in g.own_nodes() if isinstance(n, ast.Return)]
    acc = [r.value.id for r in rets if isinstance(r.value, ast.Name)]
    consts = [r for r in rets if isinstance(r.value, ast.Constant)]
    accv = acc[0] if acc else None
    calls = [n for n in g.own_nodes() if isinstance(n, ast.Call) and unparse(n.func) == "self._get_cursor_vertical_diff_once"]
    ok = False
    why = "no call of _get_cursor_vertical_diff_once"
    for c in calls:
        p = g.module.parent.get(c)
        ok = isinstance(p, ast.AugAssign) and isinstance(p.op, ast.Add) and unparse(p.target) == accv and p.value is c
        why = "`%s`" % unparse(p) if p is not None else why
        if not ok and isinstance(p, ast.Assign) and isinstance(p.value, ast.BinOp):
            ok = isinstance(p.value.op, ast.Add) and unparse(p.targets[0]) == accv and accv in (unparse(p.value.left), unparse(p.value.right))
    init0 = [n for n in g.own_nodes() if isinstance(n, ast.Assign) and unparse(n.targets[0]) == accv and
             isinstance(n.value, ast.Constant) and n.value.value == 0 and g.module.enclosing(n, (ast.While, ast.For)) is None]
    rep.ob("U5-every-query-accumulated", g.where(calls[0]) if calls else g.where(), g.scope, "%s += self._get_cursor_vertical_diff_once()" % accv,
           ok and len(init0) == 1,
           "each _once() call already commits its share to top_usable_row and _last_cursor_row; its return value must be ADDED "
           "to the result (initialised to 0 before the loop), otherwise the remainder of an earlier query is thrown away; found " + why)
    # busy-flag protocol
    body_loops = [n for n in g.node.body if isinstance(n, ast.While)]
    ok = False
    if body_loops and calls:
        lp = body_loops[0]
        idx = {unparse(s).split("\n")[0]: i for i, s in enumerate(lp.body)}
        ci = [i for i, s in enumerate(lp.body) if any(x is calls[0] for x in ast.walk(s))]
        ok = bool(ci) and idx.get("self.in_get_cursor_diff = True", 99) < ci[0] and idx.get("self.another_sigwinch = False", 99) < ci[0] \
            and idx.get("self.in_get_cursor_diff = False", -1) > ci[0]
        rt = [s for s in lp.body[ci[0]:] if isinstance(s, ast.If) and unparse(s.test) == "not self.another_sigwinch" and
              any(isinstance(x, ast.Return) and unparse(x.value) == accv for x in s.body)] if ci else []
        ok = ok and len(rt) == 1
    rep.ob("U5-busy-flag-protocol", g.where(), g.scope, "in_get=True; another=False; dy += once(); in_get=False; if not another: return dy", ok,
           "the busy flag must be set (and the repeat flag cleared) before each query and cleared after it; the loop ends only "
           "when no nested call arrived during the query")
    first = g.node.body[0] if not (isinstance(g.node.body[0], ast.Expr) and isinstance(g.node.body[0].value, ast.Constant)) else g.node.body[1]
    ok = isinstance(first, ast.If) and unparse(first.test) == "self.in_get_cursor_diff" and \
        [unparse(s) for s in first.body] == ["self.another_sigwinch = True", "return 0"]
    rep.ob("U5-nested-call-defers", g.where(first), g.scope, "if self.in_get_cursor_diff: self.another_sigwinch = True; return 0", ok,
           "a nested call must only request a repeat and return 0 (the outer call accounts for the movement)")


def rule_optional_int(src, rep, counts):
    """U6: attributes initialised to None that later hold ints (rows, columns, fds - all may be 0) are never tested by truthiness."""
    n = 0
    for modname in ("window", "input"):
        mod = src.module(modname)
        for (m, cname), c in src.classes.items():
            if m != modname:
                continue
            opt = set()
            init = src.funcs.get((m, cname + ".__init__"))
            if init is None:
                continue
            for node in init.own_nodes():
                if isinstance(node, (ast.Assign, ast.AnnAssign)) and isinstance(getattr(node, "value", None), ast.Constant) and node.value.value is None:
                    for t in (node.targets if isinstance(node, ast.Assign) else [node.target]):
                        if is_self_attr(t):
                            ann = unparse(node.annotation) if isinstance(node, ast.AnnAssign) else ""
                            if "int" in ann or t.attr in ("_last_cursor_row", "_last_cursor_column", "wakeup_read_fd", "wakeup_write_fd"):
                                opt.add(t.attr)
            if not opt:
                continue
            for f in src.all_funcs():
                if f.cls is None or f.module.name != modname:
                    continue
                for node in f.own_nodes():
                    tests = []
                    if isinstance(node, (ast.If, ast.While, ast.IfExp)):
                        tests = [node.test]
                    elif isinstance(node, ast.Assert):
                        tests = [node.test]
                    for t in tests:
                        for atom in _truth_atoms(t):
                            if is_self_attr(atom) and atom.attr in opt:
                                n += 1
                                rep.ob("U6-optional-int-tested-with-is-None", f.where(node), f.scope, unparse(t), False,
                                       "self.%s is None until first set and then holds an int that may be 0; a truthiness test "
                                       "treats row/column/descriptor 0 like 'not set'" % atom.attr)
            for a in sorted(opt):
                n += 1
                rep.ob("U6-optional-int-tested-with-is-None", mod.where(c), "%s:%s" % (m, cname), "self.%s (Optional[int])" % a, True)
    counts["optional_int_attrs"] = n


def _truth_atoms(t):
    """Sub-expressions of a test that are used for their truth value."""
    if isinstance(t, ast.BoolOp):
        for v in t.values:
            yield from _truth_atoms(v)
    elif isinstance(t, ast.UnaryOp) and isinstance(t.op, ast.Not):
        yield from _truth_atoms(t.operand)
    else:
        yield t


def check(src, rep):
    rep.explanation = EXPLANATION
    rep.not_decided = NOT_DECIDED
    rep.assumptions = ["xterm cursor position report format CSI row ; column R", "re.search semantics"]
    rep.trusted_base = ["CPython ast and re._parser", "sa/regexast.py (NFA/DFA)", "sa/cfg.py"]
    fold = Folder(src)
    counts = {}
    rep.guard(rule_position, src, rep, fold, counts)
    rep.guard(rule_conservation, src, rep, counts)
    rep.guard(rule_optional_int, src, rep, counts)
    rep.extracted["counts"] = counts
    rep.floor("report patterns", counts.get("report_patterns", 0), 1)
    rep.floor("adjustment loops", counts.get("adjustment_loops", 0), 2)
    rep.floor("optional-int attributes", counts.get("optional_int_attrs", 0), 4)
