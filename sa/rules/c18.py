"""C18 - cursor position query parses the report exactly; movement is conserved (DESIGN.md section 3, C18: U1..U5)."""
import ast
import itertools
import re

from .. import regexast as RX
from ..cfg import CFG, G, conjuncts, enumerate_paths, lexical_guard, local_defs, single_defs
from ..consteval import Folder, TOP
from ..report import AnalysisError
from ..srcmodel import is_self_attr, unparse
from . import tokenizer

EXPLANATION = (
    "U1 (every input, language level): the report pattern (found through re.search or a module-level re.compile) is compared "
    "as a regular language (DFAs from the regex syntax tree): as a match of the characters read so far it must accept "
    "exactly <anything, newlines included><ESC[ or 0x9b><digits>;<digits>R, so everything before the report lands in front "
    "of it.  U2-U4 (catalogue): get_cursor_position is abstractly interpreted on scripted streams - reports (1,1) .. "
    "(123456,7) in 7-bit and 8-bit CSI form, 13 kinds of preceding input (keys, escape sequences, look-alike fragments, "
    "newlines, non-ASCII), trailing input, 0/1/3 reads failing with OSError, with and without extra_bytes_callback, two "
    "stream encodings; the reference terminal model answers the query only when ESC[6n is written.  Checked: the returned "
    "pair is the report minus one in (row, column) order; the bytes handed to the callback, concatenated, are exactly the "
    "preceding input encoded with the stream's encoding (no call when there is none); ValueError without a callback; not "
    "one character after the report is consumed; OSError never escapes.  U5 (catalogue): CursorAwareWindow is entered on "
    "every row of a small terminal, renders an array (also one taller than the screen with the cursor cell scrolled off), "
    "then the cursor is moved to every row twice and get_cursor_vertical_diff interpreted after each move, optionally "
    "with a nested call injected at a read of the query in progress: delta(top_usable_row) + returned value == observed "
    "movement for each call, the nested call returns 0 and changes nothing, the in-progress flag is clear afterwards.  U6 "
    "Optional-int attributes (initialised to None, later holding rows/columns/fds that may be 0) are tested with `is None`, "
    "never by truthiness."
)
NOT_DECIDED = ("the blessed path (_use_blessed); reports, inputs and movement histories outside the catalogue (U2-U5 are bounded "
               "claims; U1 is for every input); what a real terminal answers.")

REF_REPORT = r"[\s\S]*(?:\x1b\[|\x9b)[0-9]+;[0-9]+R"
REF_REPORT_UPPER = r"[\s\S]*(?:\x1b\[|\x9b)\d+;\d+R"


def regex_uses(src, fold, f):
    """[{pattern, flags, node, method, subject}] for re.search/match calls and <compiled>.search/match calls in f."""
    out = []
    mod = f.module
    env = dict(fold.module(mod.name))
    for n in f.all_nodes():
        if not isinstance(n, ast.Call) or not isinstance(n.func, ast.Attribute):
            continue
        meth = n.func.attr
        if meth not in ("search", "match", "fullmatch"):
            continue
        c = src.canon(n.func, mod)
        if c and c.startswith("re."):
            pat = tokenizer.fold_local(fold, f, n.args[0]) if n.args else TOP
            flags = RX.flags_from_ast(src, mod, list(n.args[2:]) + [k.value for k in n.keywords if k.arg == "flags"])
            subj = n.args[1] if len(n.args) > 1 else None
            out.append({"pattern": pat, "flags": flags, "node": n, "method": meth, "subject": subj, "where": f.where(n)})
            continue
        # compiled pattern object: a Name bound by re.compile(...) at module level or locally
        if isinstance(n.func.value, ast.Name):
            comp = None
            nm = n.func.value.id
            for st in mod.tree.body:
                if isinstance(st, (ast.Assign, ast.AnnAssign)) and isinstance(getattr(st, "value", None), ast.Call):
                    tg = st.targets if isinstance(st, ast.Assign) else [st.target]
                    if any(isinstance(t, ast.Name) and t.id == nm for t in tg) and \
                            (src.canon(st.value.func, mod) or "") == "re.compile":
                        comp = st.value
            d = single_defs(f.node).get(nm)
            if comp is None and isinstance(d, ast.Call) and (src.canon(d.func, mod) or "") == "re.compile":
                comp = d
            if comp is not None:
                pat = fold.try_expr(comp.args[0], env) if comp.args else TOP
                flags = RX.flags_from_ast(src, mod, list(comp.args[1:]) + [k.value for k in comp.keywords if k.arg == "flags"])
                subj = n.args[0] if n.args else None
                out.append({"pattern": pat, "flags": flags, "node": n, "method": meth, "subject": subj,
                            "where": "%s (pattern compiled at %s)" % (f.where(n), mod.where(comp))})
    return out


def rule_position(src, rep, fold, counts):
    f = src.func("window", "CursorAwareWindow.get_cursor_position")
    uses = regex_uses(src, fold, f)
    counts["report_patterns"] = len(uses)
    uses = [u for u in uses if isinstance(u["pattern"], str)]
    if len(uses) != 1:
        # the report is not recognised by one constant pattern here: the language-level rule does not apply, the
        # interpreted catalogue below still decides the behaviour on its inputs
        rep.extracted["report_pattern"] = None
        return
    u = uses[0]
    rx = RX.Regex(u["pattern"], u["flags"])
    where = f.where(u["node"])
    rep.extracted["report_pattern"] = u["pattern"]
    rep.extracted["report_flags"] = u["flags"]
    ref = RX.Regex(REF_REPORT, 0)
    w = RX.language_subset(ref, ref.tree, rx, rx.tree)
    rep.ob("U1-report-pattern-accepts-every-report", where, f.scope, "L(<anything>CSI n;m R) within L(pattern), DOTALL=%s" % rx.dotall, w is None,
           "as a match of everything read so far the pattern rejects %r: the bytes before the report are not all captured in "
           "`extra` (they are neither handed to extra_bytes_callback nor reported), or the report form is not recognised" % w,
           witness={"input": w, "flags": u["flags"]})
    ref2 = RX.Regex(REF_REPORT_UPPER, 0)
    w = RX.language_subset(rx, rx.tree, ref2, ref2.tree)
    rep.ob("U1-report-pattern-accepts-only-reports", where, f.scope, "L(pattern) within L(<anything>CSI n;m R)", w is None,
           "the pattern also accepts %r, which is not a cursor position report" % w, witness={"input": w})



class WouldBlock(Exception):
    pass


REPORTS = [(1, 1), (5, 12), (24, 80), (1000, 1), (123456, 7)]
AHEAD = ["", "a", "ab\x1b[5;", "\x1b[A", "\x1b[", "7;9R", "\x1b[;5R", "\x1b[5;R", "\n\r\n", "\xe9", "\x1b[2;3", "R", "\x1bOP\x1b[1;5", "the quick brown fox jumps over the lazy dog 12"]
AFTER = ["", "x\x1b[3;4R"]


def rule_position_semantic(src, rep, counts):
    """U2-U4 on a catalogue of scripted input streams, get_cursor_position interpreted."""
    from ..par import pmap
    from ..fold import new_interp
    from ..winmodel import Rig
    from ..objinterp import NativeFunc
    from .. import termmodel
    it = new_interp(src)
    f = src.func("window", "CursorAwareWindow.get_cursor_position")
    jobs = []
    for (ri, rp), eight, (ai, ah), af, errs, cb, enc in itertools.product(enumerate(REPORTS), (False, True), enumerate(AHEAD), AFTER, (0, 1, 3, "2nd", "2nd+5th", "last"),
                                                                         (True, False), ("utf-8", "latin-1")):
        if rep.tier == "quick" and (ri + ai + {0: 0, 1: 1, 3: 3, "2nd": 2, "2nd+5th": 5, "last": 6}[errs] + (1 if eight else 0) + (1 if cb else 0) + len(af) + len(enc)) % 4:
            continue
        jobs.append((rp, eight, ah, af, errs, cb, enc))
    # extra_bytes_callback is a public attribute: what counts is the callback in place when the query is made
    for (ai, ah), cbmode in itertools.product(enumerate(AHEAD), ("attached after construction", "replaced after construction", "removed after construction")):
        jobs.append((REPORTS[ai % len(REPORTS)], bool(ai % 2), ah, AFTER[ai % len(AFTER)], 0, cbmode, "utf-8"))

    def one(job):
        rp, eight, ah, af, errs, cb, enc = job
        scr = termmodel.Screen(4, 10)
        old_calls = []
        try:
            rig = Rig(it, "CursorAwareWindow", 4, 10, screen=scr, init_kwargs={"extra_bytes_callback": "record"} if cb is True else
                      {"extra_bytes_callback": NativeFunc(lambda a, k: old_calls.append(a[0]), "the first callback")} if isinstance(cb, str) and not cb.startswith("attached") else {},
                      encoding=enc)
        except AnalysisError as e:
            return ("error", str(e))
        cbmode = cb if isinstance(cb, str) else None
        if cbmode is not None:
            if "extra_bytes_callback" not in rig.win.fields:
                return ("error", "CursorAwareWindow keeps no public attribute extra_bytes_callback")
            rig.win.fields["extra_bytes_callback"] = None if cbmode.startswith("removed") else \
                NativeFunc(lambda a, k: rig.extra.append(a[0]), "the callback in place at the time of the query")
            cb = not cbmode.startswith("removed")
        scr.report, scr.eight_bit = rp, eight
        rig.ahead, rig.after = list(ah), list(af)
        if isinstance(errs, int):
            rig.read_errors = errs
        else:
            total = len(ah) + len(("x" if eight else "xx") + "%d;%dR" % rp)
            rig.fail_reads = {"2nd": {2}, "2nd+5th": {2, 5}, "last": {total}}[errs]
        desc = "input %r, report %s%d;%dR, then %r%s%s, stream encoding %s" % (
            ah, "0x9b " if eight else "ESC[", rp[0], rp[1], af,
            ("; %d read(s) fail with OSError first" % errs if errs else "") if isinstance(errs, int) else "; the %s read fails with OSError" % errs,
            ("" if cb else "; no extra_bytes_callback") if cbmode is None else "; extra_bytes_callback %s" % cbmode, enc)
        try:
            r = rig.call("get_cursor_position")
        except AnalysisError as e:
            if "would block" in str(e):
                return ("U1-query-then-read", desc, "the window reads although no report can be pending: it wrote %r before reading (the query is ESC[6n) "
                        "or reads beyond the report" % ("".join(rig.log),))
            return ("error", str(e))
        if rig.over_reads:
            return ("U3-consumes-nothing-after-the-report", desc, "%d character(s) after the report were consumed" % rig.over_reads)
        if scr.replies:
            return ("U1-query-then-read", desc, "the terminal was asked more than once: %d character(s) of a further report (%r) stay unread and will be taken for the "
                    "answer to the next query" % (len(scr.replies), "".join(scr.replies)))
        if r == ("raise", "OSError"):
            return ("U4-read-errors-are-retried", desc, "OSError from the read escaped")
        if ah and not cb:
            if r != ("raise", "ValueError"):
                return ("U4-no-callback-raises-ValueError", desc, "input precedes the report and there is no callback: expected ValueError, got %s" % (r,))
            return None
        if r != ("ok", (rp[0] - 1, rp[1] - 1)):
            return ("U2-returns-reported-position-zero-based", desc, "returned %s, the report says row %d column %d (one-based)" % (r, rp[0], rp[1]))
        got = rig.extra
        if old_calls:
            return ("U4-preceding-bytes-to-callback-in-order", desc, "the callback that was replaced received %r" % (old_calls,))
        if any(not isinstance(x, bytes) for x in got):
            return ("U4-preceding-bytes-to-callback-in-order", desc, "the callback received %r, not bytes" % (got,))
        if b"".join(got) != ah.encode(enc) or (not ah and got):
            return ("U4-preceding-bytes-to-callback-in-order", desc, "the callback received %r, the input preceding the report is %r" % (got, ah.encode(enc)))
        return None
    results = pmap(one, jobs, min_chunk=16)
    groups = {"U1-query-then-read": "the query / read protocol on the scripted streams",
              "U2-returns-reported-position-zero-based": "returned position on the scripted streams",
              "U3-consumes-nothing-after-the-report": "input left unread on the scripted streams",
              "U4-read-errors-are-retried": "failing reads on the scripted streams",
              "U4-no-callback-raises-ValueError": "preceding input without a callback on the scripted streams",
              "U4-preceding-bytes-to-callback-in-order": "bytes handed to extra_bytes_callback on the scripted streams"}
    _tally(rep, f, jobs, results, groups)
    counts["position_streams"] = len(jobs)


def _tally(rep, f, jobs, results, groups):
    bad = {}
    n = 0
    for job, res in zip(jobs, results):
        n += 1
        rep.case(True, {"case": repr(job)[:200]} if n % 397 == 1 else None)
        if res is None:
            continue
        if res[0] == "error":
            raise AnalysisError(res[1])
        bad.setdefault(res[0], []).append(res[1:])
    for rule, group in groups.items():
        items = bad.get(rule, [])
        if items:
            items.sort(key=lambda x: len(x[0]))
            d, why = items[0]
            rep.ob(rule, f.where(), f.scope, group, False, "%s: %s (%d of %d cases fail this rule)" % (d, why, len(items), n),
                   witness={"case": d, "failing_cases": len(items)})
        else:
            rep.ob(rule, f.where(), f.scope, group, True)


def rule_conservation_semantic(src, rep, counts):
    """U5: delta(top_usable_row) + returned value == observed movement, per query, over histories of renders and movements."""
    from ..par import pmap
    from ..fold import new_interp
    from ..winmodel import Rig
    from .. import termmodel
    from .c02 import Pool
    it = new_interp(src)
    pool = Pool(it)
    f = src.func("window", "CursorAwareWindow.get_cursor_vertical_diff")
    jobs = []
    for h in ((4, 6) if rep.tier == "thorough" else (4,)):
        for k in range(h):
            for n, cr in ((1, 0), (2, 1), (h + 2, 0), (h + 2, h + 1), (0, 0)):
                rows = list(range(h))
                for t1 in rows:
                    for t2 in (rows if rep.tier == "thorough" else [rows[(t1 + k + n) % h], rows[(t1 * 2 + 1) % h]]):
                        for nested in ((None, 1, 4) if rep.tier == "thorough" else (None, 1 + (t1 + t2) % 4)):
                            jobs.append((h, k, n, cr, (t1, t2), nested))
                        if (t1 + t2 + k) % 2 == 0 or rep.tier == "thorough":
                            jobs.append((h, k, n, cr, (t1, t2), "position query first"))
                if n <= h:
                    for t1 in (h, h + 1, 0):
                        jobs.append((h, k, n, cr, (t1, (t1 + 2) % (h + 2)), "terminal made 2 rows taller"))

    def one(job):
        h, k, n, cr, targets, nested = job
        w = 5
        scr = termmodel.Screen(h, w)
        for i in range(k):
            scr.feed("o%d\r\n" % i)
        try:
            rig = Rig(it, "CursorAwareWindow", h, w, screen=scr)
            r = rig.call("__enter__")
            if r[0] != "ok":
                return ("error", "__enter__ raised %s" % (r[1],))
            array = [pool.fs("r%d" % i) for i in range(n)]
            r = rig.call("render_to_terminal", array, (cr, 0))
            if r[0] != "ok":
                return ("error", "render raised %s" % (r[1],))
            desc = ["%d-row terminal, window entered on row %d, render %d row(s) cursor_pos=(%d, 0) leaves the cursor on row %d"
                    % (h, k, n, cr, scr.r)]
            win = rig.win
            special = nested if isinstance(nested, str) else None
            if special is not None:
                nested = None
            if special == "terminal made 2 rows taller":
                scr.height += 2
                scr.rows.extend([[termmodel.BLANK] * scr.width for _ in range(2)])
                desc.append("the terminal is made 2 rows taller")
            for qi, t in enumerate(targets):
                m = t - scr.r
                scr.r = t
                if special == "position query first":
                    rp = rig.call("get_cursor_position")
                    if rp[0] != "ok":
                        return ("U5-movement-accounted-exactly-once", "; ".join(desc), "a stand-alone get_cursor_position() gave %s" % (rp,))
                    desc.append("get_cursor_position() is called on its own (it answers %s)" % (rp[1],))
                tur0 = it.folder.obj_attr(win, "top_usable_row")
                inner = []
                if nested is not None and qi == 0:
                    rig.reads = 0

                    def hook(rg, inner=inner):
                        if rg.reads == nested and not inner:
                            t0 = rg.it.folder.obj_attr(win, "top_usable_row")
                            inner.append((rg.it.callm(rg.win, "get_cursor_vertical_diff"), rg.it.folder.obj_attr(win, "top_usable_row") - t0))
                    rig.on_read = hook
                else:
                    rig.on_read = None
                r = rig.call("get_cursor_vertical_diff")
                rig.on_read = None
                desc.append("the cursor moves %+d row(s) to row %d, get_cursor_vertical_diff()%s" % (
                    m, t, " with a nested call arriving at read %d of the query" % nested if inner else ""))
                d = "; ".join(desc)
                if r[0] != "ok" or not isinstance(r[1], int):
                    return ("U5-movement-accounted-exactly-once", d, "the call gave %s" % (r,))
                if inner and inner[0] != (("ok", 0), 0):
                    return ("U5-nested-call-defers", d, "the nested call gave %s and changed top_usable_row by %s; it must return 0 and leave the "
                            "accounting to the call in progress" % inner[0])
                tur1 = it.folder.obj_attr(win, "top_usable_row")
                if (tur1 - tur0) + r[1] != m:
                    return ("U5-movement-accounted-exactly-once", d, "top_usable_row went %d -> %d and %d was returned: %+d accounted, the cursor moved %+d"
                            % (tur0, tur1, r[1], (tur1 - tur0) + r[1], m))
                if win.fields.get("in_get_cursor_diff") not in (False, None):
                    return ("U5-nested-call-defers", d, "the in-progress flag is still set after the call returned: every later call returns 0")
            return None
        except AnalysisError as e:
            return ("error", str(e))
    results = pmap(one, jobs, min_chunk=16)
    _tally(rep, f, jobs, results, {"U5-movement-accounted-exactly-once": "accounting of each query in the render / movement histories",
                                   "U5-nested-call-defers": "nested calls in the render / movement histories"})
    counts["movement_histories"] = len(jobs)


def rule_optional_int(src, rep, counts):
    """U6: attributes initialised to None that later hold ints (rows, columns, fds - all may be 0) are never tested by truthiness."""
    n = 0
    for modname in ("window", "input"):
        mod = src.module(modname)
        for (m, cname), c in src.classes.items():
            if m != modname:
                continue
            opt = set()
            init = src.funcs.get((m, cname + ".__init__"))
            if init is None:
                continue
            for node in init.own_nodes():
                if isinstance(node, (ast.Assign, ast.AnnAssign)) and isinstance(getattr(node, "value", None), ast.Constant) and node.value.value is None:
                    for t in (node.targets if isinstance(node, ast.Assign) else [node.target]):
                        if is_self_attr(t):
                            ann = unparse(node.annotation) if isinstance(node, ast.AnnAssign) else ""
                            if "int" in ann or t.attr in ("_last_cursor_row", "_last_cursor_column", "wakeup_read_fd", "wakeup_write_fd"):
                                opt.add(t.attr)
            if not opt:
                continue
            for f in src.all_funcs():
                if f.cls is None or f.module.name != modname:
                    continue
                for node in f.own_nodes():
                    tests = []
                    if isinstance(node, (ast.If, ast.While, ast.IfExp)):
                        tests = [node.test]
                    elif isinstance(node, ast.Assert):
                        tests = [node.test]
                    for t in tests:
                        for atom in _truth_atoms(t):
                            if is_self_attr(atom) and atom.attr in opt:
                                n += 1
                                rep.ob("U6-optional-int-tested-with-is-None", f.where(node), f.scope, unparse(t), False,
                                       "self.%s is None until first set and then holds an int that may be 0; a truthiness test "
                                       "treats row/column/descriptor 0 like 'not set'" % atom.attr)
            for a in sorted(opt):
                n += 1
                rep.ob("U6-optional-int-tested-with-is-None", mod.where(c), "%s:%s" % (m, cname), "self.%s (Optional[int])" % a, True)
    counts["optional_int_attrs"] = n


def _truth_atoms(t):
    """Sub-expressions of a test that are used for their truth value."""
    if isinstance(t, ast.BoolOp):
        for v in t.values:
            yield from _truth_atoms(v)
    elif isinstance(t, ast.UnaryOp) and isinstance(t.op, ast.Not):
        yield from _truth_atoms(t.operand)
    else:
        yield t


def check(src, rep):
    rep.explanation = EXPLANATION
    rep.not_decided = NOT_DECIDED
    rep.assumptions = ["xterm cursor position report format CSI row ; column R", "re.search semantics"]
    rep.trusted_base = ["CPython ast and re._parser", "sa/regexast.py (NFA/DFA)", "sa/cfg.py"]
    fold = Folder(src)
    counts = {}
    rep.guard(rule_position, src, rep, fold, counts)
    rep.guard(rule_position_semantic, src, rep, counts)
    rep.guard(rule_conservation_semantic, src, rep, counts)
    rep.guard(rule_optional_int, src, rep, counts)
    rep.extracted["counts"] = counts
    rep.floor("scripted report streams", counts.get("position_streams", 0), 300)
    rep.floor("movement histories", counts.get("movement_histories", 0), 100)
    rep.floor("optional-int attributes", counts.get("optional_int_attrs", 0), 4)
