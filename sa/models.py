"""Models extracted from the source by abstract interpretation (sa.absint) and shared by several properties:
the SGR writer (Chunk.color_str), the SGR reader table (escseqparse.token_type), the from_str fold and parse_args.
"""
import ast

from . import sgr
from .absint import BlockEval, Interp, FoldedRaise
from .consteval import Folder, Record, SymStr, TOP, Unknown
from .report import AnalysisError
from .srcmodel import unparse

T = SymStr(sgr.TEXT)


class Writer:
    def __init__(self, src, fold):
        self.src, self.fold = src, fold
        self.f = src.func("formatstring", "Chunk.color_str")
        self.env0 = dict(fold.module("formatstring"))
        self.be = BlockEval(fold, max_states=64)

    def outcomes(self, atts):
        env = dict(self.env0)
        env["self"] = Record(_s=T, s=T, _atts=dict(atts), atts=dict(atts))
        return self.be.run_function(self.f.node, env)

    def stream(self, atts):
        """The single stream for an attribute set, or None when the model is not deterministic/closed."""
        outs = self.outcomes(atts)
        if len(outs) == 1 and outs[0].term == "return" and isinstance(outs[0].value, str) and not outs[0].opaque \
                and not outs[0].assumptions:
            return outs[0].value
        return None


class Reader:
    """code list -> list of update dicts, or ('raise', Exc) - the extracted table of token_type's `m` branch."""

    def __init__(self, src, fold):
        self.src, self.fold = src, fold
        self.f = src.func("escseqparse", "token_type")
        self.env0 = dict(fold.module("escseqparse"))
        self.it = Interp(fold, classes=(), max_states=64)
        self.memo = {}

    def token(self, command, nums):
        key = (command, tuple(nums))
        if key in self.memo:
            return self.memo[key]
        env = dict(self.env0)
        params = self.f.params()
        if len(params) != 1:
            raise AnalysisError("token_type takes %d parameters" % len(params))
        env[params[0]] = {"command": command, "numbers": list(nums), "csi": "\x1b[", "intermed": "", "private": "",
                          "seq": "\x1b[%s%s" % (";".join(map(str, nums)), command)}
        outs = self.it.run_function(self.f.node, env)
        if len(outs) != 1 or outs[0].assumptions or outs[0].opaque:
            r = ("opaque", str(outs[:2]))
        elif outs[0].term == "raise":
            r = ("raise", outs[0].value)
        else:
            r = ("ok", outs[0].value)
        self.memo[key] = r
        return r


class FromStrFold:
    """Transition function of the token loop of FmtStr.from_str: (running format, token) -> (running format, emitted run)."""

    def __init__(self, src, fold):
        self.src, self.fold = src, fold
        self.f = src.func("formatstring", "FmtStr.from_str")
        self.env0 = dict(fold.module("formatstring"))
        self.it = Interp(fold, classes=("Chunk", "FmtStr"), max_states=64)
        loops = [n for n in ast.walk(self.f.node) if isinstance(n, ast.For)]
        if len(loops) != 1:
            raise AnalysisError("FmtStr.from_str: expected exactly one for loop, found %d" % len(loops))
        self.loop = loops[0]
        if not isinstance(self.loop.target, ast.Name):
            raise AnalysisError("from_str loop target is not a plain name")
        self.var = self.loop.target.id
        m = self.f.module
        block = None
        parent = m.parent.get(self.loop)
        for fld in ("body", "orelse", "finalbody"):
            b = getattr(parent, fld, None)
            if isinstance(b, list) and self.loop in b:
                block = b
        if block is None:
            raise AnalysisError("cannot locate the block of the from_str loop")
        self.pre = block[:block.index(self.loop)]
        self.post = block[block.index(self.loop) + 1:]
        # the iterable is the name bound from parse(s)
        self.iter_name = unparse(self.loop.iter)
        # locals initialised before the loop
        outs = []
        falls = self.it._block(self.pre, [(dict(self.env0), [], [])], outs)
        if len(falls) != 1 or outs:
            raise AnalysisError("statements before the from_str loop are not straight-line initialisations")
        self.init_env = falls[0][0]
        self.locals = [k for k in self.init_env if k not in self.env0]
        self.dicts = [k for k in self.locals if isinstance(self.init_env[k], dict)]
        self.lists = [k for k in self.locals if isinstance(self.init_env[k], list)]
        if len(self.dicts) != 1 or len(self.lists) != 1:
            raise AnalysisError("from_str loop state is not (one running dict, one run list): %s" % self.locals)
        if self.init_env[self.dicts[0]] or self.init_env[self.lists[0]]:
            raise AnalysisError("from_str loop state does not start empty")
        self.memo = {}

    def step(self, fmt, tok):
        """fmt: dict; tok: dict (update) or str/SymStr (text).  Returns ('ok', new_fmt, [emitted runs]) | ('raise', E) | ('opaque', why)"""
        key = (tuple(sorted(fmt.items(), key=repr)), tuple(sorted(tok.items(), key=repr)) if isinstance(tok, dict) else ("text", str(tok)))
        if key in self.memo:
            return self.memo[key]
        env = dict(self.init_env)
        env[self.dicts[0]] = dict(fmt)
        env[self.lists[0]] = []
        env[self.var] = tok
        outs = []
        falls = self.it._block(self.loop.body, [(env, [], [])], outs)
        for o in outs:
            if o.term == "continue":
                falls.append((o.env, o.assumptions, o.effects))
        others = [o for o in outs if o.term != "continue"]
        if others:
            o = others[0]
            r = ("raise", o.value) if o.term == "raise" else ("opaque", "loop body ends with %s" % o.term)
        elif len(falls) != 1 or falls[0][1] or any(e[0].startswith("opaque") or e[0] == "call" for e in falls[0][2]):
            r = ("opaque", "loop body is not deterministic/closed for token %r: %s" % (tok, falls[:2]))
        else:
            e2 = falls[0][0]
            nf, runs = e2[self.dicts[0]], e2[self.lists[0]]
            if nf is TOP or runs is TOP:
                r = ("opaque", "loop state became unknown")
            else:
                r = ("ok", dict(nf), list(runs))
        self.memo[key] = r
        return r

    def result_is_all_runs(self):
        """The statements after the loop return FmtStr(*<run list>)."""
        env = dict(self.init_env)
        marker = [("<Chunk>", "a", ()), ("<Chunk>", "b", ())]
        env[self.lists[0]] = list(marker)
        outs = []
        falls = self.it._block(self.post, [(env, [], [])], outs)
        ok = len(outs) == 1 and outs[0].term == "return" and outs[0].value == ("<FmtStr>",) + tuple(marker)
        return ok, outs


def parse_args_eval(it, src, fold, args, kwargs):
    f = src.func("formatstring", "parse_args")
    env = dict(fold.module("formatstring"))
    ps = f.params()
    if len(ps) != 2:
        raise AnalysisError("parse_args takes %d parameters" % len(ps))
    env[ps[0]] = tuple(args)
    env[ps[1]] = dict(kwargs)
    outs = it.run_function(f.node, env)
    if len(outs) != 1 or outs[0].assumptions or outs[0].opaque:
        return ("opaque", str(outs[:2]))
    if outs[0].term == "raise":
        return ("raise", outs[0].value)
    return ("ok", outs[0].value)
