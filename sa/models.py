"""Models extracted from the source by abstract interpretation (sa.objinterp) and shared by several properties:
the SGR writer (Chunk.color_str), the SGR reader (escseqparse.token_type), FmtStr.from_str with a given token list,
and parse_args.  All are evaluated structure-independently: whatever helper functions, tables or loops the code uses,
the function is interpreted on the domain element and only its outcome is looked at.
"""
import ast

from . import sgr
from .absint import FoldedRaise
from .consteval import EscText, PlainText, SymStr, TOP, Unknown
from .objinterp import Obj, ObjInterp
from .report import AnalysisError

T = PlainText(sgr.TEXT)
T2 = PlainText("U")


def runs_of(obj):
    """[(text, attribute dict)] of a FmtStr model value."""
    if not (isinstance(obj, Obj) and obj.cls == "FmtStr"):
        raise AnalysisError("expected a FmtStr model value, got %r" % (obj,))
    out = []
    for c in obj.fields.get("chunks", []):
        a = c.fields.get("_atts", c.fields.get("atts"))
        out.append((c.fields.get("_s", c.fields.get("s")), dict(a.payload) if isinstance(a, Obj) and a.payload is not None else dict(a or {})))
    return out


import re as _re
_UNIT = _re.compile("\ue000.\ue001|.", _re.S)


def cells(runs):
    """Per-character view of a run list: [(unit, attributes that are on)] where a unit is a symbolic-text marker or a
    literal character.  Two run lists with the same cells display the same (run boundaries and False/absent values do
    not matter)."""
    out = []
    for t, a in runs:
        eff = tuple(sorted((k, v) for k, v in a.items() if v))
        for u in _UNIT.findall(str(t)):
            out.append((u, eff))
    return out


def mk_fmtstr(it, *runs):
    chunks = [it.new("formatstring", "Chunk", t, dict(a)) for t, a in runs]
    return it.new("formatstring", "FmtStr", *chunks)


class Writer:
    def __init__(self, src, it):
        self.src, self.it = src, it
        self.f = src.func("formatstring", "Chunk.color_str")
        self.text = SymStr(sgr.TEXT)      # fully symbolic: ANY inspection of the text is an unknown atom

    def outcomes(self, atts):
        chunk = self.it.new("formatstring", "Chunk", self.text, dict(atts))
        try:
            return self.it.call("formatstring", "Chunk.color_str", chunk)
        except Unknown as e:
            raise AnalysisError("Chunk.color_str outside the evaluated subset: %s" % e)

    def stream(self, atts):
        """The single stream for an attribute set, or None when the model is not deterministic/closed."""
        outs = self.outcomes(atts)
        if len(outs) == 1 and outs[0].term == "return" and isinstance(outs[0].value, str) and not outs[0].opaque \
                and not outs[0].assumptions:
            return outs[0].value
        return None


class Reader:
    """command + parameter list -> ('ok', updates | None) | ('raise', Exc) | ('opaque', why): token_type interpreted."""

    def __init__(self, src, it):
        self.src, self.it = src, it
        self.f = src.func("escseqparse", "token_type")
        self.memo = {}

    def token_dict(self, tok):
        key = repr(sorted(tok.items(), key=lambda kv: kv[0]))
        if key in self.memo:
            return self.memo[key]
        r = self.it.call1("escseqparse", "token_type", dict(tok))
        self.memo[key] = r
        return r

    def token(self, command, nums):
        tok = {"command": command, "numbers": list(nums) if not isinstance(nums, str) else nums, "csi": "\x1b[", "intermed": "",
               "private": "", "seq": "\x1b[%s%s" % (";".join(map(str, nums)) if not isinstance(nums, str) else nums, command)}
        return self.token_dict(tok)


class FromStr:
    """FmtStr.from_str interpreted with parse() stubbed to return a given token list (the input text is symbolic text
    that contains ESC[, so the parsing path is taken)."""

    def __init__(self, src, it):
        self.src, self.it = src, it
        self.f = src.func("formatstring", "FmtStr.from_str")
        self.memo = {}
        self.fallback_marker = PlainText("R")

    def run(self, tokens, parse_raises=None):
        key = repr([(sorted(t.items(), key=repr) if isinstance(t, dict) else ("text", str(t))) for t in tokens]) + repr(parse_raises)
        if key in self.memo:
            return self.memo[key]
        fold = self.it.folder

        def parse_stub(args, kw):
            if parse_raises:
                raise FoldedRaise(parse_raises, "parse")
            return [dict(t) if isinstance(t, dict) else t for t in tokens]
        fold.stubs[("escseqparse", "parse")] = parse_stub
        fold.stubs[("escseqparse", "remove_ansi")] = lambda args, kw: self.fallback_marker
        try:
            r = self.it.call1("formatstring", "FmtStr.from_str", EscText("S"))
        finally:
            fold.stubs.pop(("escseqparse", "parse"), None)
            fold.stubs.pop(("escseqparse", "remove_ansi"), None)
        if r[0] == "ok":
            r = ("ok", runs_of(r[1]))
        self.memo[key] = r
        return r


def parse_args_eval(it, args, kwargs):
    return it.call1("formatstring", "parse_args", tuple(args), dict(kwargs))


# ---- a result seen through its own views --------------------------------------------------------------------------
_SGR_OR_CHAR = _re.compile("\x1b\\[([0-9;]*)m|(.)", _re.S)


def displayed(stream):
    """[(character, graphic state)] a terminal shows for `stream` (SGR sequences and literal characters only), and the final state."""
    state = sgr.DEFAULT
    out = []
    for m in _SGR_OR_CHAR.finditer(stream):
        if m.group(2) is not None:
            out.append((m.group(2), state))
        else:
            state = sgr.apply_params(state, [int(x) if x else 0 for x in m.group(1).split(";")] if m.group(1) else [])
    return out, state


def view_problem(it, v, want_width=None):
    """None, or what is wrong with the views a FmtStr model value gives of itself: .s, len(), str() (what a terminal shows for it)
    and optionally .width must all agree with its runs.  A result whose memoised views were pre-seeded wrongly is caught here."""
    rs = runs_of(v)
    text = "".join(str(t) for t, _ in rs)

    def get(what, thunk):
        try:
            return ("ok", thunk())
        except FoldedRaise as e:
            return ("raise", e.name)
        except Unknown as e:
            raise AnalysisError("%s of a result is outside the evaluated subset: %s" % (what, e))

    s_view = get(".s", lambda: it.folder.obj_attr(v, "s"))
    if s_view != ("ok", text):
        return "its runs spell %r but its .s %s" % (text, "is %r" % (s_view[1],) if s_view[0] == "ok" else "raises " + s_view[1])
    n_view = it.callm(v, "__len__")
    if n_view[0] == "opaque":
        raise AnalysisError("len() of a result is outside the evaluated subset: %s" % (n_view[1],))
    if n_view != ("ok", len(text)):
        return "its runs spell %r (%d characters) but its len() %s" % (text, len(text), "is %r" % (n_view[1],) if n_view[0] == "ok" else "raises %s" % (n_view[1],))
    st_view = it.callm(v, "__str__")
    if st_view[0] == "opaque":
        raise AnalysisError("str() of a result is outside the evaluated subset: %s" % (st_view[1],))
    if st_view[0] != "ok" or not isinstance(st_view[1], str):
        return "str() of it %s" % ("raises %s" % (st_view[1],) if st_view[0] != "ok" else "is not a str")
    if "\x1b" not in text:
        try:
            shown, final = displayed(st_view[1])
        except sgr.Unsupported as e:
            return "str() of it emits SGR code %s" % e
        want = []
        for t, a in rs:
            stt = sgr.expected_state(a.get("fg"), a.get("bg"), {k: x for k, x in a.items() if k not in ("fg", "bg")})
            want.extend((ch, stt) for ch in str(t))
        if shown != want:
            return "str() of it displays %s, its runs are %s" % ([(c, s_[0], s_[1], sorted(s_[2])) for c, s_ in shown], [(c, s_[0], s_[1], sorted(s_[2])) for c, s_ in want])
        if final != sgr.DEFAULT:
            return "str() of it leaves the terminal in a non-default graphic state"
    if want_width is not None:
        w_view = get(".width", lambda: it.folder.obj_attr(v, "width"))
        if w_view != ("ok", want_width):
            return "its characters occupy %d column(s) but its .width %s" % (want_width, "is %r" % (w_view[1],) if w_view[0] == "ok" else "raises " + w_view[1])
    return None
