"""Interpreting the window classes against the reference terminal (sa/termmodel.py).

`Rig` builds a window object by interpreting the class's own `__init__` with `blessed.Terminal`, `sys.__stdout__/__stdin__`
and `Cbreak` replaced by stubs, and offers `call(method, *args)`.  Everything the window writes goes to a `Screen`; what
it reads comes from the screen's replies (cursor position reports) preceded / followed by scripted input.
"""
from . import termmodel
from .absint import FoldedRaise
from .consteval import ExcName, Record, Unknown
from .objinterp import NativeCM, NativeFunc
from .report import AnalysisError


class Rig:
    def __init__(self, it, cls, height, width, init_kwargs=None, screen=None, encoding="utf-8", real_cbreak=False):
        self.it = it
        self.cls = cls
        self.screen = screen or termmodel.Screen(height, width)
        self.after = []            # scripted input that arrives after the terminal's reply
        self.over_reads = 0        # characters of `after` the window consumed
        self.ahead = []            # scripted input delivered before the terminal's reply
        self.read_errors = 0       # reads that fail with OSError before the next character is delivered
        self.fail_reads = set()    # 1-based indices of read calls that fail with OSError
        self.on_read = None        # hook called at every read (used to inject a nested call)
        self.reads = 0
        self.writes = 0
        self.crash_at_write = None # the k-th write raises KeyboardInterrupt instead of reaching the terminal
        self.extra = []            # bytes handed to extra_bytes_callback
        self.log = []
        scr = self.screen

        # the output stream is buffered, as a real text stream is: what was written reaches the terminal at the next flush()
        self.pending = []

        def flush(args=None, kw=None):
            for d in self.pending:
                scr.feed(d)
            del self.pending[:]
            return None
        self.flush = flush

        def emit(data):
            """blessed's own context managers write to the same stream and flush it"""
            self.pending.append(data)
            flush()

        def write(args, kw):
            (data,) = args
            if any(q.endswith(".__exit__") for q in it.folder.stack):
                self.pending.append(data)
                return None
            self.writes += 1
            if self.crash_at_write is not None and self.writes == self.crash_at_write:
                self.crash_at_write = None
                raise FoldedRaise(ExcName("KeyboardInterrupt"), "arrives at a write to the terminal")
            self.log.append(data)
            self.pending.append(data)
            return None

        def read(args, kw):
            self.reads += 1
            if self.on_read is not None:
                self.on_read(self)
            if self.read_errors > 0 or self.reads in self.fail_reads:
                self.read_errors = max(0, self.read_errors - 1)
                raise FoldedRaise(ExcName("OSError", errno=5, args=(5, "Input/output error"), strerror="Input/output error"), "scripted read failure")
            want = args[0] if args and isinstance(args[0], int) and args[0] > 0 else 1
            out = ""
            while len(out) < want:
                if self.ahead:
                    out += self.ahead.pop(0)
                elif scr.replies:
                    out += scr.replies.pop(0)
                elif self.after:
                    self.over_reads += 1
                    out += self.after.pop(0)
                else:
                    break
            if not out:
                raise AnalysisError("the window reads from the terminal although no reply is pending (it would block)")
            return out

        self.out_stream = Record(write=NativeFunc(write, "out_stream.write"), flush=NativeFunc(flush, "out_stream.flush"),
                                 encoding=encoding, isatty=NativeFunc(lambda a, k: True), fileno=NativeFunc(lambda a, k: 1))
        self.in_stream = Record(read=NativeFunc(read, "in_stream.read"), encoding=encoding, fileno=NativeFunc(lambda a, k: 0),
                                isatty=NativeFunc(lambda a, k: True))

        def location(args, kw):
            x = kw.get("x", args[0] if args else None)
            y = kw.get("y", args[1] if len(args) > 1 else None)

            def enter():
                emit("\x1b7")
                if x is not None and y is not None:
                    emit(termmodel.move(y, x))
                elif x is not None:
                    emit(termmodel.move_x(x))
                elif y is not None:
                    emit(termmodel.move(y, scr.c))
            return NativeCM(enter, lambda: emit("\x1b8"), "location")

        def terminal(args, kw):
            fields = dict(termmodel.CAPS)
            fields.update(
                height=scr.height, width=scr.width, stream=kw.get("stream"),
                move=NativeFunc(lambda a, k: termmodel.move(*a), "move"), move_x=NativeFunc(lambda a, k: termmodel.move_x(*a), "move_x"),
                move_yx=NativeFunc(lambda a, k: termmodel.move(*a), "move_yx"),
                move_xy=NativeFunc(lambda a, k: termmodel.move(a[1], a[0]), "move_xy"),
                location=NativeFunc(location, "location"),
                fullscreen=NativeFunc(lambda a, k: NativeCM(lambda: emit(termmodel.CAPS["enter_fullscreen"]),
                                                            lambda: emit(termmodel.CAPS["exit_fullscreen"]), "fullscreen")),
                cbreak=NativeFunc(lambda a, k: NativeCM(None, None, "cbreak")),
                get_location=NativeFunc(lambda a, k: (scr.r, scr.c)),
            )
            self.term = Record(**fields)
            return self.term

        stdout, stdin = Record(name="<stdout>"), Record(name="<stdin>")
        # the process-wide encodings are not the stream's: modelled as a third encoding so that a dependence on them shows
        other = NativeFunc(lambda a, k: "cp437", "process encoding")
        fake_sys = Record(__stdout__=stdout, __stdin__=stdin, stdout=stdout, stdin=stdin, maxsize=2 ** 63 - 1,
                          getdefaultencoding=other, getfilesystemencoding=other)
        it.folder.overrides.setdefault("window", {}).update({
            "blessed": Record(Terminal=NativeFunc(terminal, "blessed.Terminal")),
            "sys": fake_sys,
            "locale": Record(getpreferredencoding=other, getlocale=NativeFunc(lambda a, k: ("en_US", "cp437")),
                             getencoding=other),
            "Cbreak": NativeFunc(lambda a, k: NativeCM(None, None, "Cbreak")),
        })
        if real_cbreak:
            it.folder.overrides["window"].pop("Cbreak", None)
        kw = dict(init_kwargs or {})
        kw.setdefault("out_stream", self.out_stream)
        if cls == "CursorAwareWindow":
            kw.setdefault("in_stream", self.in_stream)
            if kw.get("extra_bytes_callback") == "record":
                kw["extra_bytes_callback"] = NativeFunc(lambda a, k: self.extra.append(a[0]), "extra_bytes_callback")
        try:
            self.win = it.new("window", cls, **kw)
        except (Unknown, FoldedRaise) as e:
            raise AnalysisError("constructing %s is outside the evaluated subset: %s" % (cls, e))

    def sync_size(self):
        self.term.fields["height"], self.term.fields["width"] = self.screen.height, self.screen.width

    def call(self, method, *args, **kw):
        self.sync_size()
        forks = getattr(self.it, "forks", 0)
        log = self.it.__dict__.setdefault("effect_log", [])
        mark = len(log)
        r = self.it.callm(self.win, method, *args, **kw)
        skipped = [t for k, t in log[mark:] if not t.startswith(("logger.", "logging."))]
        del log[mark:]
        if skipped:
            # a statement whose effect the evaluator could not follow: what reached the terminal model is incomplete
            raise AnalysisError("%s.%s: statement outside the evaluated subset while interpreting against the terminal model: `%s`"
                                % (self.cls, method, skipped[0]))
        if getattr(self.it, "forks", 0) != forks:
            # a test on a value the evaluator does not know was explored both ways while the terminal stubs kept one state
            raise AnalysisError("%s.%s: a condition on an unknown value was met while interpreting against the terminal model (%s)"
                                % (self.cls, method, r[1] if r[0] == "opaque" else "result discarded"))
        if r[0] == "opaque":
            raise AnalysisError("%s.%s outside the evaluated subset: %s" % (self.cls, method, r[1]))
        return r
