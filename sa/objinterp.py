"""Object-aware abstract interpretation (extension of sa.absint / sa.consteval).

Models instances of the package's own value classes (FmtStr, Chunk, FrozenAttributes, KeyMap ...) as `Obj` values whose
methods, properties and dunder protocols are resolved through the class hierarchy found in the source and inlined by the
decision-list evaluator.  Used only on finite domains: attribute dictionaries drawn from the package's constant tables,
symbolic or marker texts, and run layouts of bounded size (the bound is stated in each check's evidence).  Anything
outside the pure subset is Unknown (fail-closed).  Nothing is executed by the Python interpreter except whitelisted
pure builtins on already-folded values.
"""
import ast

from .absint import BlockEval, FoldedRaise, LocalFunc, Outcome, bind_arguments
from .consteval import (ClassRef, Folder, FuncRef, Lam, Opaque, Partial, Record, SymStr, TOP, Unknown, SAFE_BUILTINS)
from .report import AnalysisError

_NOTIMPL = NotImplemented


class Obj:
    __slots__ = ("cls", "mod", "fields", "payload", "tag")

    def __init__(self, mod, cls, payload=None):
        self.mod, self.cls = mod, cls
        self.fields = {}
        self.payload = payload
        self.tag = None

    def shallow_copy(self):
        new = Obj(self.mod, self.cls, None if self.payload is None else type(self.payload)(self.payload))
        new.fields = dict(self.fields)
        new.tag = self.tag
        return new

    def __repr__(self):
        if self.payload is not None:
            return "<%s %r>" % (self.cls, self.payload)
        return "<%s %s>" % (self.cls, {k: v for k, v in self.fields.items()})


class _ObjKey:
    """A model object used as a cache / dict key: hashed and compared with the object's OWN __hash__ / __eq__."""
    __slots__ = ("interp", "o")

    def __init__(self, interp, o):
        self.interp, self.o = interp, o

    def __hash__(self):
        h = self.interp.dunder(self.o, "__hash__")
        if isinstance(h, tuple) and len(h) == 2 and h[0] == "hash-of":
            return hash(h[1])            # the evaluator's hash(x) stands for "the hash of x"
        return id(self.o) if h is _Missing else h if isinstance(h, int) and not isinstance(h, bool) else hash(h)

    def __eq__(self, other):
        if isinstance(other, _ObjKey):
            return self.o is other.o or bool(self.interp.v_compare(ast.Eq(), self.o, other.o))
        if isinstance(other, (str, bytes, int, float, tuple, frozenset)) or other is None:
            return bool(self.interp.v_compare(ast.Eq(), self.o, other))      # the reflected comparison CPython falls back to
        return NotImplemented


class BoundMethod:
    def __init__(self, obj, func, name):
        self.obj, self.func, self.name = obj, func, name


class NativeFunc:
    """A stub supplied by a rule: fn(args, kwargs) -> value (may raise FoldedRaise / Unknown)."""

    def __init__(self, fn, name="stub"):
        self.fn, self.name = fn, name

    def __deepcopy__(self, memo):
        return self


class NativeCM:
    """A context manager supplied by a rule: enter() -> value, exit() -> None."""

    def __init__(self, enter=None, exit=None, name="cm"):
        self.enter, self.exit, self.name = enter, exit, name

    def __deepcopy__(self, memo):
        return self


class SuperProxy:
    def __init__(self, obj, mod, cls):
        self.obj, self.mod, self.cls = obj, mod, cls


class ClassFunc:
    """staticmethod / plain function looked up on a class object (FmtStr.from_str)."""

    def __init__(self, func):
        self.func = func


_DICT_BASES = ("dict", "Dict", "OrderedDict")


class OFolder(Folder):
    def __init__(self, src, fuel=10 ** 10, depth=24):
        Folder.__init__(self, src, fuel)
        self.interp = None
        self.depth = depth
        self._tls = __import__("threading").local()
        self.hash_log = []
        self._main_stack = []    # qualified names of the package functions being interpreted (innermost last)
        self.stubs = {}          # (module, function qualname) -> fn(args, kw)
        self.overrides = {}      # module name -> {global name: value} used when a function of that module is interpreted
        try:
            import wcwidth as _w
            self._wc = {"wcswidth": _w.wcswidth, "wcwidth": _w.wcwidth}
        except Exception:    # pragma: no cover
            self._wc = {}

    def _interp(self):
        if self.interp is None:
            self.interp = ObjInterp.__new__(ObjInterp)
            BlockEval.__init__(self.interp, self, max_states=512)
            self.interp.ofolder = self
            self.interp.src = self.src
        return self.interp

    # ---- class helpers ---------------------------------------------------------------
    def _find_method(self, obj_or_cls, name):
        mod, cls = (obj_or_cls.mod, obj_or_cls.cls) if isinstance(obj_or_cls, Obj) else (obj_or_cls.mod, obj_or_cls.name)
        return self.src.resolve_method(mod, cls, name)

    def _is_dict_class(self, mod, cls):
        for m, c in self.src.mro(mod, cls):
            for b in c.bases:
                bn = b.value if isinstance(b, ast.Subscript) else b
                if isinstance(bn, ast.Name) and bn.id in _DICT_BASES:
                    return True
        return False

    @staticmethod
    def _decos(func):
        return [d.split(".")[-1].split("(")[0] for d in func.decorators()]

    # the call stack and the inlining depth are per thread (lazy generators run their body in a thread of their own)
    @property
    def stack(self):
        import threading
        if threading.current_thread() is threading.main_thread():
            return self._main_stack
        st = getattr(self._tls, "stack", None)
        if st is None:
            st = self._tls.stack = []
        return st

    @property
    def _level(self):
        return getattr(self._tls, "level", 0)

    @_level.setter
    def _level(self, v):
        self._tls.level = v

    def _inline(self, func, args, kw, self_obj=None, closure_env=None):
        if self._level >= self.depth:
            raise Unknown("inlining depth exceeded at %s" % func.qualname)
        env = dict(closure_env) if closure_env is not None else dict(self.module(func.module.name))
        if closure_env is None and func.module.name in self.overrides:
            env.update(self.overrides[func.module.name])
        node = func.node
        a = list(args)
        if self_obj is not None:
            a = [self_obj] + a
        bind_arguments(self, node, a, kw, env)
        if self_obj is not None and getattr(func, "cls", None) is not None:
            env["__class__"] = (func.module.name, func.cls.name)
            env["__self__"] = self_obj
        self._level += 1
        self.stack.append(getattr(func, "qualname", getattr(node, "name", "?")))
        try:
            outs = self._interp().run_function(node, env)
        finally:
            self._level -= 1
            self.stack.pop()
        if closure_env is None:
            self._write_globals(node, func.module.name, outs)
        return self._single(outs, getattr(func, "qualname", getattr(node, "name", "?")))

    def _write_globals(self, node, modname, outs):
        """`global x` in a function: what the function leaves in x is what the module holds afterwards (single-outcome runs only)."""
        names = [n for st in ast.walk(node) if isinstance(st, ast.Global) for n in st.names]
        if not names or len(outs) != 1:
            return
        env = outs[0].env
        target = self.overrides.get(modname) if modname in self.overrides and any(n in self.overrides[modname] for n in names) else None
        mod = self.module(modname)
        for n in names:
            if n in env and env[n] is not TOP:
                (target if target is not None and n in target else mod)[n] = env[n]

    def _single(self, outs, what):
        if len(outs) != 1 or outs[0].assumptions or outs[0].opaque:
            raise Unknown("call of %s has %d outcomes / unknown atoms: %s" % (what, len(outs), [repr(o)[:160] for o in outs[:3]]))
        o = outs[0]
        if o.term == "raise":
            raise FoldedRaise(o.value, what)
        if o.value is TOP:
            raise Unknown("call of %s returns an unknown value" % what)
        return o.value

    def construct(self, cref, args, kw):
        obj = Obj(cref.mod, cref.name)
        init = self.src.resolve_method(cref.mod, cref.name, "__init__")
        if init is not None:
            self._inline(init, args, kw, self_obj=obj)
            return obj
        if self._is_dict_class(cref.mod, cref.name):
            conv = [list(a) if not isinstance(a, (dict, list, tuple)) and hasattr(a, "__iter__") else a for a in args]
            conv = [a.payload if isinstance(a, Obj) and a.payload is not None else a for a in conv]
            obj.payload = dict(*conv, **kw)
            return obj
        if args or kw:
            raise FoldedRaise("TypeError", "%s() takes no arguments" % cref.name)
        return obj

    def obj_attr(self, obj, attr):
        if attr in obj.fields:
            return obj.fields[attr]
        if attr == "__class__":
            return self.module(obj.mod)[obj.cls]
        if attr == "__dict__" and obj.payload is None:
            return obj.fields          # the instance dictionary itself: updates through it are attribute stores
        f = self._find_method(obj, attr)
        if f is not None:
            d = self._decos(f)
            if "cached_property" in d:
                # functools.cached_property: computed once, then kept in the instance dictionary under the same name
                val = self._inline(f, [], {}, self_obj=obj)
                obj.fields[attr] = val
                return val
            if "property" in d:
                return self._inline(f, [], {}, self_obj=obj)
            if "staticmethod" in d:
                return ClassFunc(f)
            return BoundMethod(obj, f, attr)
        if obj.payload is not None:
            return Folder.v_attr(self, obj.payload, attr)
        # a data attribute assigned in a class body: ONE value per class, shared by every instance (and mutable in place)
        cache = self.__dict__.setdefault("_class_attrs", {})
        for m, c in self.src.mro(obj.mod, obj.cls):
            key = (m, c.name, attr)
            if key in cache:
                return cache[key]
            for st in c.body:
                tgt = st.targets if isinstance(st, ast.Assign) else [st.target] if isinstance(st, ast.AnnAssign) and st.value is not None else []
                if any(isinstance(t, ast.Name) and t.id == attr for t in tgt):
                    env = dict(self.module(m))
                    env.update(self.overrides.get(m, {}))
                    cache[key] = self.expr(st.value, env)
                    return cache[key]
        ga = self._find_method(obj, "__getattr__")
        if ga is not None:
            return self._inline(ga, [attr], {}, self_obj=obj)
        raise FoldedRaise("AttributeError", "%s.%s" % (obj.cls, attr))

    def dunder(self, obj, name, *args):
        f = self._find_method(obj, name)
        if f is None:
            return _Missing
        return self._inline(f, list(args), {}, self_obj=obj)

    # ---- overridden value operations -------------------------------------------------------
    @staticmethod
    def _plain(v):
        if isinstance(v, (Obj, BoundMethod, LocalFunc, ClassFunc, EnumMember, NativeFunc, NativeCM, SuperProxy)):
            return
        Folder._plain(v)

    def v_truth(self, v):
        if isinstance(v, Obj):
            r = self.dunder(v, "__bool__")
            if r is not _Missing:
                return bool(r)
            r = self.dunder(v, "__len__")
            if r is not _Missing:
                return r != 0
            if v.payload is not None:
                return bool(v.payload)
            return True
        if isinstance(v, (BoundMethod, LocalFunc, ClassFunc, ClassRef, FuncRef, NativeFunc, NativeCM)):
            return True
        if v is NotImplemented:
            return True
        return Folder.v_truth(self, v)

    def v_iter(self, v):
        if isinstance(v, Obj):
            if v.payload is not None:
                return list(v.payload)
            f = self._find_method(v, "__iter__")
            if f is None and self._find_method(v, "__getitem__") is not None:
                n = self.dunder(v, "__len__")
                return [self.dunder(v, "__getitem__", i) for i in range(n)]
            raise Unknown("iteration over %r" % v)
        return Folder.v_iter(self, v)

    def v_attr(self, v, attr):
        if isinstance(v, Obj):
            return self.obj_attr(v, attr)
        if isinstance(v, NativeCM) and attr in ("__enter__", "__exit__"):
            fn = v.enter if attr == "__enter__" else v.exit
            return NativeFunc(lambda a, k: fn() if fn is not None else None, "%s.%s" % (v.name, attr))
        if isinstance(v, SuperProxy):
            chain = self.src.mro(v.obj.mod, v.obj.cls)
            names = [(m, c.name) for m, c in chain]
            after = chain[names.index((v.mod, v.cls)) + 1:] if (v.mod, v.cls) in names else []
            for m, c in after:
                f = self.src.funcs.get((m, c.name + "." + attr))
                if f is not None:
                    return BoundMethod(v.obj, f, attr)
            if attr == "__init__":
                return NativeFunc(lambda a, k: None, "object.__init__")
            raise Unknown("super().%s outside the package" % attr)
        if isinstance(v, ClassRef) and any(isinstance(b, ast.Name) and b.id in ("Enum", "IntEnum", "Flag") for b in v.node.bases):
            members = [t.id for st in v.node.body if isinstance(st, ast.Assign) for t in st.targets if isinstance(t, ast.Name)]
            if attr in members:
                cache = self.__dict__.setdefault("_enum_cache", {})
                return cache.setdefault((v.name, attr), EnumMember(v.name, attr))
            raise FoldedRaise("AttributeError", "%s.%s" % (v.name, attr))
        if isinstance(v, ClassRef):
            if attr in ("__name__", "__qualname__"):
                return v.name
            f = self.src.resolve_method(v.mod, v.name, attr)
            if f is not None:
                return ClassFunc(f)
            if attr == "__new__":
                # object.__new__(cls): an instance without attributes (only for classes that do not define __new__ and have no payload)
                def bare(a, k, v=v):
                    if len(a) != 1 or a[0] is not v or k:
                        raise Unknown("__new__ with arguments")
                    for m, c in self.src.mro(v.mod, v.name):
                        if any(isinstance(b, ast.Name) and b.id in ("dict", "list", "str", "tuple", "int") for b in c.bases):
                            raise Unknown("__new__ of a class with a builtin base")
                    return Obj(v.mod, v.name)
                return NativeFunc(bare, "%s.__new__" % v.name)
            # class attribute assigned in the class body (or re-bound through the class since): one value per class
            cache = self.__dict__.setdefault("_class_attrs", {})
            for m, c in self.src.mro(v.mod, v.name):
                key = (m, c.name, attr)
                if key in cache:
                    return cache[key]
                for st in c.body:
                    tgt = st.targets if isinstance(st, ast.Assign) else [st.target] if isinstance(st, ast.AnnAssign) and st.value is not None else []
                    if any(isinstance(t, ast.Name) and t.id == attr for t in tgt):
                        env2 = dict(self.module(m))
                        env2.update(self.overrides.get(m, {}))
                        cache[key] = self.expr(st.value, env2)
                        return cache[key]
            raise Unknown("class attribute %s.%s" % (v.name, attr))
        return Folder.v_attr(self, v, attr)

    def v_binop(self, op, l, r):
        names = {ast.Add: ("__add__", "__radd__"), ast.Mult: ("__mul__", "__rmul__"), ast.Mod: ("__mod__", "__rmod__"),
                 ast.Sub: ("__sub__", "__rsub__"), ast.BitOr: ("__or__", "__ror__")}
        if isinstance(l, Obj) or isinstance(r, Obj):
            if type(op) not in names:
                raise Unknown("operator on object")
            fwd, rev = names[type(op)]
            if isinstance(l, Obj):
                res = self.dunder(l, fwd, r)
                if res is not _Missing and res is not NotImplemented:
                    return res
                if l.payload is not None and isinstance(r, (dict, Obj)) and isinstance(op, ast.BitOr):
                    rp = r.payload if isinstance(r, Obj) else r
                    return dict(l.payload, **rp)
            if isinstance(r, Obj):
                res = self.dunder(r, rev, l)
                if res is not _Missing and res is not NotImplemented:
                    return res
            raise FoldedRaise("TypeError", "unsupported operand")
        try:
            return Folder.v_binop(self, op, l, r)
        except (TypeError, ValueError, ZeroDivisionError, KeyError, IndexError, OverflowError) as e:
            # a builtin operator raised on folded values (a %-format choking on its data, a division by zero): the modelled code raises
            raise FoldedRaise(type(e).__name__, str(e))

    def v_compare(self, op, l, r):
        if isinstance(op, (ast.Is, ast.IsNot)):
            same = l is r
            return same if isinstance(op, ast.Is) else not same
        if isinstance(op, (ast.In, ast.NotIn)) and isinstance(r, dict) and isinstance(l, Obj):
            res = _ObjKey(self, l) in r
            return res if isinstance(op, ast.In) else not res
        if isinstance(op, (ast.In, ast.NotIn)) and isinstance(r, (list, tuple)) and (isinstance(l, Obj) or any(isinstance(x, Obj) for x in r)):
            # membership in a sequence of model objects compares with the objects' own __eq__ (identity first, as CPython does)
            res = any(x is l or self.v_compare(ast.Eq(), x, l) for x in r)
            return res if isinstance(op, ast.In) else not res
        if isinstance(op, (ast.In, ast.NotIn)) and isinstance(r, Obj):
            if r.payload is not None:
                res = l in r.payload
            else:
                res = self.dunder(r, "__contains__", l)
                if res is _Missing:
                    raise Unknown("membership in %r" % r)
            return bool(res) if isinstance(op, ast.In) else not res
        if isinstance(op, (ast.Eq, ast.NotEq)) and (isinstance(l, (Record, NativeFunc, NativeCM)) or isinstance(r, (Record, NativeFunc, NativeCM))):
            return (l is r) if isinstance(op, ast.Eq) else (l is not r)
        if isinstance(l, Obj) or isinstance(r, Obj):
            if isinstance(op, (ast.Eq, ast.NotEq)):
                res = _Missing
                if isinstance(l, Obj):
                    res = self.dunder(l, "__eq__", r)
                    if res is _Missing and l.payload is not None:
                        rp = r.payload if isinstance(r, Obj) and r.payload is not None else r
                        res = (l.payload == rp) if isinstance(rp, dict) else NotImplemented
                if (res is _Missing or res is NotImplemented) and isinstance(r, Obj):
                    res = self.dunder(r, "__eq__", l)
                    if res is _Missing and r.payload is not None:
                        res = (r.payload == l) if isinstance(l, dict) else NotImplemented
                if res is _Missing or res is NotImplemented:
                    res = l is r
                res = self.v_truth(res)
                return res if isinstance(op, ast.Eq) else not res
            raise Unknown("ordering comparison on objects")
        if isinstance(l, (list, tuple)) and any(isinstance(x, Obj) for x in l) or \
                isinstance(r, (list, tuple)) and any(isinstance(x, Obj) for x in r):
            if isinstance(op, (ast.In, ast.NotIn)):
                hit = any(self.v_compare(ast.Eq(), l, x) for x in r)
                return hit if isinstance(op, ast.In) else not hit
        return Folder.v_compare(self, op, l, r)

    def v_subscript(self, v, idx):
        if isinstance(v, Obj):
            res = self.dunder(v, "__getitem__", idx)
            if res is not _Missing:
                return res
            if v.payload is not None:
                try:
                    return v.payload[idx]
                except KeyError:
                    raise FoldedRaise("KeyError", repr(idx))
            raise FoldedRaise("TypeError", "not subscriptable")
        if isinstance(v, dict) and isinstance(idx, Obj):
            idx = _ObjKey(self, idx)
        try:
            return Folder.v_subscript(self, v, idx)
        except KeyError:
            raise FoldedRaise("KeyError", repr(idx))
        except IndexError:
            raise FoldedRaise("IndexError", repr(idx))

    def v_format(self, val, conversion, spec):
        if isinstance(val, Obj):
            if conversion == ord("r"):
                r = self.dunder(val, "__repr__")
                val = r if r is not _Missing else "<%s object>" % val.cls
            else:
                r = self.dunder(val, "__str__")
                if r is _Missing:
                    r = self.dunder(val, "__repr__")
                val = r if r is not _Missing else "<%s object>" % val.cls
            return format(val, spec)
        if isinstance(val, (ClassRef, type)):
            return "<class>"
        return Folder.v_format(self, val, conversion, spec)

    def assign(self, t, v, env):
        if isinstance(t, ast.Attribute):
            base = self.expr(t.value, env)
            if isinstance(base, Obj):
                if v is TOP:
                    raise Unknown("store of unknown value into %s.%s" % (base.cls, t.attr))
                pf = self._find_method(base, t.attr)
                if pf is not None and "property" in self._decos(pf):
                    # a property without a setter refuses the assignment (that is what makes `run.atts = ...` fail)
                    has_setter = any(isinstance(st, ast.FunctionDef) and any(ast.unparse(d) == "%s.setter" % t.attr for d in st.decorator_list)
                                     for _, c in self.src.mro(base.mod, base.cls) for st in c.body)
                    if not has_setter:
                        raise FoldedRaise("AttributeError", "property '%s' of '%s' object has no setter" % (t.attr, base.cls))
                    for m2, c2 in self.src.mro(base.mod, base.cls):
                        sf = getattr(self.src, "accessors", {}).get((m2, c2.name + "." + t.attr, "setter"))
                        if sf is not None:
                            self._inline(sf, [v], {}, self_obj=base)
                            return
                    raise Unknown("property setter %s.%s" % (base.cls, t.attr))
                base.fields[t.attr] = v
                return
            if isinstance(base, ClassRef):
                # a class attribute (counter, registry) re-bound through the class: ONE value per class, as for reads
                if v is TOP:
                    raise Unknown("store of unknown value into %s.%s" % (base.name, t.attr))
                self.__dict__.setdefault("_class_attrs", {})[(base.mod, base.name, t.attr)] = v
                return
            if isinstance(base, (LocalFunc, FuncRef)) and t.attr in ("__name__", "__qualname__", "__doc__", "__module__", "__wrapped__", "__annotations__"):
                # metadata of a function object (functools.wraps-style bookkeeping): kept, never consulted by a call
                base.__dict__.setdefault("meta", {})[t.attr] = v
                return
            raise Unknown("attribute store on %r" % (base,))
        if isinstance(t, ast.Subscript):
            base = self.expr(t.value, env)
            if isinstance(base, Obj):
                res = self.dunder(base, "__setitem__", self._index(t, env), v)
                if res is _Missing:
                    raise FoldedRaise("TypeError", "item assignment")
                return
            if isinstance(base, dict):
                k = self._index(t, env)
                if isinstance(k, Obj) and v is not TOP:
                    # a model object as a dict key: hashed / compared with its own __hash__ / __eq__
                    base[_ObjKey(self, k)] = v
                    return
        return Folder.assign(self, t, v, env)

    def v_iop(self, op, cur, rhs):
        names = {ast.Add: "__iadd__", ast.Mult: "__imul__", ast.BitOr: "__ior__", ast.Sub: "__isub__"}
        if isinstance(cur, Obj) and type(op) in names:
            r = self.dunder(cur, names[type(op)], rhs)
            if r is not _Missing and r is not NotImplemented:
                return r
            if cur.payload is not None and isinstance(op, ast.BitOr):
                cur.payload.update(rhs.payload if isinstance(rhs, Obj) and rhs.payload is not None else rhs)
                return cur
        return self.v_binop(op, cur, rhs)

    def del_item(self, base, idx):
        if isinstance(base, Obj):
            r = self.dunder(base, "__delitem__", idx)
            if r is _Missing:
                if base.payload is not None:
                    del base.payload[idx]
                    return
                raise FoldedRaise("TypeError", "item deletion")
            return
        raise Unknown("delete on %r" % (base,))

    def exit_context(self, cm, exc=None):
        if isinstance(cm, NativeCM):
            if cm.exit is not None:
                cm.exit()
            return
        if isinstance(cm, Obj):
            r = self.dunder(cm, "__exit__", exc, exc, None)
            if r is _Missing:
                raise Unknown("not a context manager")
            return
        raise Unknown("context manager %r" % (cm,))

    def enter_context(self, cm):
        if isinstance(cm, NativeCM):
            return cm.enter() if cm.enter is not None else None
        if isinstance(cm, Obj):
            r = self.dunder(cm, "__enter__")
            if r is _Missing:
                raise Unknown("not a context manager")
            return r
        raise Unknown("context manager %r" % (cm,))

    def _index(self, t, env):
        if isinstance(t.slice, ast.Slice):
            return slice(*(self.expr(x, env) if x is not None else None for x in (t.slice.lower, t.slice.upper, t.slice.step)))
        return self.expr(t.slice, env)

    # ---- calls --------------------------------------------------------------------------
    def expr(self, n, env):
        if isinstance(n, ast.Call) and isinstance(n.func, ast.Name) and n.func.id == "cast" and len(n.args) == 2 and \
                n.func.id not in env:
            return self.expr(n.args[1], env)
        if isinstance(n, ast.Call) and isinstance(n.func, ast.Name) and n.func.id == "cast" and len(n.args) == 2 and \
                isinstance(env.get("cast"), Opaque):
            return self.expr(n.args[1], env)
        if isinstance(n, ast.Call) and isinstance(n.func, ast.Name) and n.func.id == "super":
            if n.args or n.keywords or not isinstance(env.get("__class__"), tuple) or not isinstance(env.get("__self__"), Obj):
                raise Unknown("super()")
            return SuperProxy(env["__self__"], *env["__class__"])
        try:
            return Folder.expr(self, n, env)
        except (KeyError,) as e:
            raise FoldedRaise("KeyError", str(e))

    def v_call(self, f, args, kw, node, env):
        if isinstance(f, NativeFunc):
            return f.fn(args, kw)
        if isinstance(f, FuncRef) and (f.mod, f.name) in self.stubs:
            return self.stubs[(f.mod, f.name)](args, kw)
        if isinstance(f, Opaque) and f.what.startswith("import cwcwidth.") and f.what.split(".")[-1] in self._wc:
            if any(isinstance(a, SymStr) for a in args):
                raise Unknown("width of symbolic text")
            return self._wc[f.what.split(".")[-1]](*args, **kw)
        if isinstance(f, ClassRef):
            return self.construct(f, args, kw)
        if isinstance(f, BoundMethod):
            key = (f.func.module.name, f.func.qualname)
            if key in self.stubs:
                return self.stubs[key]([f.obj] + list(args), kw)
            return self._inline(f.func, args, kw, self_obj=f.obj)
        if isinstance(f, ClassFunc):
            return self._inline(f.func, args, kw)
        if isinstance(f, LocalFunc):
            fake = _FakeFunc(f.node)
            return self._inline(fake, args, kw, closure_env=f.env)
        if isinstance(f, FuncRef) and f.node.decorator_list:
            func = self.src.funcs.get((f.mod, f.name))
            decos = self._decos(func) if func is not None else []
            if "lru_cache" in decos or "cache" in decos:
                # functools.lru_cache: one result per argument tuple for the life of the process; keys are compared with == / hash
                # (so 0, 0.0 and False are ONE key)
                _K = lambda o: _ObjKey(self, o)   # noqa: E731
                try:
                    key = (tuple(_K(a) if isinstance(a, Obj) else a for a in args),
                           tuple(sorted((k, _K(x) if isinstance(x, Obj) else x) for k, x in kw.items())))
                    hash(key)
                except TypeError:
                    raise FoldedRaise("TypeError", "unhashable argument of a cached function")
                memo = self.__dict__.setdefault("_lru", {}).setdefault((f.mod, f.name), {})
                if key not in memo:
                    memo[key] = self._inline(func, args, kw)
                return memo[key]
            if decos and not set(decos) <= {"no_type_check", "staticmethod", "overload"}:
                raise Unknown("call of %s decorated with %s" % (f.name, decos))
        if isinstance(f, FuncRef) and (f.simple_return() is None or f.mod in self.overrides):
            func = self.src.funcs.get((f.mod, f.name))
            if func is None:
                raise Unknown("function %s not found" % f.name)
            return self._inline(func, args, kw)
        if isinstance(f, Partial) and getattr(f, "target", None) is not None and \
                isinstance(f.target, (FuncRef, ClassRef, BoundMethod, LocalFunc, ClassFunc, NativeFunc)):
            k2 = dict(f.kw)
            k2.update(kw)
            return self.v_call(f.target, list(f.args) + list(args), k2, node, env)
        if isinstance(f, Partial):
            target = self.module("fmtfuncs").get(f.func) if f.func in self.module("fmtfuncs") else None
            if target is None:
                target = self.module("formatstring").get(f.func)
            if not isinstance(target, (FuncRef, ClassRef)):
                raise Unknown("partial of %s" % f.func)
            k2 = dict(f.kw)
            k2.update(kw)
            return self.v_call(target, list(f.args) + list(args), k2, node, env)
        if f is map and len(args) >= 2:
            its = [self.v_iter(a) for a in args[1:]]
            return [self.v_call(args[0], list(xs), {}, node, env) for xs in zip(*its)]
        if f is filter and len(args) == 2:
            return [x for x in self.v_iter(args[1]) if self.v_truth(x if args[0] is None else self.v_call(args[0], [x], {}, node, env))]
        if f in (sorted, max, min) and "key" in kw and not callable(kw["key"]) or (f in (sorted, max, min) and isinstance(kw.get("key"), (Lam, FuncRef, LocalFunc, BoundMethod))):
            keyf = kw.pop("key")
            items = self.v_iter(args[0]) if len(args) == 1 else list(args)
            keyed = [(self.v_call(keyf, [x], {}, node, env), i, x) for i, x in enumerate(items)]
            if f is sorted:
                keyed.sort(key=lambda t: (t[0], t[1]), reverse=bool(kw.get("reverse")))
                return [x for _, _, x in keyed]
            pick = (max if f is max else min)(keyed, key=lambda t: t[0])
            return pick[2]
        if getattr(f, "__name__", "") == "sort" and isinstance(getattr(f, "__self__", None), list):
            lst = f.__self__
            keyf = kw.get("key")
            if keyf is None:
                if any(isinstance(x, Obj) or (isinstance(x, tuple) and any(isinstance(y, Obj) for y in x)) for x in lst):
                    # ordering falls through to comparing model objects: the modelled code would raise unless they define __lt__
                    firsts = [x[0] if isinstance(x, tuple) and x else x for x in lst]
                    if all(not isinstance(y, Obj) for y in firsts) and len(set(map(repr, firsts))) == len(firsts):
                        lst.sort(key=lambda x: x[0], reverse=bool(kw.get("reverse")))
                        return None
                    raise FoldedRaise("TypeError", "'<' not supported between instances of model objects")
                lst.sort(reverse=bool(kw.get("reverse")))
                return None
            keyed = [(self.v_call(keyf, [x], {}, node, env), i, x) for i, x in enumerate(lst)]
            keyed.sort(key=lambda t: (t[0], t[1]))
            if kw.get("reverse"):
                keyed.reverse()
            lst[:] = [x for _, _, x in keyed]
            return None
        anyobj = any(isinstance(a, Obj) for a in args)
        if f is len and len(args) == 1 and isinstance(args[0], Obj):
            r = self.dunder(args[0], "__len__")
            if r is _Missing:
                if args[0].payload is not None:
                    return len(args[0].payload)
                raise FoldedRaise("TypeError", "len()")
            return r
        if f is str and len(args) == 1 and isinstance(args[0], Obj):
            r = self.dunder(args[0], "__str__")
            if r is _Missing:
                raise Unknown("str() of %r" % args[0])
            return r
        if f is repr and len(args) == 1 and isinstance(args[0], Obj):
            r = self.dunder(args[0], "__repr__")
            if r is _Missing:
                raise Unknown("repr() of %r" % args[0])
            return r
        if f is repr and len(args) == 1 and isinstance(args[0], SymStr):
            return SymStr("" + str(args[0]) + "")      # repr of a symbolic text: a quoted marker
        if f is bool and len(args) == 1:
            return self.v_truth(args[0])
        if getattr(f, "__name__", "") == "hash" and len(args) == 1:
            if isinstance(args[0], Obj):
                r = self.dunder(args[0], "__hash__")
                if r is _Missing:
                    raise FoldedRaise("TypeError", "unhashable")
                return r
            self.hash_log.append(args[0])
            if isinstance(args[0], (dict, list, set)) or (isinstance(args[0], tuple) and any(
                    isinstance(x, (dict, list, set)) or (isinstance(x, Obj) and x.payload is not None and
                                                         self._find_method(x, "__hash__") is None) for x in args[0])):
                raise FoldedRaise("TypeError", "unhashable")
            return ("hash-of", _freeze(args[0]))
        if f is isinstance and len(args) == 2:
            return self._isinstance(args[0], args[1])
        if f is type and len(args) == 1 and isinstance(args[0], Obj):
            return self.module(args[0].mod)[args[0].cls]
        if f is sum and args and isinstance(args[0], (list, tuple)) and (anyobj or any(isinstance(x, Obj) for x in args[0])):
            acc = args[1] if len(args) > 1 else 0
            for x in args[0]:
                acc = self.v_binop(ast.Add(), acc, x)
            return acc
        if f in (all, any) and args and isinstance(args[0], (list, tuple)):
            vals = [self.v_truth(x) for x in args[0]]
            return all(vals) if f is all else any(vals)
        if getattr(f, "__name__", "") in ("hasattr", "getattr") and len(args) >= 2 and isinstance(args[1], str):
            tgt = args[0]
            if isinstance(tgt, Obj):
                try:
                    v = self.obj_attr(tgt, args[1])
                    return True if f.__name__ == "hasattr" else v
                except FoldedRaise:
                    if f.__name__ == "hasattr":
                        return False
                    if len(args) == 3:
                        return args[2]
                    raise
            if isinstance(tgt, str):
                if f.__name__ == "hasattr":
                    return hasattr(str, args[1])
                if not hasattr(str, args[1]):
                    raise FoldedRaise("AttributeError", args[1])
                return _StrMethod(tgt, args[1])
        if isinstance(f, _StrMethod):
            return f.call(args, kw)
        if getattr(f, "__self__", None) is not None and isinstance(f.__self__, dict) and f.__name__ == "get" and anyobj:
            return f(*args, **kw)
        # builtin containers/methods given a dict-subclass model: they see its payload (update(atts), dict(atts), ...)
        if not isinstance(f, (Lam, FuncRef, Opaque, Partial)) and f not in (isinstance, type, hash, id) and \
                any(isinstance(a, Obj) and a.payload is not None for a in list(args) + list(kw.values())):
            args = [a.payload if isinstance(a, Obj) and a.payload is not None else a for a in args]
            kw = {k: (a.payload if isinstance(a, Obj) and a.payload is not None else a) for k, a in kw.items()}
        if getattr(f, "__name__", "") in ("index", "count", "remove") and isinstance(getattr(f, "__self__", None), (list, tuple)) and args and \
                (isinstance(args[0], Obj) or any(isinstance(x, Obj) for x in f.__self__)):
            # list.index / count / remove on model objects: equality is the objects' own __eq__ (identity first, as CPython does)
            seq = f.__self__
            lo = args[1] if len(args) > 1 else 0
            hi = args[2] if len(args) > 2 else len(seq)
            hits = [i for i in range(*slice(lo, hi).indices(len(seq))) if seq[i] is args[0] or self.v_compare(ast.Eq(), seq[i], args[0])]
            if f.__name__ == "count":
                return len([i for i in range(len(seq)) if seq[i] is args[0] or self.v_compare(ast.Eq(), seq[i], args[0])])
            if not hits:
                raise FoldedRaise("ValueError", "x not in list")
            if f.__name__ == "index":
                return hits[0]
            del seq[hits[0]]
            return None
        if f in (list, tuple, sorted, set, frozenset, enumerate, zip, reversed, max, min, "".join.__class__) or \
                getattr(f, "__name__", "") in ("join", "append", "extend", "get", "items", "keys", "values", "update", "format", "chain"):
            # containers of objects are fine for structural builtins
            if f in (list, tuple, sorted, set, frozenset, enumerate, zip, reversed):
                args = [self.v_iter(a) if isinstance(a, Obj) and a.payload is None else a for a in args]
            try:
                r = f(*args, **kw)
            except TypeError as e:
                raise FoldedRaise("TypeError", str(e))
            return r
        try:
            return Folder.v_call(self, f, args, kw, node, env)
        except (Unknown, FoldedRaise, AnalysisError):
            raise
        except Exception as e:      # a pure builtin raised on folded values: that is the modelled code raising
            raise FoldedRaise(type(e).__name__, str(e))

    def _isinstance(self, v, spec):
        specs = spec if isinstance(spec, tuple) else (spec,)
        for s in specs:
            if isinstance(s, ClassRef):
                if isinstance(v, Obj) and any(c.name == s.name for _, c in self.src.mro(v.mod, v.cls)):
                    return True
            elif isinstance(s, type):
                if isinstance(v, Obj):
                    if s is dict and v.payload is not None:
                        return True
                    continue
                if isinstance(v, s):
                    return True
            else:
                raise Unknown("isinstance against %r" % (s,))
        return False


class EnumMember:
    def __init__(self, cls, name):
        self.cls, self.name = cls, name

    def __repr__(self):
        return "%s.%s" % (self.cls, self.name)


class _StrMethod:
    """getattr(<text>, name): a str method bound to a (possibly symbolic) text."""

    def __init__(self, text, name):
        self.text, self.name = text, name

    def call(self, args, kw):
        if isinstance(self.text, SymStr):
            return ("<str-method-result>", self.name, tuple(args), tuple(sorted(kw.items())))
        return getattr(str(self.text), self.name)(*args, **kw)


class _FakeFunc:
    def __init__(self, node):
        self.node = node
        self.qualname = node.name
        self.module = None

    def decorators(self):
        return []


class _MissingType:
    def __repr__(self):
        return "<missing>"


_Missing = _MissingType()


def _freeze(v):
    if isinstance(v, (list, tuple)):
        return tuple(_freeze(x) for x in v)
    if isinstance(v, dict):
        return tuple(sorted((k, _freeze(x)) for k, x in v.items()))
    return v


class ObjInterp(BlockEval):
    def __init__(self, src, fuel=10 ** 10, max_states=512):
        self.ofolder = OFolder(src, fuel)
        BlockEval.__init__(self, self.ofolder, max_states=max_states)
        self.ofolder.interp = self
        self.src = src

    # convenience ---------------------------------------------------------------------
    def call(self, module, funcname, *args, **kw):
        """Call a module-level function or `Class.method` (unbound, pass self explicitly) on folded values."""
        f = self.src.func(module, funcname)
        outs_env = dict(self.folder.module(module))
        outs_env.update(self.folder.overrides.get(module, {}))
        try:
            bind_arguments(self.folder, f.node, list(args), kw, outs_env)
        except FoldedRaise as e:
            return [Outcome("raise", e.name, outs_env, [], [])]
        if getattr(f, "cls", None) is not None and args and isinstance(args[0], Obj):
            outs_env["__class__"] = (f.module.name, f.cls.name)
            outs_env["__self__"] = args[0]
        self.folder.stack.append(f.qualname)
        try:
            outs = self.run_function(f.node, outs_env)
            self.folder._write_globals(f.node, module, outs)
        finally:
            self.folder.stack.pop()
        return outs

    def checkpoint(self):
        """Mark for `dirty`: position in the log of statements the evaluator could not follow, and the fork count."""
        return (len(self.__dict__.setdefault("effect_log", [])), getattr(self, "forks", 0))

    def dirty(self, mark, forks_matter=True):
        """Why an evaluation since `mark` cannot be trusted against stateful stubs (a skipped statement / an unknown branch), or None."""
        log = self.__dict__.setdefault("effect_log", [])
        skipped = [t for k, t in log[mark[0]:] if not t.startswith(("logger.", "logging."))]
        if skipped:
            return "statement outside the evaluated subset: `%s`" % skipped[0]
        if forks_matter and getattr(self, "forks", 0) != mark[1]:
            return "a branch on a value the evaluator does not know"
        return None

    def lazy(self, obj, name, *args, **kw):
        """Call a method that returns a generator WITHOUT running the generator to its end: returns a channel whose next() gives
        ('value', v) for every yielded value in turn and ('stop', call result) at the end.  The body runs in a thread of its own
        and only while next() waits for it."""
        import threading
        from .absint import YieldChannel, _TLS
        ch = YieldChannel()

        def body():
            _TLS.channel = ch
            try:
                ch.result = self.callm(obj, name, *args, **kw)
            except BaseException as e:          # noqa: B902 - reported to the consumer
                ch.result = ("error", e)
            finally:
                with ch.cv:
                    ch.done = True
                    ch.cv.notify_all()
        t = threading.Thread(target=body, daemon=True)
        ch.thread = t
        t.start()
        return ch

    def callm(self, obj, name, *args, **kw):
        """Method call on a model object, resolved through the class's MRO: same result convention as call1."""
        f = self.folder._find_method(obj, name)
        if f is None:
            return ("raise", "AttributeError")
        return self.call1(f.module.name, f.qualname, obj, *args, **kw)

    def call1(self, module, funcname, *args, **kw):
        """Single-outcome call: ('ok', value) | ('raise', Exc) | ('opaque', why)."""
        try:
            outs = self.call(module, funcname, *args, **kw)
        except FoldedRaise as e:
            return ("raise", e.name)
        except Unknown as e:
            return ("opaque", str(e))
        if len(outs) != 1 or outs[0].assumptions or outs[0].opaque:
            return ("opaque", "; ".join(repr(o)[:200] for o in outs[:3]))
        o = outs[0]
        if o.term == "raise":
            return ("raise", o.value)
        if getattr(self, "check_views", False) and not getattr(self, "_in_view", False):
            why = self._views(o.value)
            if why is not None:
                return ("incoherent", why)
        return ("ok", o.value)

    def _views(self, v, depth=0):
        """A FmtStr result (or every FmtStr of a list / tuple result) made of concrete text must agree with itself: .s, len(),
        str() against its runs (models.view_problem).  Switched on per rule with `check_views`."""
        if isinstance(v, (list, tuple)) and depth < 2:
            for x in v:
                why = self._views(x, depth + 1)
                if why is not None:
                    return why
            return None
        if not (isinstance(v, Obj) and v.cls == "FmtStr"):
            return None
        chunks = v.fields.get("chunks")
        if not isinstance(chunks, list) or not all(isinstance(c, Obj) and type(c.fields.get("_s")) is str for c in chunks):
            return None
        from .models import view_problem
        self._in_view = True
        try:
            why = view_problem(self, v)
        finally:
            self._in_view = False
        return None if why is None else "the result disagrees with itself: " + why

    def new(self, module, clsname, *args, **kw):
        cref = self.folder.module(module)[clsname]
        mark = self.checkpoint()
        obj = self.folder.construct(cref, list(args), kw)
        why = self.dirty(mark, forks_matter=False)
        if why:
            raise AnalysisError("constructing %s.%s: %s" % (module, clsname, why))
        return obj


def _as_load(t):
    import copy
    t2 = copy.deepcopy(t)
    for n in ast.walk(t2):
        if hasattr(n, "ctx"):
            n.ctx = ast.Load()
    return t2
