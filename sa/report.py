"""Obligation bookkeeping, verdict policy, evidence and replay files.

Verdict policy (DESIGN.md section 2):
  exit 0  every obligation generated from today's source is discharged (known findings are
          printed as KNOWN-FINDING lines and do not fail the run)
  exit 1  an obligation is contradicted by a recognised construct: VIOLATION line + replay file
  exit 2  ANALYSIS-ERROR: an anchor vanished / shape not recognised / table tainted / instance
          count under its floor.  Never a silent pass, never reported as a violation.
"""
import json
import os
import re
import sys
import time

VERIF = os.path.dirname(os.path.dirname(os.path.abspath(__file__)))


class AnalysisError(Exception):
    """The analysis cannot decide (unknown shape, vanished anchor, tainted table)."""


def _norm_ws(s):
    return re.sub(r"\s+", " ", str(s)).strip()


class Obligation:
    __slots__ = ("rule", "where", "scope", "construct", "ok", "detail", "witness", "known")

    def __init__(self, rule, where, scope, construct, ok, detail="", witness=None):
        self.rule = rule
        self.where = where          # "curtsies/x.py:12" (for the reader; never part of the key)
        self.scope = scope          # "module:Class.func"
        self.construct = _norm_ws(construct)
        self.ok = bool(ok)
        self.detail = detail
        self.witness = witness
        self.known = None

    @property
    def key(self):
        return "%s|%s|%s" % (self.rule, self.scope, self.construct)

    def as_dict(self):
        d = {"rule": self.rule, "where": self.where, "scope": self.scope,
             "construct": self.construct,
             "status": "discharged" if self.ok else ("known-finding" if self.known else "VIOLATED")}
        if self.detail:
            d["detail"] = self.detail
        if self.witness is not None and not self.ok:
            d["witness"] = self.witness
        return d


class Report:
    def __init__(self, pid, tier, repo, seed=0):
        self.pid = pid
        self.tier = tier
        self.repo = repo
        self.seed = seed
        self.t0 = time.time()
        self.obligations = []
        self.model_cases = 0          # cases of finite models enumerated (attribute sets, valuations...)
        self.model_nontrivial = 0
        self.model_samples = []
        self.exhaustive = None
        self.notes = []
        self.extracted = {}           # what the extractors saw (tables, templates) for the reader
        self.analysed = {}
        self.floors = []              # (label, measured, floor)
        self.errors = []              # analysis errors of individual rule groups (exit 2 unless a violation is found)
        self.fixture_results = []     # (rule, fired)
        self.explanation = ""
        self.not_decided = ""
        self.assumptions = []
        self.trusted_base = []

    # ---- recording -------------------------------------------------------------------
    def ob(self, rule, where, scope, construct, ok, detail="", witness=None):
        o = Obligation(rule, where, scope, construct, ok, detail, witness)
        self.obligations.append(o)
        return o.ok

    def case(self, nontrivial, sample=None):
        self.model_cases += 1
        if nontrivial:
            self.model_nontrivial += 1
        if sample is not None and len(self.model_samples) < 6:
            self.model_samples.append(sample)

    def floor(self, label, measured, floor):
        self.floors.append((label, measured, floor))
        if measured < floor:
            # evaluated at finish(): a violation found elsewhere takes precedence over a vacuity alarm
            self.errors.append("instance count for %s fell to %d, below the floor %d confirmed by hand"
                               % (label, measured, floor))

    def fixture(self, rule, fired):
        self.fixture_results.append((rule, bool(fired)))
        if not fired:
            raise AnalysisError("positive fixture for rule %s did not fire: the rule is vacuous" % rule)

    def note(self, s):
        self.notes.append(s)

    def guard(self, fn, *args, **kw):
        """Run one rule group; an AnalysisError inside it is recorded (exit 2 at the end unless another rule
        reports a violation) and does not stop the remaining rule groups."""
        try:
            return fn(*args, **kw)
        except AnalysisError as e:
            self.errors.append("%s: %s" % (getattr(fn, "__name__", "rule"), e))
            return None

    # ---- finishing -------------------------------------------------------------------
    def _known(self):
        path = os.path.join(VERIF, "known_findings.json")
        try:
            with open(path, encoding="utf8") as f:
                data = json.load(f)
        except FileNotFoundError:
            return {}
        return {e["key"]: e for e in data.get("findings", []) if e.get("property") == self.pid}

    def finish(self, checker_cmd):
        known = self._known()
        violated = []
        known_hit = []
        seen = set()
        for o in self.obligations:
            if o.ok:
                continue
            if o.key in known:
                o.known = known[o.key]
                if o.key not in seen:
                    known_hit.append(o)
            else:
                if o.key not in seen:
                    violated.append(o)
            seen.add(o.key)
        for o in known_hit:
            print("KNOWN-FINDING: property=%s %s [%s at %s]" % (self.pid, o.known.get("what", o.detail), o.rule, o.where))
        vdir = os.path.join(VERIF, "violations")
        lines = []
        if violated:
            os.makedirs(vdir, exist_ok=True)
        for i, o in enumerate(violated, 1):
            path = os.path.join(vdir, "%s-%d.json" % (self.pid, i))
            with open(path, "w", encoding="utf8") as f:
                json.dump({"property": self.pid, "key": o.key, "rule": o.rule, "where": o.where,
                           "scope": o.scope, "construct": o.construct, "detail": o.detail,
                           "witness": o.witness, "repo": self.repo, "tier": self.tier}, f, indent=1,
                          default=str)
            print("%s %s rule=%s construct=`%s`: %s" % (o.where, o.scope, o.rule, o.construct[:160], o.detail))
            if o.witness is not None:
                print("    witness: %s" % _norm_ws(json.dumps(o.witness, default=str))[:400])
            lines.append("VIOLATION property=%s replay=%s" % (self.pid, path))
        self.write_evidence(checker_cmd, len(violated), len(known_hit))
        for l in lines:
            print(l)
        n_ob = len(self.obligations)
        print("%s [%s]: %d obligations, %d discharged, %d known findings, %d violations; %d model cases; %.2fs"
              % (self.pid, self.tier, n_ob, sum(o.ok for o in self.obligations), len(known_hit), len(violated),
                 self.model_cases, time.time() - self.t0))
        if violated:
            return 1
        if self.errors:
            for e in self.errors:
                print("ANALYSIS-ERROR property=%s %s" % (self.pid, e))
            return 2
        return 0

    def write_evidence(self, checker_cmd, n_viol, n_known):
        obs = self.obligations
        distinct = len({o.key for o in obs})
        samples = [o.as_dict() for o in obs[:4]]
        # spread: one sample per rule as well
        byrule = {}
        for o in obs:
            byrule.setdefault(o.rule, o)
        for r, o in list(byrule.items())[:12]:
            d = o.as_dict()
            if d not in samples:
                samples.append(d)
        for o in obs:
            if not o.ok:
                d = o.as_dict()
                if d not in samples:
                    samples.append(d)
        samples.extend({"model_case": s} for s in self.model_samples)
        rules = {}
        for o in obs:
            r = rules.setdefault(o.rule, {"obligations": 0, "discharged": 0})
            r["obligations"] += 1
            r["discharged"] += int(o.ok)
        cov = {
            "explanation": self.explanation + ("  NOT decided by this check: " + self.not_decided if self.not_decided else ""),
            "obligations": len(obs),
            "discharged": sum(o.ok for o in obs),
            "evaluations": len(obs) + self.model_cases,
            "distinct_nontrivial": distinct + self.model_nontrivial,
            "rule": "one obligation per (rule, function, construct) generated from what the source does; "
                    "distinct = distinct keys; model cases (attribute sets / valuations / table entries) are counted "
                    "as non-trivial when the expected outcome is not the default one",
            "samples": samples,
            "checker_cmd": checker_cmd,
            "trusted_base": self.trusted_base or ["CPython ast module (3.12 grammar)", "sa/ engines of this repository"],
            "per_rule": rules,
            "model_cases": self.model_cases,
            "model_cases_nontrivial": self.model_nontrivial,
            "analysed": self.analysed,
            "instance_floors": [{"what": a, "measured": b, "floor": c} for a, b, c in self.floors],
            "positive_fixtures": [{"rule": a, "fired": b} for a, b in self.fixture_results],
            "extracted": self.extracted,
            "known_findings_reported": n_known,
            "notes": self.notes,
            "analysis_errors": self.errors,
        }
        if self.exhaustive is not None:
            cov["exhaustive"] = bool(self.exhaustive)
        ev = {
            "property_id": self.pid,
            "tier": self.tier,
            "seed": self.seed,
            "level": "other",
            "coverage": cov,
            "assumptions": self.assumptions,
            "wall_s": round(time.time() - self.t0, 3),
            "violations": n_viol,
        }
        edir = os.path.join(VERIF, "evidence")
        os.makedirs(edir, exist_ok=True)
        tmp = os.path.join(edir, ".%s.json.tmp" % self.pid)
        with open(tmp, "w", encoding="utf8") as f:
            json.dump(ev, f, indent=1, default=str, sort_keys=False)
        os.replace(tmp, os.path.join(edir, "%s.json" % self.pid))
