"""E0 - source model: modules, classes (MRO), functions incl. nested, imports, call-name resolution.

Only the files of the `curtsies` package are parsed (setup.cfg: packages = curtsies; that is all
the build covers).  Nothing is imported.
"""
import ast
import glob
import os

from .report import AnalysisError

FuncNode = (ast.FunctionDef, ast.AsyncFunctionDef)


class Module:
    def __init__(self, name, path, relpath):
        self.name = name
        self.path = path
        self.relpath = relpath
        with open(path, encoding="utf8") as f:
            self.text = f.read()
        self.tree = ast.parse(self.text, filename=path)
        self.parent = {}
        for n in ast.walk(self.tree):
            for c in ast.iter_child_nodes(n):
                self.parent[c] = n
        # import tables
        self.import_alias = {}     # local name -> canonical dotted name ("termios", "os.path", "termios.tcsetattr")
        self.pkg_import = {}       # local name -> (module in package, name there | None for module import)
        for n in ast.walk(self.tree):
            if isinstance(n, ast.Import):
                for a in n.names:
                    self.import_alias[a.asname or a.name.split(".")[0]] = a.name if a.asname else a.name.split(".")[0]
            elif isinstance(n, ast.ImportFrom):
                for a in n.names:
                    local = a.asname or a.name
                    if n.level >= 1:
                        if n.module:
                            self.pkg_import[local] = (n.module, a.name)
                        else:
                            self.pkg_import[local] = (a.name, None)
                    else:
                        self.import_alias[local] = "%s.%s" % (n.module, a.name)

    def where(self, node):
        return "%s:%d" % (self.relpath, getattr(node, "lineno", 0))

    def enclosing(self, node, kinds):
        p = self.parent.get(node)
        while p is not None and not isinstance(p, kinds):
            p = self.parent.get(p)
        return p


class Func:
    def __init__(self, module, node, qualname, cls, outer):
        self.module = module
        self.node = node
        self.qualname = qualname
        self.cls = cls        # ast.ClassDef or None (for nested functions: class of the outermost method)
        self.outer = outer    # enclosing Func or None
        self.name = node.name

    @property
    def scope(self):
        return "%s:%s" % (self.module.name, self.qualname)

    def where(self, node=None):
        return self.module.where(node if node is not None else self.node)

    def params(self):
        a = self.node.args
        return [x.arg for x in a.posonlyargs + a.args] + ([a.vararg.arg] if a.vararg else []) + \
               [x.arg for x in a.kwonlyargs] + ([a.kwarg.arg] if a.kwarg else [])

    def own_nodes(self):
        """All AST nodes lexically inside this function but not inside a nested def/lambda/class."""
        out = []
        stack = list(ast.iter_child_nodes(self.node))
        while stack:
            n = stack.pop()
            out.append(n)
            if isinstance(n, FuncNode + (ast.Lambda, ast.ClassDef)):
                continue
            stack.extend(ast.iter_child_nodes(n))
        return out

    def all_nodes(self):
        return list(ast.walk(self.node))[1:]

    def decorators(self):
        return [unparse(d) for d in self.node.decorator_list]


def unparse(n):
    if n is None:
        return "None"
    try:
        return ast.unparse(n)
    except Exception:  # pragma: no cover
        return "<?>"


class Source:
    def __init__(self, repo):
        self.repo = os.path.abspath(repo)
        self.pkgdir = os.path.join(self.repo, "curtsies")
        if not os.path.isdir(self.pkgdir):
            raise AnalysisError("package directory %s not found" % self.pkgdir)
        self.modules = {}
        for path in sorted(glob.glob(os.path.join(self.pkgdir, "*.py"))):
            name = os.path.splitext(os.path.basename(path))[0]
            try:
                self.modules[name] = Module(name, path, "curtsies/" + os.path.basename(path))
            except SyntaxError as e:
                raise AnalysisError("cannot parse %s: %s" % (path, e))
        self.funcs = {}     # (module, qualname) -> Func
        self.classes = {}   # (module, classname) -> ClassDef
        for m in self.modules.values():
            self._collect(m, m.tree.body, "", None, None)

    def _collect(self, m, body, prefix, cls, outer):
        for st in body:
            self._collect_stmt(m, st, prefix, cls, outer)

    def _collect_stmt(self, m, st, prefix, cls, outer):
        if isinstance(st, FuncNode):
            f = Func(m, st, prefix + st.name, cls, outer)
            accessor = [unparse(d).rsplit(".", 1)[1] for d in st.decorator_list if unparse(d).rsplit(".", 1)[0] == st.name and "." in unparse(d)]
            if accessor and accessor[0] in ("setter", "deleter", "getter") and (m.name, f.qualname) in self.funcs:
                # `@name.setter def name(...)`: the property keeps its getter under the name; the accessor is kept beside it
                self.funcs[(m.name, f.qualname + "." + accessor[0])] = f
                self.accessors = getattr(self, "accessors", {})
                self.accessors[(m.name, f.qualname, accessor[0])] = f
                self._collect_nested(m, st, prefix + st.name + ".", cls, f)
                return
            self.funcs[(m.name, f.qualname)] = f
            for n in ast.walk(st):
                pass
            self._collect_nested(m, st, prefix + st.name + ".", cls, f)
        elif isinstance(st, ast.ClassDef):
            self.classes[(m.name, prefix + st.name)] = st
            self._collect(m, st.body, prefix + st.name + ".", st, outer)
        else:
            # defs nested in if/try/with/for at this level
            for child in ast.iter_child_nodes(st):
                if isinstance(child, (ast.stmt,)):
                    self._collect_stmt(m, child, prefix, cls, outer)
                elif isinstance(child, ast.excepthandler):
                    for s in child.body:
                        self._collect_stmt(m, s, prefix, cls, outer)

    def _collect_nested(self, m, fnode, prefix, cls, outer):
        for st in fnode.body:
            self._collect_stmt(m, st, prefix, cls, outer)

    # ---- lookups ------------------------------------------------------------------
    def module(self, name):
        if name not in self.modules:
            raise AnalysisError("anchor vanished: module curtsies/%s.py" % name)
        return self.modules[name]

    def func(self, module, qualname):
        f = self.funcs.get((module, qualname))
        if f is None:
            raise AnalysisError("anchor vanished: function %s in curtsies/%s.py" % (qualname, module))
        return f

    def has_func(self, module, qualname):
        return (module, qualname) in self.funcs

    def cls(self, module, name):
        c = self.classes.get((module, name))
        if c is None:
            raise AnalysisError("anchor vanished: class %s in curtsies/%s.py" % (name, module))
        return c

    def all_funcs(self):
        return list(self.funcs.values())

    def methods(self, module, clsname):
        pre = clsname + "."
        return {q[len(pre):]: f for (m, q), f in self.funcs.items()
                if m == module and q.startswith(pre) and "." not in q[len(pre):]}

    def find_class(self, name, from_module=None):
        """Resolve a class name as seen from a module (own classes, then package imports)."""
        if from_module is not None:
            if (from_module, name) in self.classes:
                return from_module, self.classes[(from_module, name)]
            imp = self.modules[from_module].pkg_import.get(name)
            if imp and imp[1] and (imp[0], imp[1]) in self.classes:
                return imp[0], self.classes[(imp[0], imp[1])]
        hits = [(m, c) for (m, n), c in self.classes.items() if n == name]
        if len(hits) == 1:
            return hits[0]
        return None

    def mro(self, module, clsname):
        """Linearised list of (module, ClassDef) for package classes (bases outside the package dropped)."""
        out = []
        seen = set()

        def rec(mod, name):
            hit = self.find_class(name, mod)
            if not hit or (hit[0], hit[1].name) in seen:
                return
            seen.add((hit[0], hit[1].name))
            out.append(hit)
            for b in hit[1].bases:
                bn = b.value if isinstance(b, ast.Subscript) else b
                if isinstance(bn, ast.Name):
                    rec(hit[0], bn.id)
        rec(module, clsname)
        return out

    def resolve_method(self, module, clsname, meth, skip_first=False):
        chain = self.mro(module, clsname)
        if skip_first:
            chain = chain[1:]
        for mod, c in chain:
            f = self.funcs.get((mod, c.name + "." + meth))
            if f is not None:
                return f
            # class-body alias:  name = other_method  (the same function object under another name)
            for st in c.body:
                if isinstance(st, ast.Assign) and isinstance(st.value, ast.Name) and \
                        any(isinstance(t, ast.Name) and t.id == meth for t in st.targets):
                    g = self.funcs.get((mod, c.name + "." + st.value.id))
                    if g is not None:
                        return g
        return None

    # ---- names ----------------------------------------------------------------------
    def canon(self, expr, module, local_alias=None):
        """Canonical dotted name of a Name/Attribute chain with import aliases expanded, or None."""
        parts = []
        e = expr
        while isinstance(e, ast.Attribute):
            parts.append(e.attr)
            e = e.value
        if not isinstance(e, ast.Name):
            return None
        base = e.id
        if local_alias and base in local_alias:
            base = local_alias[base]
        elif base in module.import_alias:
            base = module.import_alias[base]
        elif base in module.pkg_import:
            mod, nm = module.pkg_import[base]
            base = "curtsies.%s" % mod + (".%s" % nm if nm else "")
        return ".".join([base] + parts[::-1])

    def stats(self):
        ncalls = 0
        for m in self.modules.values():
            ncalls += sum(isinstance(n, ast.Call) for n in ast.walk(m.tree))
        return {"modules": sorted(self.modules), "n_modules": len(self.modules),
                "n_classes": len(self.classes), "n_functions": len(self.funcs), "n_call_sites": ncalls}


def local_aliases(src, func):
    """Single-assignment locals bound to an imported dotted name (f = termios.tcsetattr) -> canonical name."""
    counts = {}
    for n in func.own_nodes():
        if isinstance(n, ast.Assign) and len(n.targets) == 1 and isinstance(n.targets[0], ast.Name):
            counts.setdefault(n.targets[0].id, []).append(n.value)
    out = {}
    for k, vs in counts.items():
        if len(vs) == 1 and isinstance(vs[0], (ast.Name, ast.Attribute)):
            c = src.canon(vs[0], func.module)
            if c and (c.split(".")[0] in set(func.module.import_alias.values()) or c.startswith("curtsies.")):
                out[k] = c
    return out


def is_self_attr(e, attr=None):
    return isinstance(e, ast.Attribute) and isinstance(e.value, ast.Name) and e.value.id == "self" and \
        (attr is None or e.attr == attr)


def strip_cast(e):
    """cast(T, x) -> x ; typing noise that does not change the value."""
    while isinstance(e, ast.Call) and isinstance(e.func, ast.Name) and e.func.id == "cast" and len(e.args) == 2:
        e = e.args[1]
    return e
