"""E4 - regex syntax-tree and regular-language queries on constant patterns.

Patterns are compile-time constants of the package (folded by E1).  Their syntax trees come from CPython's own
re._parser; language questions (is every well-formed CSI sequence matched by the tokenizer's `seq` group?) are decided
exactly by building NFAs from the trees, determinising over a partition of the code-point space and comparing
languages.  Back-references, look-around and anchors inside the compared sub-patterns are not supported (fail-closed).
"""
import re
import re._constants as C
import re._parser as P

from .report import AnalysisError

FLAG_NAMES = {"DOTALL": re.DOTALL, "S": re.DOTALL, "VERBOSE": re.VERBOSE, "X": re.VERBOSE, "IGNORECASE": re.IGNORECASE,
              "I": re.IGNORECASE, "MULTILINE": re.MULTILINE, "M": re.MULTILINE, "ASCII": re.ASCII, "A": re.ASCII,
              "UNICODE": re.UNICODE, "U": re.UNICODE}

# representatives that separate the categories \d \s \w beyond ASCII
_EXTRA_POINTS = [0x0, 0x9, 0xa, 0xb, 0xd, 0xe, 0x1b, 0x1c, 0x20, 0x21, 0x30, 0x3a, 0x41, 0x5b, 0x5f, 0x60, 0x61, 0x7b, 0x7f, 0x80,
                 0x85, 0x86, 0x9b, 0x9c, 0xa0, 0xa1, 0xaa, 0xab, 0xe9, 0xea, 0x660, 0x66a, 0x2028, 0x202a, 0x3000, 0x3001,
                 0xff10, 0xff1a, 0x10000]


class Regex:
    def __init__(self, pattern, flags=0):
        self.pattern = pattern
        self.flags = flags
        try:
            self.tree = P.parse(pattern, flags)
        except re.error as e:
            raise AnalysisError("pattern does not parse: %s" % e)
        self.eff_flags = self.tree.state.flags
        self.groupindex = dict(self.tree.state.groupdict)

    @property
    def dotall(self):
        return bool(self.eff_flags & re.DOTALL)

    def any_nodes(self, tree=None):
        """Number of `.` nodes anywhere in the pattern."""
        n = 0
        for op, av in _walk(tree if tree is not None else self.tree):
            if op is C.ANY:
                n += 1
        return n

    def group(self, name):
        """Sub-pattern of a named group."""
        if name not in self.groupindex:
            return None
        idx = self.groupindex[name]
        for op, av in _walk(self.tree):
            if op is C.SUBPATTERN and av[0] == idx:
                return av[3]
        return None

    def top_level(self):
        """[(kind, detail)] of the top-level sequence; kind: 'group:<name>' / op name."""
        inv = {v: k for k, v in self.groupindex.items()}
        out = []
        for op, av in self.tree:
            if op is C.SUBPATTERN:
                out.append(("group:%s" % inv.get(av[0], av[0]), av[3]))
            else:
                out.append((str(op), av))
        return out

    def named_group_order(self):
        inv = {v: k for k, v in self.groupindex.items()}
        out = []
        for op, av in _walk(self.tree):
            if op is C.SUBPATTERN and av[0] in inv:
                out.append(inv[av[0]])
        return out


def _walk(tree):
    for op, av in tree:
        yield op, av
        if op is C.SUBPATTERN:
            yield from _walk(av[3])
        elif op in (C.MAX_REPEAT, C.MIN_REPEAT, C.POSSESSIVE_REPEAT):
            yield from _walk(av[2])
        elif op is C.BRANCH:
            for alt in av[1]:
                yield from _walk(alt)
        elif op in (C.ASSERT, C.ASSERT_NOT):
            yield from _walk(av[1])
        elif op is C.ATOMIC_GROUP:
            yield from _walk(av)


def is_lazy_any_star(sub):
    return len(sub) == 1 and sub[0][0] is C.MIN_REPEAT and sub[0][1][0] == 0 and sub[0][1][1] == C.MAXREPEAT and \
        len(sub[0][1][2]) == 1 and sub[0][1][2][0][0] is C.ANY


def is_greedy_any_star(sub):
    return len(sub) == 1 and sub[0][0] is C.MAX_REPEAT and sub[0][1][0] == 0 and sub[0][1][1] == C.MAXREPEAT and \
        len(sub[0][1][2]) == 1 and sub[0][1][2][0][0] is C.ANY


# ---------------------------------------------------------------------------------------
# character predicates
# ---------------------------------------------------------------------------------------

def _cat(cat, ch, ascii_only):
    c = chr(ch)
    if cat in (C.CATEGORY_DIGIT, C.CATEGORY_NOT_DIGIT):
        r = (c in "0123456789") if ascii_only else c.isdigit() and _is_decimal(c)
        return r if cat is C.CATEGORY_DIGIT else not r
    if cat in (C.CATEGORY_SPACE, C.CATEGORY_NOT_SPACE):
        r = (c in " \t\n\r\f\v") if ascii_only else c.isspace()
        return r if cat is C.CATEGORY_SPACE else not r
    if cat in (C.CATEGORY_WORD, C.CATEGORY_NOT_WORD):
        r = (c.isascii() and (c.isalnum() or c == "_")) if ascii_only else (c.isalnum() or c == "_")
        return r if cat is C.CATEGORY_WORD else not r
    raise AnalysisError("regex category %s not modelled" % cat)


def _is_decimal(c):
    import unicodedata
    return unicodedata.category(c) == "Nd"


def _atom_pred(op, av, rx):
    ascii_only = bool(rx.eff_flags & re.ASCII)
    if op is C.LITERAL:
        return lambda ch: ch == av
    if op is C.NOT_LITERAL:
        return lambda ch: ch != av
    if op is C.ANY:
        if rx.dotall:
            return lambda ch: True
        return lambda ch: ch != 10
    if op is C.IN:
        items = list(av)
        neg = bool(items and items[0][0] is C.NEGATE)
        if neg:
            items = items[1:]

        def pred(ch, items=items, neg=neg):
            r = False
            for o, a in items:
                if o is C.LITERAL and ch == a:
                    r = True
                elif o is C.RANGE and a[0] <= ch <= a[1]:
                    r = True
                elif o is C.CATEGORY and _cat(a, ch, ascii_only):
                    r = True
            return r != neg
        return pred
    raise AnalysisError("regex atom %s not modelled" % op)


def _points(tree, acc):
    for op, av in _walk(tree):
        if op in (C.LITERAL, C.NOT_LITERAL):
            acc.update((av, av + 1))
        elif op is C.IN:
            for o, a in av:
                if o is C.LITERAL:
                    acc.update((a, a + 1))
                elif o is C.RANGE:
                    acc.update((a[0], a[1] + 1))


def alphabet(*regex_or_trees):
    """Representative code points: one per interval between the boundaries any atom of the patterns can see."""
    pts = set(_EXTRA_POINTS)
    for r in regex_or_trees:
        _points(r.tree if isinstance(r, Regex) else r, pts)
    pts = sorted(p for p in pts if 0 <= p <= 0x10FFFF)
    return [p for p in pts if not (0xD800 <= p <= 0xDFFF)]


# ---------------------------------------------------------------------------------------
# Thompson NFA over predicates, subset construction over a representative alphabet
# ---------------------------------------------------------------------------------------

class NFA:
    def __init__(self):
        self.n = 0
        self.eps = {}
        self.trans = {}   # state -> [(pred, target)]

    def new(self):
        self.n += 1
        return self.n - 1

    def add_eps(self, a, b):
        self.eps.setdefault(a, []).append(b)

    def add(self, a, pred, b):
        self.trans.setdefault(a, []).append((pred, b))


def build(rx, sub, nfa, start):
    """Append the sub-pattern after state `start`; returns the end state."""
    cur = start
    for op, av in sub:
        if op in (C.LITERAL, C.NOT_LITERAL, C.ANY, C.IN):
            nxt = nfa.new()
            nfa.add(cur, _atom_pred(op, av, rx), nxt)
            cur = nxt
        elif op is C.SUBPATTERN:
            cur = build(rx, av[3], nfa, cur)
        elif op is C.BRANCH:
            end = nfa.new()
            for alt in av[1]:
                s = nfa.new()
                nfa.add_eps(cur, s)
                e = build(rx, alt, nfa, s)
                nfa.add_eps(e, end)
            cur = end
        elif op in (C.MAX_REPEAT, C.MIN_REPEAT, C.POSSESSIVE_REPEAT):
            lo, hi, body = av
            for _ in range(lo):
                cur = build(rx, body, nfa, cur)
            if hi == C.MAXREPEAT:
                loop = nfa.new()
                nfa.add_eps(cur, loop)
                e = build(rx, body, nfa, loop)
                nfa.add_eps(e, loop)
                cur = loop
            else:
                end = nfa.new()
                nfa.add_eps(cur, end)
                for _ in range(hi - lo):
                    cur = build(rx, body, nfa, cur)
                    nfa.add_eps(cur, end)
                cur = end
        elif op is C.AT:
            raise AnalysisError("anchor inside a compared sub-pattern is not modelled")
        else:
            raise AnalysisError("regex construct %s not modelled" % op)
    return cur


class DFA:
    def __init__(self, rx, sub, alpha):
        nfa = NFA()
        s = nfa.new()
        e = build(rx, sub, nfa, s)
        self.alpha = alpha

        def closure(states):
            stack = list(states)
            seen = set(states)
            while stack:
                x = stack.pop()
                for y in nfa.eps.get(x, ()):
                    if y not in seen:
                        seen.add(y)
                        stack.append(y)
            return frozenset(seen)
        start = closure({s})
        self.start = start
        self.delta = {}
        self.accept = set()
        todo = [start]
        seen = {start}
        while todo:
            st = todo.pop()
            if e in st:
                self.accept.add(st)
            for ch in alpha:
                tgt = set()
                for x in st:
                    for pred, y in nfa.trans.get(x, ()):
                        if pred(ch):
                            tgt.add(y)
                t = closure(tgt)
                self.delta[(st, ch)] = t
                if t not in seen:
                    seen.add(t)
                    todo.append(t)
                    if len(seen) > 20000:
                        raise AnalysisError("DFA too large")
        self.states = seen


def subset_witness(a, b):
    """A shortest string (over the shared alphabet) in L(a) minus L(b), or None when L(a) is a subset of L(b)."""
    if a.alpha != b.alpha:
        raise AnalysisError("DFAs over different alphabets")
    start = (a.start, b.start)
    seen = {start}
    queue = [(start, "")]
    i = 0
    while i < len(queue):
        (sa, sb), w = queue[i]
        i += 1
        if sa in a.accept and sb not in b.accept:
            return w
        for ch in a.alpha:
            ta = a.delta[(sa, ch)]
            if not ta:
                continue
            tb = b.delta[(sb, ch)]
            nx = (ta, tb)
            if nx not in seen:
                seen.add(nx)
                queue.append((nx, w + chr(ch)))
    return None


def language_subset(rx_a, sub_a, rx_b, sub_b):
    alpha = alphabet(rx_a, rx_b)
    return subset_witness(DFA(rx_a, sub_a, alpha), DFA(rx_b, sub_b, alpha))


def flags_from_ast(src, module, nodes):
    """Flag value of call arguments written as re.X | re.Y (names only)."""
    import ast
    val = 0
    for n in nodes:
        for x in ast.walk(n):
            if isinstance(x, ast.Attribute) and x.attr in FLAG_NAMES and (src.canon(x, module) or "").startswith("re."):
                val |= FLAG_NAMES[x.attr]
            elif isinstance(x, ast.Name) and module.import_alias.get(x.id, "").startswith("re.") and \
                    module.import_alias[x.id].split(".")[1] in FLAG_NAMES:
                val |= FLAG_NAMES[module.import_alias[x.id].split(".")[1]]
    return val
