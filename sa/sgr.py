"""E5 - reference SGR machine (ECMA-48 subset) and attribute-space enumerator.

Independent of curtsies: shares no code or table with it.  State = (fg, bg, styles) where fg in {None,30..37},
bg in {None,40..47}, styles a frozenset of {1,2,3,4,5,7}.
"""
import itertools
import re

DEFAULT = (None, None, frozenset())
STYLE_CODES = (1, 2, 3, 4, 5, 7)
STYLE_NAME = {1: "bold", 2: "dark", 3: "italic", 4: "underline", 5: "blink", 7: "invert"}
COLOR_NAME = dict(zip(range(8), ("black", "red", "green", "yellow", "blue", "magenta", "cyan", "gray")))


class Unsupported(Exception):
    pass


def apply(state, code):
    fg, bg, st = state
    if code == 0:
        return DEFAULT
    if code in STYLE_CODES:
        return (fg, bg, st | {code})
    if 30 <= code <= 37:
        return (code, bg, st)
    if 40 <= code <= 47:
        return (fg, code, st)
    if code == 39:
        return (None, bg, st)
    if code == 49:
        return (fg, None, st)
    raise Unsupported(code)


def apply_params(state, params):
    """One SGR sequence with its parameter list (empty list = [0])."""
    for c in (params or [0]):
        state = apply(state, c)
    return state


SUPPORTED = [0, 1, 2, 3, 4, 5, 7] + list(range(30, 38)) + [39] + list(range(40, 48)) + [49]

TEXT = "\ue000T\ue001"   # private-use marker standing for the text of a run
_TOKEN = re.compile("(\x1b\\[([0-9;]*)m)|(" + TEXT + ")", re.S)


def tokenize(stream):
    """Split a writer stream into ('SGR', [params]) / ('TEXT',) / ('JUNK', str) tokens."""
    out = []
    pos = 0
    for m in _TOKEN.finditer(stream):
        if m.start() > pos:
            out.append(("JUNK", stream[pos:m.start()]))
        if m.group(1) is not None:
            ps = m.group(2)
            out.append(("SGR", [int(x) if x else 0 for x in ps.split(";")] if ps else []))
        else:
            out.append(("TEXT",))
        pos = m.end()
    if pos < len(stream):
        out.append(("JUNK", stream[pos:]))
    return out


def attribute_sets(tier):
    """Every attribute set of the C01 quantifier as (fg, bg, {style_name: True|False}).
    thorough: 9*9*3^6 = 59049 (absent/True/False per style); quick: 9*9*2^6 = 5184 plus sets with explicit False."""
    names = [STYLE_NAME[c] for c in STYLE_CODES]
    fgs = [None] + list(range(30, 38))
    bgs = [None] + list(range(40, 48))
    if tier == "thorough":
        for fg in fgs:
            for bg in bgs:
                for sv in itertools.product((None, True, False), repeat=6):
                    yield fg, bg, {n: v for n, v in zip(names, sv) if v is not None}
    else:
        for fg in fgs:
            for bg in bgs:
                for sv in itertools.product((None, True), repeat=6):
                    yield fg, bg, {n: v for n, v in zip(names, sv) if v is not None}
        # explicit False values: each single style False alone, with every other style True, and with colours
        for i, n in enumerate(names):
            for others in (None, True):
                for fg in (None, 31):
                    for bg in (None, 44):
                        d = {m: others for m in names if m != n and others is not None}
                        d[n] = False
                        yield fg, bg, d
        yield 31, 44, {n: False for n in names}


def expected_state(fg, bg, styles):
    code = {v: k for k, v in STYLE_NAME.items()}
    return (fg, bg, frozenset(code[n] for n, v in styles.items() if v))
