"""E1 - constant folding of module-level initialisers (the package's tables).

A partial evaluator over a closed, pure subset of Python applied to module-level statements and to
constant sub-expressions inside functions.  Anything outside the subset evaluates to TOP and taints
what depends on it; asking for a tainted table is an AnalysisError, never a pass.  This is the
constant propagation a compiler does: no function of curtsies is ever evaluated on a run-time input
(the only callables applied are whitelisted pure builtins and module-level lambdas whose bodies are
in the subset, e.g. `chr_byte`).
"""
import ast
import itertools
_ITERTOOLS_PURE = ("chain", "accumulate", "islice", "zip_longest", "product", "takewhile", "dropwhile", "starmap", "pairwise", "groupby")

from .report import AnalysisError


class _Top:
    def __repr__(self):
        return "TOP"


TOP = _Top()


class Unknown(Exception):
    pass


class Opaque:
    """A value we know exists but do not evaluate (function, class, foreign import)."""

    def __init__(self, what):
        self.what = what

    def __repr__(self):
        return "<opaque %s>" % self.what


class FuncRef(Opaque):
    """A module-level function of the package.  Only single-`return <expr>` functions whose expression lies in the
    folder's pure subset are ever inlined (e.g. termformatconstants.seq)."""

    def __init__(self, name, node, mod):
        Opaque.__init__(self, "FunctionDef %s" % name)
        self.name, self.node, self.mod = name, node, mod

    def simple_return(self):
        body = [s for s in self.node.body if not (isinstance(s, ast.Expr) and isinstance(s.value, ast.Constant))]
        if len(body) == 1 and isinstance(body[0], ast.Return) and body[0].value is not None and \
                not self.node.decorator_list and not self.node.args.vararg and not self.node.args.kwarg:
            return body[0].value
        return None


class ClassRef(Opaque):
    """A class of the package."""

    def __init__(self, name, node, mod):
        Opaque.__init__(self, "ClassDef %s" % name)
        self.name, self.node, self.mod = name, node, mod


class Record:
    """An object with known attribute values (models `self` when a method is folded on one domain element)."""

    def __init__(self, **fields):
        self.fields = fields

    def __repr__(self):
        return "<record %s>" % sorted(self.fields)


class SymStr(str):
    """A symbolic piece of text: it may be concatenated / formatted into other strings (where it shows up as itself,
    a private-use marker), but any inspection of it (methods, comparison, truth value, len) is Unknown - code whose
    decisions depend on the text is thereby detected instead of being evaluated on one sample text."""


class PlainText(SymStr):
    """Symbolic ORDINARY text: free of ESC / 8-bit CSI introducers (the quantifier of C01/C14 texts).  The only
    question it answers is that it does not contain a string that includes an introducer."""


class EscText(SymStr):
    """Symbolic text that DOES contain the 7-bit CSI introducer ESC[ (input of the parsing path of from_str)."""


class ModRef:
    """Reference to another module of the package (from . import events)."""

    def __init__(self, name):
        self.name = name

    def __repr__(self):
        return "<module curtsies.%s>" % self.name


_TAKES_CALLABLE = (sorted, min, max, map, filter, itertools.groupby, itertools.takewhile, itertools.dropwhile, itertools.starmap,
                   itertools.accumulate)


class Lam:
    def __init__(self, node, env):
        self.node, self.env = node, env


class Partial:
    def __init__(self, func, args, kw):
        self.func, self.args, self.kw = func, args, kw

    def __repr__(self):
        return "partial(%s, %r, %r)" % (self.func, self.args, self.kw)


_PARTIAL = Opaque("functools.partial")


class _PureModule:
    """A stdlib module of which only whitelisted pure functions may be used."""

    def __init__(self, name, funcs):
        self.name, self.funcs = name, funcs

    def __repr__(self):
        return "<pure module %s>" % self.name


import codecs as _codecs_mod
import bisect as _bisect_mod
_FUNCTOOLS = _PureModule("functools", {"partial": _PARTIAL})
_BISECT = _PureModule("bisect", {k: getattr(_bisect_mod, k) for k in ("bisect", "bisect_left", "bisect_right", "insort", "insort_left", "insort_right")})
_CODECS = _PureModule("codecs", {"getdecoder": _codecs_mod.getdecoder, "getencoder": _codecs_mod.getencoder,
                                 "getincrementaldecoder": _codecs_mod.getincrementaldecoder, "getincrementalencoder": _codecs_mod.getincrementalencoder,
                                 "lookup": _codecs_mod.lookup})
import re as _re_mod
import sys as _sys_mod
_SYS = _PureModule("sys", {"maxsize": _sys_mod.maxsize})
import reprlib as _reprlib_mod
import unicodedata as _ud_mod
_REPRLIB = _PureModule("reprlib", {"repr": _reprlib_mod.repr})
_UNICODEDATA = _PureModule("unicodedata", {k: getattr(_ud_mod, k) for k in ("normalize", "category", "combining", "east_asian_width", "name")})
import string as _string_mod
_STRING = _PureModule("string", {k: getattr(_string_mod, k) for k in ("ascii_letters", "ascii_lowercase", "ascii_uppercase", "digits", "hexdigits",
                                                                       "octdigits", "punctuation", "printable", "whitespace")})
import errno as _errno_mod
import copy as _copy_mod


def _shallow_copy(v):
    """copy.copy: model objects are copied attribute by attribute (memoised values included), like object.__reduce_ex__ does"""
    if hasattr(v, "shallow_copy"):
        return v.shallow_copy()
    if isinstance(v, (Opaque, Lam, Partial, ModRef, Record)) or v is TOP:
        raise Unknown("copy.copy of %r" % (v,))
    return _copy_mod.copy(v)


_COPY = _PureModule("copy", {"copy": _shallow_copy})
_ERRNO = _PureModule("errno", {k: getattr(_errno_mod, k) for k in dir(_errno_mod) if k.startswith("E")})


class ExcName(str):
    """An exception class name carrying attribute values of the raised instance (errno of a scripted OSError ...)."""

    def __new__(cls, name, **attrs):
        o = str.__new__(cls, name)
        o.attrs = attrs
        return o

    def __deepcopy__(self, memo):
        return self

_RE = _PureModule("re", {k: getattr(_re_mod, k) for k in ("search", "match", "fullmatch", "sub", "subn", "finditer", "findall",
                                                           "split", "escape", "compile", "DOTALL", "VERBOSE", "IGNORECASE",
                                                           "MULTILINE", "ASCII", "S", "X", "I", "M", "A")})


SAFE_BUILTINS = {
    "dict": dict, "zip": zip, "range": range, "chr": chr, "ord": ord, "len": len, "max": max, "min": min,
    "set": set, "list": list, "tuple": tuple, "sorted": sorted, "str": str, "int": int, "bytes": bytes,
    "frozenset": frozenset, "any": any, "all": all, "sum": sum, "enumerate": enumerate, "bool": bool,
    "repr": repr, "abs": abs, "reversed": reversed, "True": True, "False": False, "None": None,
    "isinstance": isinstance, "type": type, "hash": hash, "hasattr": hasattr, "getattr": getattr,
    "slice": slice, "float": float, "divmod": divmod, "round": round, "iter": iter, "next": next, "map": map, "filter": filter,
    "NotImplemented": NotImplemented, "Exception": Exception, "ValueError": ValueError, "TypeError": TypeError,
    "KeyError": KeyError, "IndexError": IndexError, "AttributeError": AttributeError,
    "NotImplementedError": NotImplementedError, "UnicodeDecodeError": UnicodeDecodeError,
    "format": format, "OSError": OSError, "StopIteration": StopIteration, "RuntimeError": RuntimeError,
    "AssertionError": AssertionError, "LookupError": LookupError, "ArithmeticError": ArithmeticError,
    "object": object,
}
def _public(t):
    return {n for n in dir(t) if not n.startswith("_")}


# every public method of the immutable builtin types is pure; containers are copied on write by the evaluator
SAFE_METHODS = {
    str: _public(str), bytes: _public(bytes), dict: _public(dict), set: _public(set), frozenset: _public(frozenset),
    list: _public(list), tuple: _public(tuple), int: {"bit_length", "to_bytes"}, range: {"index", "count"},
    slice: {"start", "stop", "step", "indices"}, _re_mod.Pattern: _public(_re_mod.Pattern), _re_mod.Match: _public(_re_mod.Match),
}
MUTATORS = {"update", "setdefault", "pop", "popitem", "clear", "add", "discard", "remove", "append", "extend", "insert",
            "sort", "reverse", "__setitem__", "__delitem__"}
SAFE_TYPE_ATTRS = {dict: {"fromkeys"}, str: {"join", "lower", "upper", "strip", "maketrans"}, bytes: {"fromhex", "join"},
                   int: {"from_bytes"}}
_BINOPS = {
    ast.Add: lambda l, r: l + r, ast.Sub: lambda l, r: l - r, ast.Mult: lambda l, r: l * r,
    ast.Mod: lambda l, r: l % r, ast.FloorDiv: lambda l, r: l // r, ast.BitOr: lambda l, r: l | r,
    ast.BitAnd: lambda l, r: l & r, ast.BitXor: lambda l, r: l ^ r, ast.LShift: lambda l, r: l << r,
    ast.RShift: lambda l, r: l >> r, ast.Div: lambda l, r: l / r, ast.Pow: lambda l, r: l ** r,
}
_CMPOPS = {
    ast.Eq: lambda l, r: l == r, ast.NotEq: lambda l, r: l != r, ast.Lt: lambda l, r: l < r,
    ast.LtE: lambda l, r: l <= r, ast.Gt: lambda l, r: l > r, ast.GtE: lambda l, r: l >= r,
    ast.In: lambda l, r: l in r, ast.NotIn: lambda l, r: l not in r, ast.Is: lambda l, r: l is r,
    ast.IsNot: lambda l, r: l is not r,
}


class Folder:
    def __init__(self, src, fuel=5_000_000):
        self.src = src
        self.mods = {}
        self.unknown = {}   # module -> [(lineno, reason)]
        self.fuel = fuel
        self._loading = set()

    # ---- public ---------------------------------------------------------------------
    def module(self, name):
        if name in self.mods:
            return self.mods[name]
        if name not in self.src.modules:
            raise Unknown("no module %s" % name)
        env = {"__name__": "curtsies." + name}
        self.mods[name] = env
        self.unknown[name] = []
        self._loading.add(name)
        for st in self.src.modules[name].tree.body:
            self.stmt(st, env, name)
        self._loading.discard(name)
        return env

    def const(self, module, name, types=None):
        """Folded value of a module-level name; AnalysisError when missing or tainted."""
        env = self.module(module)
        if name not in env:
            raise AnalysisError("anchor vanished: module-level name %s in curtsies/%s.py" % (name, module))
        v = env[name]
        if v is TOP or isinstance(v, Opaque):
            why = [r for r in self.unknown.get(module, [])]
            raise AnalysisError("table %s.%s is not a compile-time constant for the folder (%r); reasons: %s"
                                % (module, name, v, why[:3]))
        if types is not None and not isinstance(v, types):
            raise AnalysisError("table %s.%s folded to %s, expected %s" % (module, name, type(v).__name__, types))
        return v

    def try_expr(self, node, env):
        try:
            return self.expr(node, env)
        except Unknown:
            return TOP
        except Exception:   # evaluation error inside pure builtins (KeyError, TypeError ...)
            return TOP

    # ---- statements -----------------------------------------------------------------
    def tick(self):
        self.fuel -= 1
        if self.fuel < 0:
            raise AnalysisError("constant folder ran out of fuel")

    def stmt(self, st, env, mod):
        self.tick()
        try:
            if isinstance(st, ast.FunctionDef):
                env[st.name] = FuncRef(st.name, st, mod)
            elif isinstance(st, ast.ClassDef):
                env[st.name] = ClassRef(st.name, st, mod)
            elif isinstance(st, ast.AsyncFunctionDef):
                env[st.name] = Opaque("%s %s" % (type(st).__name__, st.name))
            elif isinstance(st, ast.ImportFrom):
                for a in st.names:
                    local = a.asname or a.name
                    if st.level >= 1 and st.module:
                        try:
                            src_env = self.module(st.module)
                            env[local] = src_env.get(a.name, TOP)
                        except Unknown:
                            env[local] = TOP
                    elif st.level >= 1:
                        env[local] = ModRef(a.name) if a.name in self.src.modules else Opaque("module curtsies.%s" % a.name)
                    elif st.module == "functools" and a.name == "partial":
                        env[local] = _PARTIAL
                    elif st.module == "itertools" and a.name in _ITERTOOLS_PURE:
                        env[local] = getattr(itertools, a.name)
                    elif st.module == "copy" and a.name == "copy":
                        env[local] = _shallow_copy
                    else:
                        env[local] = Opaque("import %s.%s" % (st.module, a.name))
            elif isinstance(st, ast.Import):
                for a in st.names:
                    nm = a.asname or a.name.split(".")[0]
                    env[nm] = itertools if a.name == "itertools" else _CODECS if a.name == "codecs" else \
                        _SYS if a.name == "sys" else _COPY if a.name == "copy" else _BISECT if a.name == "bisect" else _FUNCTOOLS if a.name == "functools" else _RE if a.name == "re" else _ERRNO if a.name == "errno" else _REPRLIB if a.name == "reprlib" else _STRING if a.name == "string" else _UNICODEDATA if a.name == "unicodedata" else \
                        Opaque("module %s" % a.name)
            elif isinstance(st, (ast.Assign, ast.AnnAssign)):
                if getattr(st, "value", None) is None:
                    return
                v = self.try_expr(st.value, env)
                if v is TOP:
                    self.unknown[mod].append((st.lineno, "value of `%s`" % ast.unparse(st)[:60]))
                if not isinstance(v, (str, bytes, dict, list, tuple, set, frozenset, range)) and hasattr(v, "__next__"):
                    v = list(v)
                targets = st.targets if isinstance(st, ast.Assign) else [st.target]
                for t in targets:
                    self.assign(t, v, env)
            elif isinstance(st, ast.AugAssign):
                cur = self.expr(ast.Name(id=st.target.id, ctx=ast.Load()), env) if isinstance(st.target, ast.Name) \
                    else self.expr(_load(st.target), env)
                v = _BINOPS[type(st.op)](cur, self.expr(st.value, env))
                self.assign(st.target, v, env)
            elif isinstance(st, ast.For):
                it = self.expr(st.iter, env)
                for x in list(it):
                    self.assign(st.target, x, env)
                    for s in st.body:
                        self.stmt(s, env, mod)
            elif isinstance(st, ast.If):
                c = self.expr(st.test, env)
                for s in (st.body if c else st.orelse):
                    self.stmt(s, env, mod)
            elif isinstance(st, ast.Expr):
                if isinstance(st.value, ast.Constant):
                    return
                self.expr(st.value, env)
            elif isinstance(st, ast.Try):
                for s in st.body:
                    self.stmt(s, env, mod)
            elif isinstance(st, (ast.Assert, ast.Pass)):
                pass
            else:
                raise Unknown(type(st).__name__)
        except Unknown as e:
            self._taint(st, env, mod, str(e))
        except AnalysisError:
            raise
        except Exception as e:  # a pure builtin raised: the statement's effect is unknown
            self._taint(st, env, mod, "%s: %s" % (type(e).__name__, e))

    def _taint(self, st, env, mod, why):
        for n in ast.walk(st):
            if isinstance(n, ast.Name) and isinstance(n.ctx, ast.Store):
                env[n.id] = TOP
            # a mutated container is tainted too: X[k] = v, X.update(...), X.add(...)
            if isinstance(n, ast.Subscript) and isinstance(n.ctx, ast.Store) and isinstance(n.value, ast.Name):
                env[n.value.id] = TOP
            if isinstance(n, ast.Call) and isinstance(n.func, ast.Attribute) and isinstance(n.func.value, ast.Name) \
                    and n.func.attr in ("update", "add", "append", "extend", "setdefault"):
                env[n.func.value.id] = TOP
        self.unknown.setdefault(mod, []).append((getattr(st, "lineno", 0), why))

    def assign(self, t, v, env):
        if isinstance(t, ast.Name):
            env[t.id] = v
        elif isinstance(t, (ast.Tuple, ast.List)):
            if v is TOP:
                for a in t.elts:
                    self.assign(a, TOP, env)
                return
            vs = list(self.v_iter(v)) if not isinstance(v, (list, tuple)) else list(v)
            stars = [i for i, a in enumerate(t.elts) if isinstance(a, ast.Starred)]
            if len(stars) == 1:
                i = stars[0]
                after = len(t.elts) - i - 1
                if len(vs) < len(t.elts) - 1:
                    from .absint import FoldedRaise
                    raise FoldedRaise("ValueError", "not enough values to unpack")
                for a, b in zip(t.elts[:i], vs[:i]):
                    self.assign(a, b, env)
                self.assign(t.elts[i].value, vs[i:len(vs) - after], env)
                for a, b in zip(t.elts[i + 1:], vs[len(vs) - after:] if after else []):
                    self.assign(a, b, env)
                return
            if len(vs) != len(t.elts):
                from .absint import FoldedRaise
                raise FoldedRaise("ValueError", "unpack arity")
            for a, b in zip(t.elts, vs):
                self.assign(a, b, env)
        elif isinstance(t, ast.Subscript):
            if v is TOP:
                raise Unknown("store of unknown value")
            base = self.expr(t.value, env)
            if not isinstance(base, (dict, list)):
                raise Unknown("subscript store on %s" % type(base).__name__)
            base[self._index(t, env)] = v
        else:
            raise Unknown("assign target %s" % type(t).__name__)

    def _index(self, t, env):
        if isinstance(t.slice, ast.Slice):
            return slice(*(self.expr(x, env) if x is not None else None for x in (t.slice.lower, t.slice.upper, t.slice.step)))
        return self.expr(t.slice, env)

    # ---- expressions ----------------------------------------------------------------
    # value-level operations (overridden by sa.objinterp.OFolder to add modelled objects)
    def v_truth(self, v):
        if isinstance(v, (PlainText, EscText)):
            return True          # these symbolic texts stand for NON-EMPTY text
        if isinstance(v, SymStr) or v is TOP:
            raise Unknown("truth value of symbolic text")
        self._plain(v)
        return bool(v)

    def v_iter(self, v):
        self._plain(v)
        if isinstance(v, SymStr):
            raise Unknown("iteration over symbolic text")
        return list(v)

    def v_attr(self, v, attr):
        if v is itertools and attr in _ITERTOOLS_PURE:
            return getattr(itertools, attr)
        if isinstance(v, _PureModule):
            if attr in v.funcs:
                return v.funcs[attr]
            raise Unknown("attribute %s of %r" % (attr, v))
        if isinstance(v, (_codecs_mod.IncrementalDecoder, _codecs_mod.IncrementalEncoder)) and attr in ("decode", "encode", "reset", "getstate", "setstate"):
            return getattr(v, attr)      # a stateful codec object: its state lives on, as in the running program
        if isinstance(v, ExcName):
            if attr in v.attrs:
                return v.attrs[attr]
            raise Unknown("attribute %s of a raised %s" % (attr, str(v)))
        if isinstance(v, Record):
            if attr not in v.fields:
                raise Unknown("attribute %s of %r" % (attr, v))
            return v.fields[attr]
        if isinstance(v, SymStr):
            raise Unknown("inspection of symbolic text (.%s)" % attr)
        if isinstance(v, ModRef):
            menv = self.module(v.name)
            if attr not in menv or menv[attr] is TOP:
                raise Unknown("attribute %s of %r" % (attr, v))
            return menv[attr]
        if isinstance(v, ClassRef) and attr in ("__name__", "__qualname__"):
            return v.name
        if isinstance(v, Opaque):
            raise Unknown("attribute %s of %r" % (attr, v))
        for ty, names in SAFE_METHODS.items():
            if isinstance(v, ty) and attr in names:
                return getattr(v, attr)
        if isinstance(v, type) and attr in SAFE_TYPE_ATTRS.get(v, ()):
            return getattr(v, attr)
        if attr == "__class__" and isinstance(v, (str, bytes, int, float, bool, list, tuple, dict, set, frozenset, type(None), slice)):
            return type(v)
        if attr in ("__name__", "__qualname__") and isinstance(v, type):
            return v.__name__
        raise Unknown("attr %s" % attr)

    def v_binop(self, op, l, r):
        self._plain(l), self._plain(r)
        if type(op) not in _BINOPS:
            raise Unknown("operator")
        return _BINOPS[type(op)](l, r)

    def v_unary(self, op, v):
        self._plain(v)
        if isinstance(op, ast.Not):
            return not self.v_truth(v)
        if isinstance(v, SymStr):
            raise Unknown("arithmetic on symbolic text")
        if isinstance(op, ast.USub):
            return -v
        if isinstance(op, ast.UAdd):
            return +v
        if isinstance(op, ast.Invert):
            return ~v
        raise Unknown("unary")

    def v_compare(self, op, l, r):
        self._plain(l), self._plain(r)
        if isinstance(r, EscText) and isinstance(op, (ast.In, ast.NotIn)) and isinstance(l, str) and \
                not isinstance(l, SymStr) and l in ("\x1b[", "\x1b"):
            return isinstance(op, ast.In)
        if isinstance(r, PlainText) and isinstance(op, (ast.In, ast.NotIn)) and isinstance(l, str) and \
                not isinstance(l, SymStr) and ("\x1b" in l or "\x9b" in l):
            return isinstance(op, ast.NotIn)
        if (isinstance(l, SymStr) or isinstance(r, SymStr)) and not isinstance(op, (ast.Is, ast.IsNot)):
            raise Unknown("comparison with symbolic text")
        return _CMPOPS[type(op)](l, r)

    def v_subscript(self, v, idx):
        self._plain(v)
        if isinstance(v, SymStr):
            raise Unknown("slicing of symbolic text")
        return v[idx]

    def v_format(self, val, conversion, spec):
        self._plain(val)
        if conversion == ord("r"):
            if isinstance(val, SymStr):
                raise Unknown("repr of symbolic text")
            val = repr(val)
        elif conversion == ord("s"):
            val = str(val)
        elif conversion == ord("a"):
            val = ascii(val)
        return format(val, spec)

    def v_call(self, f, args, kw, node, env):
        if isinstance(f, Lam):
            e2 = dict(f.env)
            ps = f.node.args
            names = [p.arg for p in ps.posonlyargs + ps.args]
            if len(args) > len(names) or ps.vararg or ps.kwarg:
                raise Unknown("lambda call arity")
            for p, d in zip(names[::-1], ps.defaults[::-1]):
                e2[p] = self.expr(d, f.env)
            for p, a in zip(names, args):
                e2[p] = a
            e2.update(kw)
            return self.expr(f.node.body, e2)
        if isinstance(f, FuncRef):
            body = f.simple_return()
            if body is None:
                raise Unknown("call of %r (not a single-return function)" % f)
            ps = f.node.args
            names = [p.arg for p in ps.posonlyargs + ps.args]
            if len(args) > len(names):
                raise Unknown("call arity")
            e2 = dict(self.module(f.mod))
            for p, d in zip(names[::-1], ps.defaults[::-1]):
                e2[p] = self.expr(d, e2)
            for p, a in zip(names, args):
                e2[p] = a
            for k2, v2 in kw.items():
                if k2 not in names:
                    raise Unknown("unexpected keyword")
                e2[k2] = v2
            if any(nm not in e2 for nm in names):
                raise Unknown("missing argument")
            return self.expr(body, e2)
        if f in _TAKES_CALLABLE and any(isinstance(a, Lam) for a in list(args) + list(kw.values())):
            # a lambda of the analysed code handed to a pure library function: the library calls back into the evaluator
            def wrap(a):
                if isinstance(a, Lam):
                    return lambda *xs: self.v_call(a, list(xs), {}, node, env)
                return a
            args = [wrap(a) for a in args]
            kw = {k2: wrap(v2) for k2, v2 in kw.items()}
            for a in list(args) + list(kw.values()):
                if isinstance(a, (Opaque, Partial, ModRef, Record)) or a is TOP:
                    raise Unknown("opaque argument")
            r = f(*args, **kw)
            if f is itertools.groupby:
                r = [(k2, list(g)) for k2, g in r]
            elif f in (map, filter, itertools.takewhile, itertools.dropwhile, itertools.starmap, itertools.accumulate):
                r = list(r)
            return r
        for a in list(args) + list(kw.values()):
            if isinstance(a, (Opaque, Lam, Partial, ModRef, Record)) or a is TOP:
                raise Unknown("opaque argument")
        if any(isinstance(a, SymStr) for a in list(args) + list(kw.values())):
            ok_fn = f in (str, isinstance, type) or (getattr(f, "__name__", "") in ("format", "join") and
                                                     isinstance(getattr(f, "__self__", None), str))
            if not ok_fn:
                raise Unknown("symbolic text passed to %s" % getattr(f, "__name__", f))
        if isinstance(getattr(f, "__self__", None), SymStr):
            raise Unknown("method of symbolic text")
        if isinstance(f, (Opaque, Partial)) or f is TOP:
            raise Unknown("call of %r" % f)
        if not callable(f):
            raise Unknown("call of non-callable")
        return f(*args, **kw)

    def call_args(self, n, env):
        args = []
        for a in n.args:
            if isinstance(a, ast.Starred):
                args.extend(self.v_iter(self.expr(a.value, env)))
            else:
                args.append(self.expr(a, env))
        kw = {}
        for k in n.keywords:
            if k.arg is None:
                kw.update(self.expr(k.value, env))
            else:
                kw[k.arg] = self.expr(k.value, env)
        return args, kw

    def expr(self, n, env):
        self.tick()
        E = lambda x: self.expr(x, env)
        if isinstance(n, ast.Constant):
            return n.value
        if isinstance(n, ast.Name):
            if n.id in env:
                v = env[n.id]
                if v is TOP:
                    raise Unknown("name %s is not constant" % n.id)
                return v
            if n.id in SAFE_BUILTINS:
                return SAFE_BUILTINS[n.id]
            raise Unknown("name %s" % n.id)
        if isinstance(n, ast.Dict):
            out = {}
            for k, v in zip(n.keys, n.values):
                if k is None:
                    out.update(E(v))
                else:
                    out[E(k)] = E(v)
            return out
        if isinstance(n, ast.Set):
            return {E(x) for x in n.elts}
        if isinstance(n, (ast.List, ast.Tuple)):
            out = []
            for x in n.elts:
                if isinstance(x, ast.Starred):
                    out.extend(self.v_iter(E(x.value)))
                else:
                    out.append(E(x))
            return out if isinstance(n, ast.List) else tuple(out)
        if isinstance(n, ast.BinOp):
            return self.v_binop(n.op, E(n.left), E(n.right))
        if isinstance(n, ast.UnaryOp):
            return self.v_unary(n.op, E(n.operand))
        if isinstance(n, ast.BoolOp):
            is_and = isinstance(n.op, ast.And)
            v = is_and
            for x in n.values:
                v = E(x)
                t = self.v_truth(v)
                if t != is_and:
                    return v
            return v
        if isinstance(n, ast.IfExp):
            return E(n.body) if self.v_truth(E(n.test)) else E(n.orelse)
        if isinstance(n, ast.Compare):
            l = E(n.left)
            for op, c in zip(n.ops, n.comparators):
                r = E(c)
                if not self.v_truth(self.v_compare(op, l, r)):
                    return False
                l = r
            return True
        if isinstance(n, ast.Subscript):
            v = E(n.value)
            if isinstance(n.slice, ast.Slice):
                idx = slice(*(E(x) if x is not None else None for x in (n.slice.lower, n.slice.upper, n.slice.step)))
            else:
                idx = E(n.slice)
            return self.v_subscript(v, idx)
        if isinstance(n, ast.Lambda):
            return Lam(n, env)
        if isinstance(n, ast.JoinedStr):
            out = []
            for v in n.values:
                if isinstance(v, ast.FormattedValue):
                    spec = E(v.format_spec) if v.format_spec is not None else ""
                    out.append(self.v_format(E(v.value), v.conversion, spec))
                else:
                    out.append(v.value)
            return "".join(out)
        if isinstance(n, (ast.DictComp, ast.ListComp, ast.SetComp, ast.GeneratorExp)):
            out = []

            def rec(i, env2):
                if i == len(n.generators):
                    if isinstance(n, ast.DictComp):
                        out.append((self.expr(n.key, env2), self.expr(n.value, env2)))
                    else:
                        out.append(self.expr(n.elt, env2))
                    return
                g = n.generators[i]
                for x in self.v_iter(self.expr(g.iter, env2)):
                    e3 = dict(env2)
                    self.assign(g.target, x, e3)
                    if all(self.v_truth(self.expr(c, e3)) for c in g.ifs):
                        rec(i + 1, e3)
            rec(0, dict(env))
            if isinstance(n, ast.DictComp):
                return dict(out)
            if isinstance(n, ast.SetComp):
                return set(out)
            return out
        if isinstance(n, ast.Attribute):
            return self.v_attr(E(n.value), n.attr)
        if isinstance(n, ast.Call):
            f = E(n.func)
            if f is _PARTIAL:
                fname = ast.unparse(n.args[0]) if n.args else "?"
                args = [E(a) for a in n.args[1:]]
                kw = {}
                for k in n.keywords:
                    if k.arg is None:
                        kw.update(E(k.value))
                    else:
                        kw[k.arg] = E(k.value)
                pr = Partial(fname, args, kw)
                try:
                    pr.target = E(n.args[0]) if n.args else None
                except Unknown:
                    pr.target = None
                return pr
            args, kw = self.call_args(n, env)
            return self.v_call(f, args, kw, n, env)
        if isinstance(n, ast.NamedExpr):
            raise Unknown("walrus")
        if isinstance(n, ast.Starred):
            raise Unknown("starred")
        raise Unknown(type(n).__name__)

    @staticmethod
    def _plain(v):
        if isinstance(v, (Opaque, Lam, Partial, ModRef, Record, _PureModule)) or v is TOP:
            raise Unknown("opaque operand")


def _load(t):
    import copy
    t2 = copy.deepcopy(t)
    for n in ast.walk(t2):
        if hasattr(n, "ctx"):
            n.ctx = ast.Load()
    return t2
