"""Reference model of the terminal the window classes write to (an xterm-like screen, independent of curtsies).

The window code under analysis is interpreted with `blessed.Terminal` replaced by `TermStub`, whose capabilities are
the xterm strings blessed would return; everything the window writes is fed to `Screen`, which is the oracle the
render rules compare against.  Modelled: cursor addressing with clamping, deferred autowrap at the last column,
line feed scrolling at the bottom row (scrolled lines go to the scrollback), erase in line / display with the current
background, save / restore cursor, SGR via sa/sgr.py, cursor visibility, the alternate screen, and the cursor position
report written back to the input stream.
"""
import re

from . import sgr
from .report import AnalysisError

BLANK = (" ", sgr.DEFAULT)


def _width(ch):
    """Columns a character occupies: 2 for East Asian wide / fullwidth, 0 for combining marks, 1 otherwise."""
    import unicodedata
    if not ch:
        return 1
    if unicodedata.combining(ch) or unicodedata.category(ch) in ("Mn", "Me", "Cf") and ch not in "\u00ad":
        return 0
    return 2 if unicodedata.east_asian_width(ch) in ("W", "F") else 1


def cells_of_text(chars):
    """[(unit, state)] a run of (character, state) pairs occupies on a row: a double-width character takes a second, empty cell,
    a combining character joins the cell before it."""
    out = []
    for ch, st in chars:
        w = _width(ch)
        if w == 0 and out:
            k = len(out) - 1
            while k > 0 and out[k][0] == "":
                k -= 1
            out[k] = (out[k][0] + ch, out[k][1])
        else:
            out.append((ch, st))
            if w == 2:
                out.append(("", st))
    return out

_CSI = re.compile(r"\x1b\[(\??)([0-9;]*)([A-Za-z])")


class Screen:
    def __init__(self, height, width):
        self.height, self.width = height, width
        self.rows = [[BLANK] * width for _ in range(height)]
        self.scrollback = []
        self.r = self.c = 0
        self.pending = False          # deferred wrap: the last column was written, the cursor has not moved on yet
        self.saved = None
        self.state = sgr.DEFAULT
        self.visible = True
        self.alt = None               # saved main screen while the alternate screen is in use
        self.scrolls = 0
        self.replies = []             # characters the terminal sends back (cursor position reports)
        self.written = []             # (row, col) of every cell written or erased since `mark()`
        self.eight_bit = False
        self.ignored_sgr = []
        self.malformed = []           # control sequences the terminal ignores because they are not well formed
        self.report = None            # scripted (row, column) to report instead of the cursor's (1-based, as sent)

    # -- helpers for the rules -----------------------------------------------------------
    def mark(self):
        self.written = []
        self.scrolls = 0

    def absolute(self):
        return self.scrollback + self.rows

    def fill_junk(self, ch="#", state=(35, 44, frozenset({1}))):
        self.rows = [[(ch, state)] * self.width for _ in range(self.height)]

    def resize(self, height, width):
        """A size change: what ends up on the screen is unspecified - the rules fill it with junk afterwards."""
        self.height, self.width = height, width
        self.rows = [[BLANK] * width for _ in range(height)]
        self.r, self.c, self.pending = min(self.r, height - 1), min(self.c, width - 1), False

    def text(self):
        return ["".join(ch for ch, _ in row) for row in self.rows]

    # -- the terminal ---------------------------------------------------------------------
    def _scroll(self):
        self.scrollback.append(self.rows.pop(0))
        self.rows.append([BLANK] * self.width)
        self.scrolls += 1
        self.written = [(r - 1, c) for r, c in self.written]

    def _linefeed(self):
        if self.r == self.height - 1:
            self._scroll()
        else:
            self.r += 1

    def _erase(self, r, c0, c1):
        blank = (" ", (None, self.state[1], frozenset()))
        for c in range(max(0, c0), min(self.width, c1)):
            self.rows[r][c] = blank
            self.written.append((r, c))

    def _unpair(self, r, c):
        """Writing over one half of a double-width character blanks the other half."""
        row = self.rows[r]
        if row[c][0] == "" and c > 0 and _width(row[c - 1][0][:1] or " ") == 2:
            row[c - 1] = (" ", row[c - 1][1])
        elif c + 1 < self.width and row[c + 1][0] == "" and _width(row[c][0][:1] or " ") == 2:
            row[c + 1] = (" ", row[c + 1][1])

    def feed(self, data):
        if not isinstance(data, str):
            raise AnalysisError("the window wrote a non-text value to the terminal: %r" % (data,))
        i = 0
        while i < len(data):
            ch = data[i]
            if ch == "\x1b":
                m = _CSI.match(data, i)
                if m:
                    self._csi(m.group(1), m.group(2), m.group(3))
                    i = m.end()
                    continue
                if data[i:i + 2] == "\x1b[":
                    # a control sequence that is not well formed (ECMA-48 / VT500 parser): parameter bytes, intermediate
                    # bytes, final byte; anything else puts the parser into "ignore until the final byte"
                    j = i + 2
                    while j < len(data) and not ("\x40" <= data[j] <= "\x7e"):
                        if data[j] < "\x20":
                            break
                        j += 1
                    self.malformed.append(data[i:j + 1])
                    i = j + 1
                    continue
                if data[i:i + 2] == "\x1b7":
                    self.saved = (self.r, self.c, self.state)
                    i += 2
                    continue
                if data[i:i + 2] == "\x1b8":
                    if self.saved is not None:
                        self.r, self.c, self.state = self.saved
                        self.r = min(self.r, self.height - 1)
                    self.pending = False
                    i += 2
                    continue
                raise AnalysisError("terminal model: unknown escape sequence %r" % data[i:i + 8])
            if ch == "\n":
                self.pending = False
                self._linefeed()
            elif ch == "\r":
                self.pending = False
                self.c = 0
            elif ch == "\b":
                self.pending = False
                self.c = max(0, self.c - 1)
            elif ch < " " or ch == "\x7f":
                raise AnalysisError("terminal model: control character %r" % ch)
            else:
                if self.height == 0 or self.width == 0:
                    i += 1
                    continue
                cw = _width(ch)
                if cw == 0:
                    # a combining character joins the character in the cell before the cursor (the cell itself when a wrap is pending)
                    c0 = self.c if self.pending else self.c - 1
                    while c0 > 0 and self.rows[self.r][c0][0] == "":
                        c0 -= 1
                    if c0 >= 0:
                        base, st = self.rows[self.r][c0]
                        self.rows[self.r][c0] = (base + ch, st)
                    i += 1
                    continue
                if self.pending or (cw == 2 and self.c == self.width - 1 and self.width > 1):
                    self.c = 0
                    self._linefeed()
                    self.pending = False
                self._unpair(self.r, self.c)
                self.rows[self.r][self.c] = (ch, self.state)
                self.written.append((self.r, self.c))
                if cw == 2 and self.c + 1 < self.width:
                    self._unpair(self.r, self.c + 1)
                    self.rows[self.r][self.c + 1] = ("", self.state)      # the second column of a double-width character
                    self.written.append((self.r, self.c + 1))
                    self.c += 1
                if self.c == self.width - 1:
                    self.pending = True
                else:
                    self.c += 1
            i += 1

    def _csi(self, private, params, final):
        nums = [int(p) if p else 0 for p in params.split(";")] if params else []
        if private:
            if final in "hl" and nums == [25]:
                self.visible = final == "h"
            elif final in "hl" and nums == [12]:
                pass
            elif final in "hl" and nums == [1049]:
                if final == "h" and self.alt is None:
                    self.alt = (self.rows, self.scrollback, self.r, self.c)
                    self.rows = [[BLANK] * self.width for _ in range(self.height)]
                    self.scrollback = []
                    self.r = self.c = 0
                elif final == "l" and self.alt is not None:
                    self.rows, self.scrollback, self.r, self.c = self.alt
                    self.alt = None
            else:
                raise AnalysisError("terminal model: unknown private mode %r%s" % (params, final))
            return
        if final == "m":
            for code in (nums or [0]):
                if code in (38, 48, 58):
                    raise AnalysisError("terminal model: extended colour SGR %d is not modelled" % code)
                try:
                    self.state = sgr.apply(self.state, code)
                except sgr.Unsupported:
                    self.ignored_sgr.append(code)      # a terminal ignores graphic renditions it does not implement
        elif final == "H":
            r = (nums[0] if len(nums) > 0 and nums[0] else 1) - 1
            c = (nums[1] if len(nums) > 1 and nums[1] else 1) - 1
            self.r, self.c = min(max(r, 0), self.height - 1), min(max(c, 0), self.width - 1)
            self.pending = False
        elif final == "G":
            c = (nums[0] if nums and nums[0] else 1) - 1
            self.c = min(max(c, 0), self.width - 1)
            self.pending = False
        elif final == "K":
            mode = nums[0] if nums else 0
            if mode == 0:
                self._erase(self.r, self.c, self.width)
            elif mode == 1:
                self._erase(self.r, 0, self.c + 1)
            else:
                self._erase(self.r, 0, self.width)
        elif final == "J":
            mode = nums[0] if nums else 0
            if mode == 0:
                self._erase(self.r, self.c, self.width)
                for r in range(self.r + 1, self.height):
                    self._erase(r, 0, self.width)
            elif mode == 2:
                for r in range(self.height):
                    self._erase(r, 0, self.width)
            else:
                raise AnalysisError("terminal model: ED mode %d" % mode)
        elif final == "n" and nums == [6]:
            pos = self.report if self.report is not None else (self.r + 1, self.c + 1)
            self.replies.extend(("\x9b" if self.eight_bit else "\x1b[") + "%d;%dR" % pos)
        elif final in "AB":
            n = nums[0] if nums and nums[0] else 1
            self.r = min(self.height - 1, max(0, self.r + (n if final == "B" else -n)))
            self.pending = False
        else:
            raise AnalysisError("terminal model: unknown control sequence %r%s" % (params, final))


CAPS = {
    "hide_cursor": "\x1b[?25l", "normal_cursor": "\x1b[?12l\x1b[?25h", "clear_eol": "\x1b[K", "clear_bol": "\x1b[1K",
    "clear_eos": "\x1b[J", "clear": "\x1b[H\x1b[2J", "home": "\x1b[H", "move_down": "\n", "enter_fullscreen": "\x1b[?1049h", "exit_fullscreen": "\x1b[?1049l",
}


def move(row, col):
    return "\x1b[%d;%dH" % (row + 1, col + 1)


def move_x(x):
    return "\x1b[%dG" % (x + 1)
