"""Values arrived at through a history: every public operation of the C13 operation table applied to base values whose memoised
views (text, length, width, terminal string, repr) were filled first.  A value is a FmtStr however it was made, so the rules that
quantify over "every FmtStr" (C01 display, C05 round trip, C19 equality / hash) also run on these."""
from .objinterp import Obj
from .report import AnalysisError


def derived_values(it):
    """[(how it was made, value)] - FmtStr results (list results element-wise) of each operation on looked-at base values."""
    from .rules.c13sem import base_pool, observe, operations
    out = []
    ops = operations(it)
    npool = len(base_pool(it))
    for oi, (label, k, fn) in enumerate(ops):
        if label in ("x == y", "hash(x)"):
            continue
        for i in range(npool):
            pool = [(n, f()) for n, f in base_pool(it)]
            for _, v in pool:
                observe(it, v)
            args = [pool[(i + j) % npool][1] for j in range(k)]
            names = [pool[(i + j) % npool][0] for j in range(k)]
            desc = label
            for ph, nm in zip(("x", "y"), names):
                desc = desc.replace(ph, nm, 1) if ph in desc else desc
            try:
                r = fn(*args)
            except Exception as e:
                if getattr(e, "name", None) is None:
                    raise AnalysisError("operation %s is outside the evaluated subset: %s" % (label, e))
                continue
            if r[0] == "opaque":
                raise AnalysisError("operation %s is outside the evaluated subset: %s" % (label, r[1]))
            if r[0] == "incoherent":
                out.append(("%s (every base value looked at first)" % desc, ("incoherent", r[1])))
                continue
            if r[0] != "ok":
                continue
            vals = r[1] if isinstance(r[1], list) else [r[1]]
            for j, v in enumerate(vals):
                if isinstance(v, Obj) and v.cls == "FmtStr":
                    out.append(("%s%s (every base value looked at first)" % (desc, "[%d]" % j if len(vals) > 1 else ""), v))
    return out
